"""C05 — part-affinity-field targets point along each edge and vanish where they must.

Model: coq/theories/C05/EdgeMaps.v (one instance's contribution to a cell is a term
(a, n, l2) meaning exp(a) * n / sqrt(l2), all three exact rationals; a cell of the
summed field is the list of its terms); theorems: coq/theories/C05/Props.v.
Tie: correspondence with distance_to_edge, make_edge_maps, make_pafs, make_multi_pafs,
get_edge_points, generate_pafs (flattened or not) and PartAffinityFieldsGenerator.
Oracle: the property statement itself, evaluated on the implementation's outputs of
generate_pafs / the DataPipe (shape, finiteness, additivity over animals, and for each
animal alone: collinear with the unit vector source->destination, weight in [0,1],
weight 1 on the segment, weight non-increasing in the exact distance to the closed
segment, exact zero for missing endpoint / zero length / animals outside the image).
Findings F1 (edges shorter than one pixel) and F23 (animals inside the image dropped by
the strict filter box) are fixed in /repo (5bfaeb9, f00ee7f); the model's `false` variants
and the Coq selectors are still tied on every run: the pre-repair source is rebuilt by
reverse-applying proposed_fixes/C05_F1.diff, C05_F23.diff to the current edge_maps.py and
the corpus witnesses plus a sample of cases are evaluated with fixed_len = fixed_box = false
against it; `selector_F1` / `selector_strict_box` are evaluated in Coq (case CSel) and
compared with the Python selectors of the oracle.  Kind "chk": the domain of generate_pafs
(`in_domain`; model None <=> the code raises IndexError / RuntimeError).  Kind "big" (round 5):
large images (700..1300 px), long edges with float32 (non-dyadic) endpoints, strides 2..8; the
model is evaluated on a sample of cells (EdgeMaps.sample_cell, Props.c05_sampled_cell_is_cell_of_field)
and compared within the float32 rounding bound of the code's difference form (see "large images"
below); the property's clauses are evaluated on every cell of the output.
"""
from __future__ import annotations

import importlib.util
import json
import math
import shutil
import struct
import subprocess
from fractions import Fraction as F

from .. import core

PROP_FILES = [core.THEORIES / "C05" / "Props.v"]
PREAMBLE = ("From SV Require Import C05.EdgeMaps.\nFrom Coq Require Import List QArith.\n"
            "Import ListNotations.\nOpen Scope Q_scope.\n")
RENDER = "rtree"
ATOL, RTOL = 2e-5, 3e-4
SEL_F1 = "short_edge_lt_1px"
SEL_BOX = "dropped_by_strict_box"
WITNESS_F1 = core.CORPUS / "C05" / "F1_short_edge.json"
WITNESS_BOX = core.CORPUS / "C05" / "F23_border_animal.json"
HIST_DIFFS = [core.VERIF / "proposed_fixes" / "C05_F1.diff", core.VERIF / "proposed_fixes" / "C05_F23.diff"]
SIGMAS = [F(1, 2), F(1), F(3, 2), F(5, 2), F(5)]
SIGMAS_EXTREME = [F(1, 16), F(1, 8), F(40), F(4096)]     # weights underflow to 0 / stay at 1: never NaN


# ---------------------------------------------------------------- generation
def visible(p):
    return p[0] is not None and p[1] is not None


def gen_coord(rng, n, s):
    t = rng.random()
    last = s * (-(-n // s) - 1)
    if t < 0.25:                       # exactly on a grid point
        return F(s * rng.randrange(0, max(1, -(-n // s))))
    if t < 0.35:                       # on / next to the border lines of image and filter box
        return F(rng.choice([0, n - 1, last, n, -1, F(1, 2), last - F(1, 2), last + F(1, 2)]))
    if t < 0.42:                       # outside
        return F(rng.randrange(-16 * s, 8 * (n + 2 * s)), 8)
    return F(rng.randrange(0, 16 * n), 16)


def gen_kp(rng, H, W, s, p_nan):
    if rng.random() < p_nan:
        k = rng.random()
        x = F(rng.randrange(0, 8 * W), 8)
        return (None, None) if k < 0.5 else ((x, None) if k < 0.75 else (None, x))
    return (gen_coord(rng, W, s), gen_coord(rng, H, s))


def punch_nan(rng, inst):
    """Out-of-image animals also come with a missing node (NaN is neither inside nor outside)."""
    vis = [k for k, p in enumerate(inst) if visible(p)]
    if len(vis) >= 3 and rng.random() < 0.45:
        k = rng.choice(vis)
        inst[k] = rng.choice([(None, None), (inst[k][0], None), (None, inst[k][1])])
    return inst


def gen_animal(rng, H, W, s, n_nodes, p_nan):
    kind = rng.random()
    inst = [gen_kp(rng, H, W, s, p_nan) for _ in range(n_nodes)]
    lastx, lasty = s * (-(-W // s) - 1), s * (-(-H // s) - 1)
    if kind < 0.05:                    # wholly outside the image, far away
        dx = rng.choice([-(W + 4), W + 4, 0])
        dy = rng.choice([-(H + 4), H + 4]) if dx == 0 else rng.choice([-(H + 4), 0, H + 4])
        inst = [(p[0] + dx, p[1] + dy) if visible(p) else p for p in inst]
    elif kind < 0.11:                  # wholly outside, every node 9/16 .. 3 px beyond ONE border line (the
        side = rng.randrange(4)        # Gaussian tails would reach into the image if the animal were kept)
        def onode():
            off = F(rng.randrange(9, 48), 16)
            if side == 0:
                return (-off, F(rng.randrange(0, 8 * H), 8))
            if side == 1:
                return (W - 1 + off, F(rng.randrange(0, 8 * H), 8))
            if side == 2:
                return (F(rng.randrange(0, 8 * W), 8), -off)
            return (F(rng.randrange(0, 8 * W), 8), H - 1 + off)
        return punch_nan(rng, [onode() if visible(p) else p for p in inst])
    elif kind < 0.22:                  # every node on the border lines / band outside the filter box
        def bnode():
            k = rng.randrange(4)
            if k == 0:
                return (F(0), gen_coord(rng, H, s))
            if k == 1:
                return (gen_coord(rng, W, s), F(0))
            if k == 2:
                return (F(rng.randrange(16 * lastx, 16 * (W - 1) + 1), 16) if rng.random() < 0.5 else F(lastx),
                        gen_coord(rng, H, s))
            return (gen_coord(rng, W, s),
                    F(rng.randrange(16 * lasty, 16 * (H - 1) + 1), 16) if rng.random() < 0.5 else F(lasty))
        inst = [bnode() if visible(p) else p for p in inst]
    elif kind < 0.28 and n_nodes >= 2:  # "crossing": every node outside, on opposite sides, so that the
        horiz = rng.random() < 0.5      # segments between them cross the image (animal = its nodes: zero)
        def cnode(k):
            far = F(rng.randrange(8, 8 * 6), 8)
            if horiz:
                return ((-far if k % 2 == 0 else W - 1 + far), F(rng.randrange(0, 8 * H), 8))
            return (F(rng.randrange(0, 8 * W), 8), (-far if k % 2 == 0 else H - 1 + far))
        return punch_nan(rng, [cnode(k) if visible(p) else p for k, p in enumerate(inst)])
    elif kind < 0.34:                  # every node in the one-pixel strip just beyond a border line:
        def snode():                   # x in (W-1, W) or (-1, 0), or y in (H-1, H) or (-1, 0)
            off = F(rng.randrange(1, 16), 16)
            k = rng.randrange(4)
            if k == 0:
                return (W - 1 + off, gen_coord(rng, H, s))
            if k == 1:
                return (gen_coord(rng, W, s), H - 1 + off)
            if k == 2:
                return (-off, gen_coord(rng, H, s))
            return (gen_coord(rng, W, s), -off)
        inst = [snode() if visible(p) else p for p in inst]
    # coincident nodes / sub-pixel edges
    for k in range(1, n_nodes):
        r = rng.random()
        if not visible(inst[k - 1]):
            continue
        if r < 0.08:
            inst[k] = inst[k - 1]
        elif r < 0.22:
            ox, oy = rng.choice([(F(rng.randrange(-15, 16), 16), F(0)), (F(0), F(rng.randrange(-15, 16), 16)),
                                 (F(rng.randrange(-11, 12), 16), F(rng.randrange(-11, 12), 16))])
            inst[k] = (inst[k - 1][0] + ox, inst[k - 1][1] + oy)
    return inst


def gen_edges(rng, n_nodes):
    if n_nodes == 1:
        return [(0, 0)]
    kind = rng.random()
    if kind < 0.35:
        es = [(i, i + 1) for i in range(n_nodes - 1)]
    elif kind < 0.55:
        es = [(0, i) for i in range(1, n_nodes)]
    elif kind < 0.7:
        es = [(i + 1, i) for i in range(n_nodes - 1)]
    else:
        es = [(rng.randrange(n_nodes), rng.randrange(n_nodes)) for _ in range(rng.randint(1, 3))]
    if rng.random() < 0.15:
        es.append(rng.choice(es)[::-1])            # a reversed duplicate
    if rng.random() < 0.03:
        return []
    return es[:3]


def gen_dims(rng, s, thorough):
    big = 32 if thorough else 24
    k = rng.random()
    if k < 0.06:
        H, W = 1, rng.randint(1, big)
    elif k < 0.12:
        H, W = rng.randint(1, big), 1
    elif k < 0.55:
        H, W = s * rng.randint(1, max(1, big // s)), s * rng.randint(1, max(1, big // s))
    else:
        H, W = rng.randint(2, big), rng.randint(2, big)
    while -(-H // s) * -(-W // s) > 42:
        if H >= W:
            H = max(1, H // 2)
        else:
            W = max(1, W // 2)
    return H, W


def gen_case(rng, thorough):
    kind = rng.choice(["gen", "gen", "gen", "gen", "pipe", "pipe", "multi", "pafs", "edgemaps", "dist", "edgepts",
                       "chk"])
    s = rng.choice([1, 1, 2, 2, 4, 8])
    H, W = gen_dims(rng, s, thorough)
    sigma = rng.choice(SIGMAS_EXTREME) if rng.random() < 0.08 else rng.choice(SIGMAS)
    p_nan = rng.choice([0, 0, 0, 0.15, 0.15, 0.4, 1.0])
    n_nodes = rng.choice([1, 2, 2, 3, 3, 4])
    n_inst = rng.choice([0, 1, 1, 2, 2, 3])
    edges = gen_edges(rng, n_nodes)
    insts = [gen_animal(rng, H, W, s, n_nodes, p_nan) for _ in range(n_inst)]
    if n_inst >= 2 and rng.random() < 0.3:
        # an animal without any usable edge point listed BEFORE a real one (NaN "padding" that is not at
        # the end): either wholly missing, or missing exactly on the nodes the edge list uses
        j = rng.randrange(n_inst - 1)
        used = {a for e in edges for a in e}
        if len(used) == n_nodes and n_nodes >= 3 and edges and rng.random() < 0.7:
            edges = [edges[0]]                     # a skeleton node that is on no edge
            used = set(edges[0])
        if rng.random() < 0.5 or not used:
            insts[j] = [(None, None)] * n_nodes
        else:
            insts[j] = [(None, None) if k in used else
                        (p if visible(p) else (F(rng.randrange(1, max(2, 8 * (W - 1))), 8), F(rng.randrange(1, max(2, 8 * (H - 1))), 8)))
                        for k, p in enumerate(insts[j])]
        if not any(visible(p) for p in insts[-1]):
            insts[-1] = [(F(rng.randrange(0, 16 * W), 16), F(rng.randrange(0, 16 * H), 16)) for _ in range(n_nodes)]
    c = {"kind": kind, "H": H, "W": W, "s": s, "sigma": sigma, "edges": edges, "insts": insts,
         "n_nodes": n_nodes, "flat": rng.random() < 0.7}
    if rng.random() < 0.12:
        c["dtype"] = "float64"                        # keypoints as float64 (the output stays float32)
    if kind in ("gen", "pipe", "edgepts") and rng.random() < 0.2:
        c["edge_dtype"] = rng.choice(["int64", "int32"])   # edge indices as an integer tensor
    if kind in ("gen", "pipe"):
        c["extra_sample"] = rng.random() < 0.15       # a second sample that must be ignored
    if kind == "pipe" and rng.random() < 0.4:        # a second example with its own image size
        H2, W2 = gen_dims(rng, s, thorough)
        c["ex2"] = {"H": H2, "W": W2,
                    "insts": [gen_animal(rng, H2, W2, s, n_nodes, p_nan) for _ in range(rng.randint(0, 2))]}
    if kind in ("multi", "pafs", "edgemaps", "dist", "edgepts") and not edges:
        c["edges"] = [(0, n_nodes - 1)]
    if kind in ("pafs", "edgemaps", "dist"):
        while len(c["insts"]) < 1:
            c["insts"].append(gen_animal(rng, H, W, s, n_nodes, p_nan))
    if kind == "chk":                                 # the domain of generate_pafs: half of the cases leave it
        c["flat"] = False
        k = rng.random()
        if k < 0.30 and c["edges"]:                   # a node index out of range (IndexError iff an animal is kept)
            e = rng.randrange(len(c["edges"]))
            bad = n_nodes + rng.randrange(0, 3)
            c["edges"] = list(c["edges"])
            c["edges"][e] = (c["edges"][e][0], bad) if rng.random() < 0.5 else (bad, c["edges"][e][1])
        elif k < 0.40:
            c["no_sample"] = True                     # n_samples = 0: instances[0] raises IndexError
        elif k < 0.50:
            c["s"] = 0                                # torch.arange(step=0) raises RuntimeError
    if kind == "dist":                                # arbitrary (non-grid) query points
        h, w = rng.randint(1, 3), rng.randint(1, 4)
        c["pts"] = [[(F(rng.randrange(-32, 16 * W + 32), 16), F(rng.randrange(-32, 16 * H + 32), 16))
                     for _ in range(w)] for _ in range(h)]
    return c


# ---------------------------------------------------------------- Coq terms
def ckp(p):
    return f"(Some ({core.cq(p[0])}, {core.cq(p[1])}))" if visible(p) else "None"


def cinsts(insts):
    return core.clist(insts, lambda inst: core.clist(inst, ckp))


def cedges(edges):
    return core.clist(edges, lambda e: f"({e[0]}%nat, {e[1]}%nat)")


def grid(n, s):
    return [F(k * s) for k in range(-(-n // s))]


def edge_points(insts, edges):
    return ([[inst[a] for a, _ in edges] for inst in insts], [[inst[b] for _, b in edges] for inst in insts])


def samples_of(c, insts):
    smp = [insts]
    if c.get("extra_sample"):
        smp.append([[(F(3), F(3))] * c["n_nodes"] for _ in insts])
    return smp


def term(c, fixed_len, fixed_box, fixed_box_pipe=None):
    """fixed_box: the in-image filter of generate_pafs; fixed_box_pipe: the one of the DataPipe
    (two copies of the same lines in the source, detected separately)."""
    if fixed_box_pipe is None:
        fixed_box_pipe = fixed_box
    k = c["kind"]
    if k == "big":
        return big_term(c, fixed_len, fixed_box, fixed_box_pipe)
    sg = core.cq(c["sigma"])
    fb = core.cbool(fixed_box)
    fl = core.cbool(fixed_len)
    if k == "chk":
        smp = core.clist([] if c.get("no_sample") else [c["insts"]], cinsts)
        return (f"CGenChk {fl} {fb} {smp} {c['H']}%nat {c['W']}%nat {sg} {c['s']}%nat {cedges(c['edges'])}")
    xv, yv = core.clist(grid(c["W"], c["s"]), core.cq), core.clist(grid(c["H"], c["s"]), core.cq)
    srcs, dsts = edge_points(c["insts"], c["edges"])
    lk = lambda l: core.clist(l, ckp)
    if k == "dist":
        pts = core.clist(c["pts"], lambda r: core.clist(r, lambda p: f"({core.cq(p[0])}, {core.cq(p[1])})"))
        return f"CDist {fl} {pts} {lk(srcs[0])} {lk(dsts[0])}"
    if k == "edgemaps":
        return f"CEdgeMaps {fl} {xv} {yv} {lk(srcs[0])} {lk(dsts[0])} {sg}"
    if k == "pafs":
        return f"CPafs {fl} {xv} {yv} {lk(srcs[0])} {lk(dsts[0])} {sg}"
    if k == "multi":
        return f"CMulti {fl} {xv} {yv} {len(c['edges'])}%nat {core.clist(srcs, lk)} {core.clist(dsts, lk)} {sg}"
    if k == "edgepts":
        return f"CEdgePts {cinsts(c['insts'])} {cedges(c['edges'])}"
    if k == "gen":
        smp = core.clist(samples_of(c, c["insts"]), cinsts)
        return (f"CGen {fl} {fb} {core.cbool(c['flat'])} {smp} {c['H']}%nat {c['W']}%nat {sg} {c['s']}%nat "
                f"{cedges(c['edges'])}")
    if k == "pipe":
        exs = [(c["H"], c["W"], samples_of(c, c["insts"]))]
        if "ex2" in c:
            exs.append((c["ex2"]["H"], c["ex2"]["W"], [c["ex2"]["insts"]]))
        ex_t = core.clist(exs, lambda e: f"({e[0]}%nat, {e[1]}%nat, {core.clist(e[2], cinsts)})")
        return f"CPipe {fl} {core.cbool(fixed_box_pipe)} {core.cbool(c['flat'])} {ex_t} {sg} {c['s']}%nat {cedges(c['edges'])}"
    raise ValueError(k)


def sel_term(c):
    """The Coq selectors of F1 / F23 on the animals and edges of a case."""
    return f"CSel {c['H']}%nat {c['W']}%nat {c['s']}%nat {cinsts(c['insts'])} {cedges(c['edges'])}"


def in_range(c):
    return all(0 <= a < c["n_nodes"] and 0 <= b < c["n_nodes"] for a, b in c["edges"])


def py_selectors(c):
    """The Python selectors used by the oracle, in the shape of EdgeMaps.run (CSel ...)."""
    H, W, s = c["H"], c["W"], c["s"]
    out = []
    for inst in c["insts"]:
        box = classify(inst, H, W) == "inside" and not strictly_in_code_box(inst, H, W, s)
        f1 = []
        for a, b in c["edges"]:
            src, dst = inst[a], inst[b]
            f1.append(bool(visible(src) and visible(dst) and
                           0 < (dst[0] - src[0]) ** 2 + (dst[1] - src[1]) ** 2 < 1))
        out.append([box, f1])
    return out


# ---------------------------------------------------------------- implementation
def t_kps(kps, torch, dtype="float32"):
    nan = float("nan")
    return torch.tensor([[nan if v is None else float(v) for v in p] for p in kps],
                        dtype=getattr(torch, dtype)).reshape(len(kps), 2)


def t_insts(samples, n_nodes, torch, dtype="float32"):
    nan = float("nan")
    n_inst = len(samples[0])
    flat = [[[[nan if v is None else float(v) for v in p] for p in inst] for inst in smp] for smp in samples]
    return torch.tensor(flat, dtype=getattr(torch, dtype)).reshape(len(samples), n_inst, n_nodes, 2)


def t_edges(edges, torch, dtype="float32"):
    # the repo's callers pass torch.Tensor(edge_inds): a float tensor (default here)
    return torch.tensor(edges, dtype=getattr(torch, dtype)).reshape(len(edges), 2)


def impl_generate(em, torch, samples, n_nodes, H, W, sigma, s, edges, flat, dtype="float32", edge_dtype="float32"):
    return em.generate_pafs(t_insts(samples, n_nodes, torch, dtype), (H, W), float(sigma), s,
                            t_edges(edges, torch, edge_dtype), flat)


def run_impl(c, mods):
    torch, em = mods
    k = c["kind"]
    if k == "big":
        return run_big(c, mods)
    sg = float(c["sigma"])
    dt, edt = c.get("dtype", "float32"), c.get("edge_dtype", "float32")
    if k == "chk":                                    # None = the code raises (kind of error as documented)
        smp = t_insts([c["insts"]], c["n_nodes"], torch, dt)
        if c.get("no_sample"):
            smp = smp[:0]
        try:
            return em.generate_pafs(smp, (c["H"], c["W"]), sg, c["s"], t_edges(c["edges"], torch, edt), False)
        except (IndexError, RuntimeError):
            return None
    xv = torch.tensor([float(v) for v in grid(c["W"], c["s"])], dtype=torch.float32)
    yv = torch.tensor([float(v) for v in grid(c["H"], c["s"])], dtype=torch.float32)
    srcs, dsts = edge_points(c["insts"], c["edges"])
    E = len(c["edges"])
    dt, edt = c.get("dtype", "float32"), c.get("edge_dtype", "float32")
    if k == "dist":
        pts = torch.tensor([[[float(p[0]), float(p[1])] for p in r] for r in c["pts"]], dtype=getattr(torch, dt))
        return em.distance_to_edge(pts, t_kps(srcs[0], torch, dt), t_kps(dsts[0], torch, dt))
    if k == "edgemaps":
        return em.make_edge_maps(xv, yv, t_kps(srcs[0], torch, dt), t_kps(dsts[0], torch, dt), sg)
    if k == "pafs":
        return em.make_pafs(xv, yv, t_kps(srcs[0], torch, dt), t_kps(dsts[0], torch, dt), sg)
    if k == "multi":
        return impl_multi(em, torch, xv, yv, srcs, dsts, E, sg, dt)
    if k == "edgepts":
        a, b = em.get_edge_points(t_insts([c["insts"]], c["n_nodes"], torch, dt)[0], t_edges(c["edges"], torch, edt))
        return (a, b)
    if k == "gen":
        return impl_generate(em, torch, samples_of(c, c["insts"]), c["n_nodes"], c["H"], c["W"], c["sigma"],
                             c["s"], c["edges"], c["flat"], dt, edt)
    if k == "pipe":
        exs = [(c["H"], c["W"], samples_of(c, c["insts"]), 1)]
        if "ex2" in c:
            exs.append((c["ex2"]["H"], c["ex2"]["W"], [c["ex2"]["insts"]], 3))
        return impl_pipe(em, torch, exs, c["n_nodes"], c["sigma"], c["s"], c["edges"], c["flat"], dt, edt)
    raise ValueError(k)


def impl_multi(em, torch, xv, yv, srcs, dsts, E, sg, dt="float32"):
    ts = torch.stack([t_kps(a, torch, dt) for a in srcs]) if srcs else torch.zeros((0, E, 2))
    td = torch.stack([t_kps(a, torch, dt) for a in dsts]) if dsts else torch.zeros((0, E, 2))
    return em.make_multi_pafs(xv, yv, ts, td, sg)


# ---------------------------------------------------------------- model vs implementation
def q2f(j):
    return j[0] / j[1]


def term_val(t):
    a, n, l2 = q2f(t[0]), q2f(t[1]), q2f(t[2])
    return math.exp(max(-745.0, a)) * n / math.sqrt(l2)


def close(v, want, atol=ATOL, rtol=RTOL):
    if want is None:
        return isinstance(v, float) and math.isnan(v)
    return isinstance(v, float) and not math.isnan(v) and abs(v - want) <= atol + rtol * abs(want)


def cmp_nested(model, impl, leaf, depth, path=()):
    """Compare nested lists `depth` levels deep; leaves compared by leaf(m, v)."""
    if depth == 0:
        return None if leaf(model, impl) else f"at {path}: impl {impl} model {model}"
    if not isinstance(impl, list) or len(model) != len(impl):
        return f"at {path}: length {len(impl) if isinstance(impl, list) else impl} vs model {len(model)}"
    for i, (m, v) in enumerate(zip(model, impl)):
        r = cmp_nested(m, v, leaf, depth - 1, path + (i,))
        if r:
            return r
    return None


def leaf_q(m, v):                     # option Q, plain value
    return close(v, None if m is None else q2f(m), atol=1e-4, rtol=1e-4)


def leaf_exp(m, v):                   # option Q, argument of exp
    return close(v, None if m is None else math.exp(max(-745.0, q2f(m))))


def leaf_oterm(m, v):                 # option term
    return close(v, None if m is None else term_val(m))


def leaf_sum(m, v):                   # list term
    return close(v, sum(term_val(t) for t in m))


def leaf_kp(m, v):                    # kp vs [x, y] floats (NaN = missing coordinate)
    if m is None:
        return any(math.isnan(t) for t in v)
    return [q2f(m[0]), q2f(m[1])] == v


def compare(c, model, out):
    k = c["kind"]
    if k == "big":
        return compare_big(c, model, out)
    if k == "dist":
        return cmp_nested(model, out.tolist(), leaf_q, 3)
    if k == "edgemaps":
        return cmp_nested(model, out.tolist(), leaf_exp, 3)
    if k == "pafs":
        return cmp_nested(model, out.tolist(), leaf_oterm, 4)
    if k == "multi":
        return cmp_nested(model, out.tolist(), leaf_sum, 4)
    if k == "edgepts":
        return (cmp_nested(model[0], out[0].tolist(), leaf_kp, 2) or
                cmp_nested(model[1], out[1].tolist(), leaf_kp, 2))
    if k == "gen":
        return cmp_nested(model, out.tolist(), leaf_sum, 3 if c["flat"] else 4)
    if k == "chk":
        if model is None or out is None:
            return None if (model is None and out is None) else (
                f"domain: model {'raises' if model is None else 'has an output'}, "
                f"implementation {'raises' if out is None else 'has an output'}")
        return cmp_nested(model, out.tolist(), leaf_sum, 4)
    if k == "pipe":
        outs = [o.unsqueeze(0).tolist() if c["flat"] else o.tolist() for o in out]
        return cmp_nested(model, outs, leaf_sum, 5)
    raise ValueError(k)


# ---------------------------------------------------------------- the property, executable
def seg_dist2(src, dst, x, y):
    """Exact squared distance from (x,y) to the closed segment src-dst (length > 0)."""
    dx, dy = dst[0] - src[0], dst[1] - src[1]
    rx, ry = x - src[0], y - src[1]
    t = (rx * dx + ry * dy) / (dx * dx + dy * dy)
    t = min(max(t, F(0)), F(1))
    return (t * dx - rx) ** 2 + (t * dy - ry) ** 2


def classify(inst, H, W):
    """'inside': a visible node in the closed pixel rectangle [0,W-1]x[0,H-1];
    'outside': every visible node beyond the half-pixel margin (or none visible);
    'margin': neither (the statement does not say)."""
    vis = [p for p in inst if visible(p)]
    if any(0 <= p[0] <= W - 1 and 0 <= p[1] <= H - 1 for p in vis):
        return "inside"
    h = F(1, 2)
    if all(p[0] < -h or p[0] > W - 1 + h or p[1] < -h or p[1] > H - 1 + h for p in vis):
        return "outside"
    return "margin"


def strictly_in_code_box(inst, H, W, s):
    lx, ly = s * (-(-W // s) - 1), s * (-(-H // s) - 1)
    return any(visible(p) and 0 < p[0] < lx and 0 < p[1] < ly for p in inst)


def monotone_in_distance(cells, what):
    """cells: (exact squared distance, weight, index).  Weight 1 at distance 0, equal at equal
    distances, non-increasing along increasing distance.  Returns a reason or None."""
    for d2, wt, ij in cells:
        if d2 == 0 and wt < 1 - (ATOL + RTOL):
            return f"{what} cell {ij} lies on the segment but its weight is {wt}, not 1"
    cells = sorted(cells, key=lambda t: t[0])
    run_min, k = math.inf, 0
    while k < len(cells):
        k2 = k
        while k2 < len(cells) and cells[k2][0] == cells[k][0]:
            k2 += 1
        grp = [t[1] for t in cells[k:k2]]
        tol = ATOL + RTOL * max(grp)
        if max(grp) - min(grp) > 2 * tol:
            return f"{what}: cells at equal distance {float(cells[k][0])} have weights {min(grp)}..{max(grp)}"
        if max(grp) > run_min + 2 * tol:
            return (f"{what}: weight {max(grp)} at squared distance {float(cells[k][0])} exceeds the weight "
                    f"{run_min} of a nearer cell (not non-increasing with distance)")
        run_min = min(run_min, min(grp))
        k = k2
    return None


def oracle_single(inst, out, H, W, s, edges, sigma, filtered=True):
    """The per-animal clauses on the (E,2,h,w) field of ONE animal.  filtered=False: the field comes
    from make_pafs / make_multi_pafs, which have no in-image filter (every animal counts).
    Returns (reason or None, selector or None)."""
    h, w = -(-H // s), -(-W // s)
    cls = classify(inst, H, W) if filtered else "inside"
    allzero = all(v == 0.0 for e in out for ch in e for row in ch for v in row)
    if cls == "outside":
        return (None, None) if allzero else ("an animal wholly outside the image contributes a non-zero field", None)
    if cls == "margin" and allzero:
        return None, None
    box_sel = SEL_BOX if (filtered and cls == "inside" and allzero and not strictly_in_code_box(inst, H, W, s)) else None
    for e, (a, b) in enumerate(edges):
        src, dst = inst[a], inst[b]
        fx, fy = out[e]
        if not (visible(src) and visible(dst)) or src == dst:
            if any(v != 0.0 for ch in (fx, fy) for row in ch for v in row):
                return f"edge {e} with a missing endpoint / zero length contributes a non-zero field", None
            continue
        dx, dy = float(dst[0] - src[0]), float(dst[1] - src[1])
        n = math.hypot(dx, dy)
        ux, uy = dx / n, dy / n
        l2 = (dst[0] - src[0]) ** 2 + (dst[1] - src[1]) ** 2
        short = SEL_F1 if 0 < l2 < 1 else None
        band_bad = None                 # F1 explains only weights inside the proved band
        cells = []
        for i in range(h):
            for j in range(w):
                vx, vy = fx[i][j], fy[i][j]
                wt = vx * ux + vy * uy
                if abs(vx - wt * ux) > ATOL + RTOL * abs(wt) or abs(vy - wt * uy) > ATOL + RTOL * abs(wt):
                    return (f"edge {e} cell {(i, j)}: field ({vx},{vy}) is not along the unit vector "
                            f"source->destination ({ux},{uy})"), None
                if wt < -ATOL or wt > 1 + ATOL + RTOL:
                    return f"edge {e} cell {(i, j)}: weight {wt} outside [0,1] (direction reversed if negative)", None
                d2 = seg_dist2(src, dst, F(j * s), F(i * s))
                cells.append((d2, wt, (i, j)))
                if short and band_bad is None:
                    # theorems c05_weight_at_most_true_weight / c05_weight_at_least_shifted_weight
                    sg2 = 2 * float(sigma) ** 2
                    hi = math.exp(-float(d2) ** 2 / sg2)
                    lo = math.exp(-((math.sqrt(float(d2)) + n) ** 2) ** 2 / sg2)
                    if not (lo - ATOL - RTOL <= wt <= hi + ATOL + RTOL):
                        band_bad = f"cell {(i, j)} weight {wt} outside [{lo},{hi}]"
        if band_bad:
            short = None                # a defect other than F1 on a sub-pixel edge
        for d2, wt, ij in cells:
            if d2 == 0 and wt < 1 - (ATOL + RTOL):
                return (f"edge {e} cell {ij} lies on the segment but its weight is {wt}, not 1",
                        box_sel or short)
        cells.sort(key=lambda t: t[0])
        run_min, k = math.inf, 0
        while k < len(cells):
            k2 = k
            while k2 < len(cells) and cells[k2][0] == cells[k][0]:
                k2 += 1
            grp = [t[1] for t in cells[k:k2]]
            tol = ATOL + RTOL * max(grp)
            if max(grp) - min(grp) > 2 * tol:
                return f"edge {e}: cells at equal distance {float(cells[k][0])} have weights {min(grp)}..{max(grp)}", short
            if max(grp) > run_min + 2 * tol:
                return (f"edge {e}: weight {max(grp)} at squared distance {float(cells[k][0])} exceeds the weight "
                        f"{run_min} of a nearer cell (not non-increasing with distance)"), short
            run_min = min(run_min, min(grp))
            k = k2
    return None, None


def impl_pipe(em, torch, examples, n_nodes, sigma, s, edges, flat, dtype="float32", edge_dtype="float32"):
    """examples: list of (H, W, samples, channels)."""
    exs = [{"image": torch.zeros((1, ch, H, W)), "instances": t_insts(smp, n_nodes, torch, dtype)}
           for H, W, smp, ch in examples]
    dp = em.PartAffinityFieldsGenerator(exs, sigma=float(sigma), output_stride=s,
                                        edge_inds=t_edges(edges, torch, edge_dtype), flatten_channels=flat)
    outs = list(dp)
    if len(outs) != len(exs):
        raise AssertionError(f"DataPipe yielded {len(outs)} examples for {len(exs)}")
    return [o["part_affinity_fields"] for o in outs]


def oracle_field(mods, out, insts, n_nodes, H, W, s, sigma, edges, flat, via_pipe, dts=("float32", "float32")):
    """All clauses for one output of generate_pafs / the DataPipe.  Returns a list of
    (reason, selector) failures (empty = the property holds on this case).  The field of
    each animal alone is obtained through the same entry point as `out`."""
    torch, em = mods
    h, w = -(-H // s), -(-W // s)
    E = len(edges)
    want = (2 * E, h, w) if flat else (E, 2, h, w)
    if tuple(out.shape) != want:
        return [(f"shape {tuple(out.shape)} != {want}", None)]
    if not bool(torch.isfinite(out).all()):
        return [("output contains NaN or inf", None)]
    if E == 0:
        return []
    o4 = out.reshape(E, 2, h, w)          # channel 2e+c of the flattened output must be (edge e, component c)
    fails = []
    total = torch.zeros((E, 2, h, w), dtype=torch.float64)
    for a, inst in enumerate(insts):
        if via_pipe:
            one = impl_pipe(em, torch, [(H, W, [[inst]], 1)], n_nodes, sigma, s, edges, False, *dts)[0]
        else:
            one = impl_generate(em, torch, [[inst]], n_nodes, H, W, sigma, s, edges, False, *dts)
        if tuple(one.shape) != (E, 2, h, w) or not bool(torch.isfinite(one).all()):
            fails.append((f"animal {a} alone: bad shape or non-finite values", None))
            continue
        total += one.double()
        bad, sel = oracle_single(inst, one.tolist(), H, W, s, edges, sigma)
        if bad:
            fails.append((f"animal {a}: {bad}", sel))
    diff = (o4.double() - total).abs()
    tol = 2 * ATOL + RTOL * total.abs()
    if bool((diff > tol).any()):
        idx = int((diff - tol).flatten().argmax())
        fails.append((f"fields of several animals do not add (flat index {idx}): "
                      f"{float(o4.flatten()[idx])} vs sum of the single-animal fields {float(total.flatten()[idx])}",
                      None))
    if via_pipe:                          # the two entry points generate the same field
        ref = impl_generate(em, torch, [insts], n_nodes, H, W, sigma, s, edges, flat, *dts)
        if tuple(ref.shape) != tuple(out.shape) or not bool(
                ((ref.double() - out.double()).abs() <= 2 * ATOL + RTOL * ref.double().abs()).all()):
            fails.append(("PartAffinityFieldsGenerator and generate_pafs generate different fields for the "
                          "same example", None))
    return fails


def oracle_multi(c, out, mods):
    """make_multi_pafs (no filter): shape, never NaN, the field is the sum of the fields of each animal
    alone (whatever the order and the NaN pattern), and the per-animal clauses."""
    torch, em = mods
    H, W, s, edges = c["H"], c["W"], c["s"], c["edges"]
    h, w, E = -(-H // s), -(-W // s), len(edges)
    if tuple(out.shape) != (E, 2, h, w):
        return [(f"make_multi_pafs: shape {tuple(out.shape)} != {(E, 2, h, w)}", None)]
    if not bool(torch.isfinite(out).all()):
        return [("make_multi_pafs: output contains NaN or inf", None)]
    xv = torch.tensor([float(v) for v in grid(W, s)], dtype=torch.float32)
    yv = torch.tensor([float(v) for v in grid(H, s)], dtype=torch.float32)
    fails, total = [], torch.zeros((E, 2, h, w), dtype=torch.float64)
    for a, inst in enumerate(c["insts"]):
        srcs, dsts = edge_points([inst], edges)
        one = impl_multi(em, torch, xv, yv, srcs, dsts, E, float(c["sigma"]), c.get("dtype", "float32"))
        if tuple(one.shape) != (E, 2, h, w) or not bool(torch.isfinite(one).all()):
            fails.append((f"make_multi_pafs, animal {a} alone: bad shape or non-finite values", None))
            continue
        total += one.double()
        bad, sel = oracle_single(inst, one.tolist(), H, W, s, edges, c["sigma"], filtered=False)
        if bad:
            fails.append((f"make_multi_pafs, animal {a}: {bad}", sel))
    diff = (out.double() - total).abs()
    tol = 2 * ATOL + RTOL * total.abs()
    if bool((diff > tol).any()):
        idx = int((diff - tol).flatten().argmax())
        fails.append((f"make_multi_pafs: fields of several animals do not add (flat index {idx}): "
                      f"{float(out.flatten()[idx])} vs sum of the single-animal fields {float(total.flatten()[idx])}",
                      None))
    return fails


def degenerate(src, dst):
    return not (visible(src) and visible(dst)) or src == dst


def oracle_pafs(c, out, mods):
    """make_pafs (one animal, before NaN -> 0): an edge's channels are NaN exactly when the edge has a
    missing endpoint or zero length; with those set to 0 the per-animal clauses hold."""
    torch, _ = mods
    H, W, s, edges, inst = c["H"], c["W"], c["s"], c["edges"], c["insts"][0]
    h, w, E = -(-H // s), -(-W // s), len(edges)
    if tuple(out.shape) != (E, 2, h, w):
        return [(f"make_pafs: shape {tuple(out.shape)} != {(E, 2, h, w)}", None)]
    for e, (a, b) in enumerate(edges):
        if not degenerate(inst[a], inst[b]) and not bool(torch.isfinite(out[e]).all()):
            return [(f"make_pafs: edge {e} has visible, distinct endpoints but its field contains NaN/inf", None)]
    bad, sel = oracle_single(inst, torch.nan_to_num(out, nan=0.0).tolist(), H, W, s, edges, c["sigma"],
                             filtered=False)
    return [(f"make_pafs: {bad}", sel)] if bad else []


def point_dist2(src, x, y):
    return (x - src[0]) ** 2 + (y - src[1]) ** 2


def oracle_edge_maps(c, out, mods):
    """make_edge_maps (h, w, E): for an edge with both endpoints visible - coincident or not - the map is
    finite, in [0,1], 1 on the segment (the point, for a zero-length edge) and non-increasing in the exact
    distance to it."""
    H, W, s, edges, inst = c["H"], c["W"], c["s"], c["edges"], c["insts"][0]
    h, w, E = -(-H // s), -(-W // s), len(edges)
    if tuple(out.shape) != (h, w, E):
        return [(f"make_edge_maps: shape {tuple(out.shape)} != {(h, w, E)}", None)]
    o = out.tolist()
    for e, (a, b) in enumerate(edges):
        src, dst = inst[a], inst[b]
        if not (visible(src) and visible(dst)):
            continue
        l2 = (dst[0] - src[0]) ** 2 + (dst[1] - src[1]) ** 2
        sel = SEL_F1 if 0 < l2 < 1 else None
        cells = []
        for i in range(h):
            for j in range(w):
                v = o[i][j][e]
                if not (isinstance(v, float) and math.isfinite(v)) or v < -ATOL or v > 1 + ATOL + RTOL:
                    return [(f"make_edge_maps: edge {e} (visible endpoints) cell {(i, j)}: value {v} is not a "
                             f"weight in [0,1]", None)]
                d2 = point_dist2(src, F(j * s), F(i * s)) if l2 == 0 else seg_dist2(src, dst, F(j * s), F(i * s))
                cells.append((d2, v, (i, j)))
        bad = monotone_in_distance(cells, f"make_edge_maps: edge {e}")
        if bad:
            return [(bad, sel)]
    return []


def oracle_dist(c, out, mods):
    """distance_to_edge at arbitrary points: for visible endpoints (coincident or not) the result is the
    squared distance to the closed segment (never NaN)."""
    edges, inst = c["edges"], c["insts"][0]
    o = out.tolist()
    for e, (a, b) in enumerate(edges):
        src, dst = inst[a], inst[b]
        if not (visible(src) and visible(dst)):
            continue
        l2 = (dst[0] - src[0]) ** 2 + (dst[1] - src[1]) ** 2
        for i, row in enumerate(c["pts"]):
            for j, p in enumerate(row):
                want = float(point_dist2(src, p[0], p[1]) if l2 == 0 else seg_dist2(src, dst, p[0], p[1]))
                v = o[i][j][e]
                if not (isinstance(v, float) and math.isfinite(v)) or abs(v - want) > 1e-4 + 1e-4 * abs(want):
                    return [(f"distance_to_edge: edge {e} point {(str(p[0]), str(p[1]))}: {v} is not the squared "
                             f"distance {want} to the closed segment", SEL_F1 if 0 < l2 < 1 else None)]
    return []


def oracle(c, out, mods):
    if c["kind"] == "big":
        return oracle_big(c, out, mods)
    if c["kind"] == "multi":
        return oracle_multi(c, out, mods)
    if c["kind"] == "pafs":
        return oracle_pafs(c, out, mods)
    if c["kind"] == "edgemaps":
        return oracle_edge_maps(c, out, mods)
    if c["kind"] == "dist":
        return oracle_dist(c, out, mods)
    dts = (c.get("dtype", "float32"), c.get("edge_dtype", "float32"))
    if c["kind"] == "chk":                # outside the domain (the code raises) the property says nothing
        if out is None or c["s"] < 1 or c.get("no_sample") or not in_range(c):
            return []
        return oracle_field(mods, out, c["insts"], c["n_nodes"], c["H"], c["W"], c["s"], c["sigma"],
                            c["edges"], False, False, dts)
    if c["kind"] == "gen":
        return oracle_field(mods, out, c["insts"], c["n_nodes"], c["H"], c["W"], c["s"], c["sigma"],
                            c["edges"], c["flat"], False, dts)
    if c["kind"] == "pipe":
        fails = oracle_field(mods, out[0], c["insts"], c["n_nodes"], c["H"], c["W"], c["s"], c["sigma"],
                             c["edges"], c["flat"], True, dts)
        if "ex2" in c:
            fails += oracle_field(mods, out[1], c["ex2"]["insts"], c["n_nodes"], c["ex2"]["H"], c["ex2"]["W"],
                                  c["s"], c["sigma"], c["edges"], c["flat"], True, dts)
        return fails
    return []


# ---------------------------------------------------------------- large images (round 5)
# The streams above stay below 32 px with dyadic coordinates: every float32 operation of
# distance_to_edge is then exact or nearly so, and the flat tolerance ATOL/RTOL is all that is
# needed.  That tolerance is only valid in that SMALL regime (|coordinates| <~ 64, dyadic).  The
# stream below is the large-magnitude regime: images of 700..1300 px, strides 2..8, edges
# hundreds of px long, endpoints that are arbitrary float32 numbers (non-dyadic sub-pixel).
#
# Tolerance, derived from float32 rounding (unit roundoff U = 2^-24) of the code's OWN formula
# (difference form: r = p - src, d = dst - src, t = clamp((r.d)/|d|^2), D2 = |t d - r|^2), with
# R = |p - src|, L = |d|:
#   r, d: one rounding each, relative U per component;
#   r.d: 2 products + 1 sum on perturbed operands: |error| <= 4 U R L;  |d|^2: relative 4 U;
#   t: error <= 4 U R/L + 5 U |t| <= 9 U R/L (|t| <= R/L before the clamp; the clamp does not increase it)
#     -> the closest point t d moves ALONG the edge by <= 9 U R;
#   t d_c (d_c perturbed, product rounded): <= 2 U L per component; r_c: <= U R per component;
#   the last subtraction, the squares and their sum: relative 3 U of D2 = 1.5 U D <= 1.5 U R in distance.
# Sum: the computed squared distance is (D')^2 with |D' - D| <= EPS_K U max(R, L), EPS_K = 16
# (9 + sqrt2 + 2 sqrt2 + 1.5 < 15).  A formula that cancels (expanded quadratic form) is off by
# ~ U R^2 in D2, i.e. 0.1..0.5 px^2 here: three orders of magnitude beyond this bound.
# exp and the unit vector add a few U relative: inside RTOL.  The exact value comes from the Coq
# model (correspondence, on a sample of cells: EdgeMaps.sample_cell) and, independently, from the
# closed form in float64 on the float32 endpoints (oracle, every cell of the output).
U32 = 2.0 ** -24
EPS_K = 16.0


def f32(x):
    """The float32 number nearest to x, as an exact Fraction (the tensor holds exactly this)."""
    return F(struct.unpack("f", struct.pack("f", float(x)))[0])


def eps_pos(R, L):
    return EPS_K * U32 * max(R, L, 1.0)


def gen_big_edge(rng, H, W, s):
    """Two endpoints inside the image, 250+ px apart.  60 %: the line passes through many grid points
    (lattice direction (p,q)*s, endpoints pushed beyond two grid points by non-dyadic fractions, then
    rounded to float32: the grid points are on the segment to within ~1e-4 px); else arbitrary."""
    for _ in range(200):
        if rng.random() < 0.6:
            p, q = rng.randint(-5, 5), rng.randint(-5, 5)
            if (p, q) == (0, 0) or math.gcd(abs(p), abs(q)) != 1:
                continue
            step = math.hypot(p * s, q * s)
            k = int(rng.uniform(250, 1100) / step)
            gx, gy = s * rng.randrange(0, -(-W // s)), s * rng.randrange(0, -(-H // s))
            hx, hy = gx + k * p * s, gy + k * q * s
            al, be = rng.uniform(0.001, 0.03), rng.uniform(0.001, 0.03)
            a = (gx - al * (hx - gx), gy - al * (hy - gy))
            b = (hx + be * (hx - gx), hy + be * (hy - gy))
        else:
            a = (rng.uniform(0, W - 1), rng.uniform(0, H - 1))
            b = (rng.uniform(0, W - 1), rng.uniform(0, H - 1))
        if (all(0 <= v[0] <= W - 1 and 0 <= v[1] <= H - 1 for v in (a, b))
                and math.hypot(a[0] - b[0], a[1] - b[1]) >= 250):
            return (f32(a[0]), f32(a[1])), (f32(b[0]), f32(b[1]))
    return (f32(1.3), f32(2.7)), (f32(W - 2.1), f32(H - 3.3))


def gen_big_case(rng):
    s = rng.choice([2, 4, 4, 8])
    H, W = rng.randint(700, 1100), rng.randint(800, 1300)
    if s == 2:
        H, W = min(H, 900), min(W, 1000)
    if rng.random() < 0.5:
        H, W = s * (H // s), s * (W // s)
    n_nodes = rng.choice([2, 2, 3])
    edges = [(0, 1)] if n_nodes == 2 else rng.choice([[(0, 1), (1, 2)], [(0, 1), (0, 2)], [(1, 0), (2, 1)]])
    if n_nodes == 2 and rng.random() < 0.25:
        edges = [(1, 0)]
    insts = []
    for _ in range(rng.choice([1, 1, 2])):
        a, b = gen_big_edge(rng, H, W, s)
        inst = [a, b]
        if n_nodes == 3:
            k = rng.random()
            if k < 0.15:
                inst.append((None, None))
            elif k < 0.3:                                # a short edge far from the origin
                inst.append((f32(float(b[0]) + rng.uniform(-6, 6)), f32(float(b[1]) + rng.uniform(-6, 6))))
            else:
                inst.append(gen_big_edge(rng, H, W, s)[0])
        insts.append(inst)
    c = {"kind": "big", "H": H, "W": W, "s": s, "sigma": rng.choice(SIGMAS + [F(3, 4)]), "edges": edges,
         "insts": insts, "n_nodes": n_nodes, "flat": rng.random() < 0.7, "via_pipe": rng.random() < 0.25}
    if rng.random() < 0.15:
        c["dtype"] = "float64"
    c["cells"] = big_sample_cells(rng, c)
    return c


def big_sample_cells(rng, c):
    """(e, c, i, j): grid cells on / next to each segment, a few px away, beyond both ends, and far away."""
    H, W, s = c["H"], c["W"], c["s"]
    h, w = -(-H // s), -(-W // s)
    out = []
    for e, (a, b) in enumerate(c["edges"]):
        ij = set()
        for inst in c["insts"]:
            src, dst = inst[a], inst[b]
            if not (visible(src) and visible(dst)):
                continue
            sx, sy, dx, dy = float(src[0]), float(src[1]), float(dst[0] - src[0]), float(dst[1] - src[1])
            for t in [0.0, 1.0] + [rng.random() for _ in range(7)] + [-4.0 / 300, 1 + 4.0 / 300]:
                j0, i0 = round((sx + t * dx) / s), round((sy + t * dy) / s)
                ij.add((i0, j0))
                for _ in range(2):
                    ij.add((i0 + rng.randint(-3, 3), j0 + rng.randint(-3, 3)))
        cells = sorted((i, j) for i, j in ij if 0 <= i < h and 0 <= j < w)
        cells += [(rng.randrange(h), rng.randrange(w)) for _ in range(3)]
        rng.shuffle(cells)
        for i, j in cells[:26]:
            out += [(e, 0, i, j), (e, 1, i, j)]
    return out


def big_term(c, fixed_len, fixed_box, fixed_box_pipe):
    fb = fixed_box_pipe if c.get("via_pipe") else fixed_box
    cells = core.clist(c["cells"], lambda q: f"({q[0]}, {q[1]}, {q[2]}, {q[3]})%nat")
    return (f"CGenAt {core.cbool(fixed_len)} {core.cbool(fb)} {core.clist([c['insts']], cinsts)} {c['H']}%nat "
            f"{c['W']}%nat {core.cq(c['sigma'])} {c['s']}%nat {cedges(c['edges'])} {cells}")


def run_big(c, mods):
    torch, em = mods
    dts = (c.get("dtype", "float32"), "float32")
    if c.get("via_pipe"):
        return impl_pipe(em, torch, [(c["H"], c["W"], [c["insts"]], 1)], c["n_nodes"], c["sigma"], c["s"],
                         c["edges"], c["flat"], *dts)[0]
    return impl_generate(em, torch, [c["insts"]], c["n_nodes"], c["H"], c["W"], c["sigma"], c["s"], c["edges"],
                         c["flat"], *dts)


def weight_interval(D, eps, sigma):
    """Bounds of exp(-(D'^2)^2 / (2 sigma^2)) for |D' - D| <= eps (the code's weight of a squared distance)."""
    two = 2.0 * sigma * sigma
    lo = math.exp(-min(745.0, (D + eps) ** 4 / two))
    hi = math.exp(-min(745.0, max(0.0, D - eps) ** 4 / two))
    return lo * (1 - RTOL), hi * (1 + RTOL)


def compare_big(c, model, out):
    """Sampled cells of the output against the exact model, within the rounding bound of the code's formula."""
    if model is None:
        return "the model says the case is outside the domain of generate_pafs"
    H, W, s, sg = c["H"], c["W"], c["s"], float(c["sigma"])
    h, w, E = -(-H // s), -(-W // s), len(c["edges"])
    want = (2 * E, h, w) if c["flat"] else (E, 2, h, w)
    if tuple(out.shape) != want:
        return f"shape {tuple(out.shape)} != {want}"
    o4 = out.reshape(E, 2, h, w)
    nodes = [(float(p[0]), float(p[1])) for inst in c["insts"] for p in inst if visible(p)]
    for (e, comp, i, j), m in zip(c["cells"], model):
        if m is None:
            return f"model: cell {(e, comp, i, j)} outside the shape"
        v = float(o4[e, comp, i, j])
        R = max(math.hypot(j * s - x, i * s - y) for x, y in nodes) if nodes else 1.0
        lo = hi = 0.0
        for t in m:
            a, n, l2 = q2f(t[0]), q2f(t[1]), q2f(t[2])
            D = math.sqrt(math.sqrt(max(0.0, -a * 2 * sg * sg)))      # a = -(D^2)^2 / (2 sigma^2)
            wl, wh = weight_interval(D, eps_pos(R, math.sqrt(l2)), sg)
            u = n / math.sqrt(l2)
            lo += min(wl * u, wh * u)
            hi += max(wl * u, wh * u)
        if math.isnan(v) or not (lo - ATOL <= v <= hi + ATOL):
            return (f"cell (edge {e}, component {comp}, row {i}, col {j}) = image point ({j * s},{i * s}): impl {v} "
                    f"outside [{lo}, {hi}] (exact model within the float32 rounding bound of the difference form)")
    return None


def oracle_big_single(inst, one, c):
    """The per-animal clauses on EVERY cell of the (E,2,h,w) field of one animal in a large image
    (numpy, exact distances in float64 from the float32 endpoints)."""
    import numpy as np
    H, W, s, sg = c["H"], c["W"], c["s"], float(c["sigma"])
    h, w = -(-H // s), -(-W // s)
    ys, xs = np.meshgrid(np.arange(h, dtype=np.float64) * s, np.arange(w, dtype=np.float64) * s, indexing="ij")
    for e, (a, b) in enumerate(c["edges"]):
        src, dst = inst[a], inst[b]
        f = one[e].double().numpy()
        if degenerate(src, dst):
            if np.any(f != 0):
                return f"edge {e} with a missing endpoint / zero length contributes a non-zero field"
            continue
        sx, sy = float(src[0]), float(src[1])
        vx, vy = float(dst[0]) - sx, float(dst[1]) - sy
        L = math.hypot(vx, vy)
        ux, uy = vx / L, vy / L
        rx, ry = xs - sx, ys - sy
        t = np.clip((rx * vx + ry * vy) / (L * L), 0.0, 1.0)
        D = np.hypot(t * vx - rx, t * vy - ry)                    # true distance to the closed segment
        wt = f[0] * ux + f[1] * uy
        across = f[0] * uy - f[1] * ux
        tolw = ATOL + RTOL * np.abs(wt)
        k = int(np.argmax(np.abs(across) - tolw))
        if abs(across.flat[k]) > tolw.flat[k]:
            return (f"edge {e} cell {divmod(k, w)}: field ({f[0].flat[k]},{f[1].flat[k]}) is not along the unit "
                    f"vector source->destination ({ux},{uy})")
        if wt.min() < -ATOL or wt.max() > 1 + ATOL + RTOL:
            k = int(np.argmax(np.maximum(-wt, wt - 1)))
            return f"edge {e} cell {divmod(k, w)}: weight {wt.flat[k]} outside [0,1]"
        eps = EPS_K * U32 * np.maximum(np.hypot(rx, ry), max(L, 1.0))
        # weight 1 on the segment (cells within 1e-3 px of it), within the justified tolerance
        on = D <= 1e-3
        floor_w = np.exp(-np.minimum(745.0, (D + eps) ** 4 / (2 * sg * sg))) * (1 - RTOL) - ATOL
        bad = on & (wt < floor_w)
        if bad.any():
            k = int(np.argmax(bad))
            return (f"edge {e} cell {divmod(k, w)} = image point ({xs.flat[k]},{ys.flat[k]}) lies on the segment "
                    f"(distance {D.flat[k]:.2e} px) but its weight is {wt.flat[k]}, not 1")
        # non-increasing: every cell against the smallest weight among cells at least 2*eps_max + 1e-6 px nearer
        order = np.argsort(D, axis=None, kind="stable")
        d_s, w_s = D.ravel()[order], wt.ravel()[order]
        run_min = np.minimum.accumulate(w_s)
        gap = 2 * float(eps.max()) + 1e-6
        n_closer = np.searchsorted(d_s, d_s - gap, side="left")
        ref = np.where(n_closer > 0, run_min[np.maximum(n_closer - 1, 0)], np.inf)
        exc = w_s - ref - 2 * (ATOL + RTOL * w_s)
        k = int(np.argmax(exc))
        if exc[k] > 0:
            k0 = int(np.argmin(w_s[:n_closer[k]]))
            return (f"edge {e}: weight {w_s[k]} at distance {d_s[k]:.4f} px (cell {divmod(int(order[k]), w)}) exceeds "
                    f"the weight {w_s[k0]} of the nearer cell {divmod(int(order[k0]), w)} at distance {d_s[k0]:.4f} px "
                    f"(not non-increasing with distance)")
    return None


def oracle_big(c, out, mods):
    torch, em = mods
    H, W, s, edges = c["H"], c["W"], c["s"], c["edges"]
    h, w, E = -(-H // s), -(-W // s), len(edges)
    want = (2 * E, h, w) if c["flat"] else (E, 2, h, w)
    if tuple(out.shape) != want:
        return [(f"shape {tuple(out.shape)} != {want}", None)]
    if not bool(torch.isfinite(out).all()):
        return [("output contains NaN or inf", None)]
    o4 = out.reshape(E, 2, h, w)
    fails, total = [], torch.zeros((E, 2, h, w), dtype=torch.float64)
    single = dict(c, flat=False)
    for a, inst in enumerate(c["insts"]):
        one = run_big(dict(single, insts=[inst]), mods)
        if tuple(one.shape) != (E, 2, h, w) or not bool(torch.isfinite(one).all()):
            fails.append((f"animal {a} alone: bad shape or non-finite values", None))
            continue
        total += one.double()
        bad = oracle_big_single(inst, one, c)
        if bad:
            fails.append((f"animal {a}: {bad}", None))
    diff = (o4.double() - total).abs()
    tol = 2 * ATOL + RTOL * total.abs()
    if bool((diff > tol).any()):
        idx = int((diff - tol).flatten().argmax())
        fails.append((f"fields of several animals do not add (flat index {idx}): {float(o4.flatten()[idx])} vs sum "
                      f"of the single-animal fields {float(total.flatten()[idx])}", None))
    return fails


# ---------------------------------------------------------------- (de)serialisation
def jp(p):
    return [None if v is None else str(v) for v in p]


def case_json(c):
    j = {k: c[k] for k in ("kind", "H", "W", "s", "n_nodes", "flat") if k in c}
    j["sigma"] = str(c["sigma"])
    j["edges"] = [list(e) for e in c["edges"]]
    j["insts"] = [[jp(p) for p in inst] for inst in c["insts"]]
    if c.get("extra_sample"):
        j["extra_sample"] = True
    if c.get("no_sample"):
        j["no_sample"] = True
    for k in ("dtype", "edge_dtype"):
        if k in c:
            j[k] = c[k]
    if "ex2" in c:
        j["ex2"] = {"H": c["ex2"]["H"], "W": c["ex2"]["W"],
                    "insts": [[jp(p) for p in inst] for inst in c["ex2"]["insts"]]}
    if "pts" in c:
        j["pts"] = [[jp(p) for p in r] for r in c["pts"]]
    if c["kind"] == "big":
        j["via_pipe"] = bool(c.get("via_pipe"))
        j["cells"] = [list(q) for q in c["cells"]]
    return j


def up(p):
    return tuple(None if v is None else F(v) for v in p)


def case_from_json(j):
    c = {k: j[k] for k in ("kind", "H", "W", "s", "n_nodes", "flat") if k in j}
    c.setdefault("flat", True)
    c["sigma"] = F(j["sigma"])
    c["edges"] = [tuple(e) for e in j["edges"]]
    c["insts"] = [[up(p) for p in inst] for inst in j["insts"]]
    c["extra_sample"] = bool(j.get("extra_sample"))
    if j.get("no_sample"):
        c["no_sample"] = True
    for k in ("dtype", "edge_dtype"):
        if k in j:
            c[k] = j[k]
    if "ex2" in j:
        c["ex2"] = {"H": j["ex2"]["H"], "W": j["ex2"]["W"],
                    "insts": [[up(p) for p in inst] for inst in j["ex2"]["insts"]]}
    if "pts" in j:
        c["pts"] = [[up(p) for p in r] for r in j["pts"]]
    if c["kind"] == "big":
        c["via_pipe"] = bool(j.get("via_pipe"))
        c["cells"] = [tuple(q) for q in j.get("cells", [])]
    return c


def load_mods():
    core.impl_env_setup()
    import torch
    from sleap_nn.data import edge_maps as em
    return torch, em


def detect_fixed_len(mods):
    """Which divisor does distance_to_edge use?  Decided by running the F1 witness: weight 1
    at the grid cell on the sub-pixel segment means the projection is divided by |d|^2."""
    c = case_from_json(json.load(open(WITNESS_F1))["case"])
    out = run_impl(c, mods)
    return bool(float(out[0, 2, 2]) >= 1 - 1e-5)


def detect_fixed_box(mods):
    """Which in-image filter does the code implement?  Decided by running the F23
    witness: a non-zero field means the animal on the border is kept (repaired)."""
    c = case_from_json(json.load(open(WITNESS_BOX))["case"])
    out = run_impl(c, mods)
    return bool((out != 0).any())


def detect_fixed_box_pipe(mods):
    """The DataPipe carries its own copy of the in-image filter: the F23 witness through the DataPipe."""
    torch, em = mods
    c = case_from_json(json.load(open(WITNESS_BOX))["case"])
    out = impl_pipe(em, torch, [(c["H"], c["W"], [c["insts"]], 1)], c["n_nodes"], c["sigma"], c["s"], c["edges"],
                    c["flat"])[0]
    return bool((out != 0).any())


def load_historic(mods):
    """The pre-repair edge_maps.py (pinned tree before fixes 5bfaeb9 / f00ee7f), rebuilt from the CURRENT
    file of the checked repo by reverse-applying the two repair diffs; (module, None) or (None, reason)."""
    torch, _ = mods
    d = core.scratch_dir("sv_c05hist_")
    try:
        dst = d / "sleap_nn" / "data"
        dst.mkdir(parents=True)
        shutil.copy(core.REPO / "sleap_nn" / "data" / "edge_maps.py", dst / "edge_maps.py")
        for diff in HIST_DIFFS:
            r = subprocess.run(["patch", "-R", "-p1", "-s", "-f", "--no-backup-if-mismatch", "-d", str(d), "-i", str(diff)],
                               stdout=subprocess.PIPE, stderr=subprocess.STDOUT, text=True, timeout=60)
            if r.returncode != 0:
                return None, f"{diff.name} does not reverse-apply to the current edge_maps.py: {r.stdout[-200:]}"
        spec = importlib.util.spec_from_file_location("sv_c05_historic_edge_maps", dst / "edge_maps.py")
        mod = importlib.util.module_from_spec(spec)
        spec.loader.exec_module(mod)
    except Exception as e:                            # a mutated tree may not even import
        return None, f"{type(e).__name__}: {e}"
    finally:
        shutil.rmtree(d, ignore_errors=True)
    hm = (torch, mod)
    flags = (detect_fixed_len(hm), detect_fixed_box(hm), detect_fixed_box_pipe(hm))
    if any(flags):
        return None, f"the reverse-patched source does not show the historic behaviour on the witnesses: {flags}"
    return mod, None


HIST_KINDS = ("gen", "pipe", "multi", "pafs", "edgemaps", "dist")


def historic_tie(run, mods, hist, cases, model_hist, sel_of):
    """fixed_len = fixed_box = false: the model against the pre-repair source; on the two witnesses the
    oracle must fail on that source exactly under the finding's selector, and the Coq selector is true."""
    hm = (mods[0], hist)
    bad = []
    for c, m in zip(cases, model_hist):
        try:
            out = run_impl(c, hm)
        except Exception as e:
            bad.append(f"historic source raised {type(e).__name__}: {e}; case {json.dumps(case_json(c))[:300]}")
            continue
        diff = compare(c, m, out)
        if diff:
            bad.append(f"{diff}; case {json.dumps(case_json(c))[:500]}")
    for wit, sel in ((WITNESS_F1, SEL_F1), (WITNESS_BOX, SEL_BOX)):
        c = case_from_json(json.load(open(wit))["case"])
        fails = oracle(c, run_impl(c, hm), hm)
        if not fails or any(s != sel for _, s in fails):
            bad.append(f"witness {wit.name} on the historic source: oracle failures {fails}, expected selector {sel}")
        cs = sel_of(c)
        hit = any(b for b, _ in cs) if sel == SEL_BOX else any(any(f) for _, f in cs)
        if not hit:
            bad.append(f"witness {wit.name}: the Coq selector of {sel} is false on it ({cs})")
    run.obligation("correspondence (historic variants): EdgeMaps.run with fixed_len = fixed_box = false == "
                   "edge_maps.py with proposed_fixes/C05_F1.diff, C05_F23.diff reverse-applied, on the corpus "
                   "witnesses and a sample of cases; the witnesses fail the oracle there exactly under the "
                   "Coq selectors", not bad, f"{len(bad)} disagreements on {len(cases)} cases")
    for b in bad[:5]:
        run.proof_broken.append("C05 historic variants: " + b)


# ---------------------------------------------------------------- the check
def check(run: core.Run) -> int:
    run.build_and_prove(PROP_FILES)
    mods = load_mods()
    thorough = run.tier == "thorough"
    n = 6000 if thorough else 500
    fixed_box = detect_fixed_box(mods)
    fixed_len = detect_fixed_len(mods)
    fixed_box_pipe = detect_fixed_box_pipe(mods)
    run.notes.append(f"variants detected on the implementation by running the corpus witnesses: "
                     f"fixed_len={fixed_len} (F1), fixed_box={fixed_box} (F23, generate_pafs), "
                     f"fixed_box_pipe={fixed_box_pipe} (F23, PartAffinityFieldsGenerator)")
    hist, why_not = load_historic(mods)
    if hist is None:
        run.notes.append(f"historic variants (fixed_len = fixed_box = false) not tied in this run: {why_not}")
    cases = []
    for f in sorted((core.CORPUS / "C05").glob("*.json")):
        cases.append(case_from_json(json.load(open(f))["case"]))
    n_corpus = len(cases)
    n_big = 40 if thorough else 10
    while len(cases) < n - n_big:
        cases.append(gen_case(run.rng, thorough))
    while len(cases) < n:                             # the large-magnitude regime (see "large images" above)
        cases.append(gen_big_case(run.rng))
    terms = [term(c, fixed_len, fixed_box, fixed_box_pipe) for c in cases]
    # the Coq selectors on the witnesses and a sample of cases; the historic variants on the same sample
    n_extra = 400 if thorough else 80
    sel_cases = [c for c in cases if c["kind"] != "big" and c["s"] >= 1 and in_range(c) and c["insts"]]
    sel_cases = sel_cases[:n_corpus + n_extra]
    hist_cases = [c for c in cases if c["kind"] in HIST_KINDS][:n_corpus + n_extra] if hist is not None else []
    terms += [sel_term(c) for c in sel_cases] + [term(c, False, False, False) for c in hist_cases]
    model_all = core.coq_eval_sharded(PREAMBLE, terms, "run", RENDER, shard=12, jobs=14)
    model = model_all[:len(cases)]
    model_sel = model_all[len(cases):len(cases) + len(sel_cases)]
    model_hist = model_all[len(cases) + len(sel_cases):]
    sel_bad = [(case_json(c), m, py_selectors(c)) for c, m in zip(sel_cases, model_sel) if m != py_selectors(c)]
    run.obligation("selectors: selector_F1 / selector_strict_box evaluated in Coq (EdgeMaps.run (CSel ...)) == the "
                   "Python selectors of the oracle, on the corpus witnesses and a sample of cases",
                   not sel_bad, f"{len(sel_bad)} disagreements on {len(sel_cases)} cases")
    for cj, m, py in sel_bad[:3]:
        run.proof_broken.append(f"C05 selectors: Coq {m} vs Python {py}; case {json.dumps(cj)[:500]}")
    if hist is not None:
        sel_by_id = {id(c): m for c, m in zip(sel_cases, model_sel)}
        historic_tie(run, mods, hist, hist_cases, model_hist, lambda c: sel_by_id.get(id(c)) or
                     core.coq_eval_sharded(PREAMBLE, [sel_term(c)], "run", RENDER)[0])
    disagree, dist, n_oracle = 0, {}, 0
    for c, m in zip(cases, model):
        for key in (c["kind"], f"stride{c['s']}", f"animals{len(c['insts'])}", f"edges{len(c['edges'])}"):
            dist[key] = dist.get(key, 0) + 1
        nvis = sum(visible(inst[a]) and visible(inst[b]) and inst[a] != inst[b]
                   for inst in c["insts"] for a, b in c["edges"]) if in_range(c) else 0
        if c["kind"] == "big":
            dist["big_cells_compared"] = dist.get("big_cells_compared", 0) + len(c["cells"])
        if c["kind"] == "chk":
            dist["chk_raises" if m is None else "chk_in_domain"] = dist.get("chk_raises" if m is None else "chk_in_domain", 0) + 1
        if any(classify(inst, c["H"], c["W"]) == "outside" and sum(visible(p) for p in inst) >= 2 and
               (min(p[0] for p in inst if visible(p)) < 0 and max(p[0] for p in inst if visible(p)) > c["W"] - 1 and
                all(0 <= p[1] <= c["H"] - 1 for p in inst if visible(p)) or
                min(p[1] for p in inst if visible(p)) < 0 and max(p[1] for p in inst if visible(p)) > c["H"] - 1 and
                all(0 <= p[0] <= c["W"] - 1 for p in inst if visible(p))) for inst in c["insts"]):
            dist["crossing_animal"] = dist.get("crossing_animal", 0) + 1
        run.case(case_json(c), nontrivial=(nvis >= 1 and c["H"] * c["W"] >= 4))
        try:
            out = run_impl(c, mods)
        except Exception as e:
            run.violation("failing-input", {"case": case_json(c), "impl_error": f"{type(e).__name__}: {e}"})
            continue
        diff = compare(c, m, out)
        if diff:
            disagree += 1
        fails = oracle(c, out, mods)
        n_oracle += c["kind"] != "edgepts" and not (c["kind"] == "chk" and out is None)
        for key in ("dtype", "edge_dtype"):
            if key in c:
                dist[f"{key}_{c[key]}"] = dist.get(f"{key}_{c[key]}", 0) + 1
        if c["sigma"] in SIGMAS_EXTREME:
            dist["sigma_extreme"] = dist.get("sigma_extreme", 0) + 1
        if c.get("extra_sample"):
            dist["extra_sample"] = dist.get("extra_sample", 0) + 1
        for bad, sel in fails:
            run.violation("failing-input", {"case": case_json(c), "oracle": bad, "correspondence": diff},
                          selector=sel)
            if sel:
                dist["under_" + sel] = dist.get("under_" + sel, 0) + 1
        if diff and not any(sel is None for _, sel in fails):
            run.proof_broken.append(f"correspondence C05 model vs implementation: {diff}; "
                                    f"case {json.dumps(case_json(c))[:700]}")
    run.obligation("correspondence: EdgeMaps.run (Coq, vm_compute) == edge_maps.py (/repo) on every case",
                   disagree == 0, f"{disagree} disagreements")
    run.coverage.update({
        "input_distribution": dist, "disagreements": disagree, "oracle_cases": n_oracle,
        "rule": "case = (entry point, instances with NaN pattern, edge list, H, W, stride, sigma, flatten); "
                "non-trivial = at least one edge of one animal with both endpoints visible and non-zero length, "
                "and H*W >= 4; distinct by full case content",
        "tolerance": {"atol": ATOL, "rtol": RTOL,
                      "domain": "flat atol/rtol: images <= 32 px, dyadic coordinates (float32 arithmetic of "
                                "distance_to_edge nearly exact); kind big (700..1300 px, float32 endpoints): "
                                "distance to the segment within 16 * 2^-24 * max(|p - src|, |dst - src|) of the exact one "
                                "(rounding of the difference form), weights bracketed accordingly"},
        "fixed_box_detected": fixed_box, "fixed_len_detected": fixed_len,
        "fixed_box_pipe_detected": fixed_box_pipe,
    })
    for c in cases[:3]:
        run.sample(case_json(c))
    run.trusted += ["torch float32 kernels (exp, norm, clamp, maximum, arange, advanced indexing, reshape) are modelled "
                    "by exact rationals (argument of exp; (dx, dy, len2) of the unit vector) and compared within "
                    "float32 tolerance",
                    "NaN coordinate = missing keypoint (None); float underflow/overflow is not modelled "
                    "(an edge shorter than ~1e-23 px makes torch.norm underflow to 0 and the field inf)"]
    run.assumptions += ["coordinates are finite or NaN, |coordinates| <~ 2000 px (tested: small dyadic <= 32 px and "
                        "float32 coordinates in images up to 1100 x 1300; the rounding bound grows linearly with the "
                        "magnitude), sigma > 0, H, W >= 1; stride >= 1, "
                        "n_samples >= 1 and edge node indices in range for every kept animal = in_domain "
                        "(outside it the code raises: kind chk); negative node indices (torch wraps them) outside"]
    return run.finish()


def replay(run: core.Run, path: str) -> int:
    mods = load_mods()
    from pathlib import Path
    path = Path(path)
    if not path.is_absolute():
        path = core.VERIF / path
    rep = json.load(open(path))
    c = case_from_json(rep["case"])
    out = run_impl(c, mods)
    fails = oracle(c, out, mods)
    print(json.dumps({"oracle": fails}))
    return 1 if fails else 0
