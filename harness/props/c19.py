"""C19 — training runs complete and leave full artifacts that never contain the API key.

Model     coq/theories/C19/EffectIR.v   (effect IR, concrete semantics, abstract interpreter, checkers)
Theorems  coq/theories/C19/Props.v      (checker soundness for ALL terms; snapshot refutations/partials)
Static tie   translator/c19_effects2coq.py regenerates coq/theories/Gen/C19_TrainerEffects.v from
             core.REPO on every run (fail-closed); coq/theories/Gen/C19_Obligations.v (written here,
             per run) imports the generated term, has the kernel recompute every checker on it and
             instantiates the soundness theorems (checker true) or the refutations + partial
             theorems (checker false).
Dynamic tie  real `ModelTrainer(cfg)` + `.train()` runs, one fresh subprocess each
             (harness/c19_worker.py), observed at every file-write boundary; the observed sequence
             (file, written-by-constructor?, key present?) / chunk removals / outcome must equal the
             model's trace (vm_compute on the GENERATED term) for the cell's flags.
Oracle    the property itself on the real run: completes; no file under the output tree contains
          the key at ANY boundary; initial/final config contents; ckpt iff requested (save_ckpt and the
          ModelCheckpoint options ask for a file: save_top_k != 0 or save_last); no chunk files when
          deletion is requested.

The check works in both states of the tree: checker true -> the instantiated theorem is compiled;
checker false -> the leaking / failing cells are computed from the generated term, replayed on the
real code and reported as KNOWN-FINDING (selector listed) or VIOLATION.
"""
from __future__ import annotations

import fcntl
import itertools
import json
import os
import shutil
import subprocess
import sys
import time
from concurrent.futures import ThreadPoolExecutor
from pathlib import Path

from .. import core
from ..c19_worker import key_patterns

sys.path.insert(0, str(core.VERIF / "translator"))
import c19_effects2coq as tr   # noqa: E402

PROP_FILES = [core.THEORIES / "C19" / "Props.v"]
GEN = core.THEORIES / "Gen"
GEN_TERM = GEN / "C19_TrainerEffects.v"
GEN_OBL = GEN / "C19_Obligations.v"
KEY = "c19f5ec2e7a1b2c3d4e5f60718293a4b5c6d7e8f"      # 40 characters: the shape wandb.login accepts
SEL_F14 = "F14_live_config_written_unmasked"
SEL_F15 = "F15_structured_config_with_wandb"
SEL_REUSE = "reuse_chunks_with_unset_part_names"
SEL_REUSE_BU = "reuse_np_chunks_bottomup_labels_none"


def reuse_finding_domain(spec) -> str | None:
    """the cells of the repaired findings F131 (373d053) / F132 (8b62cf0).  Since both are fixed in core.REPO these
    cells are ordinary cells of the grid and of the model correspondence (round 4); the function only NAMES the
    selector of an oracle failure that has the shape of one of the two defects (a `fixed:` line suppresses nothing,
    so a regression is reported as a VIOLATION)"""
    if not spec.get("use_existing"):
        return None
    if spec["model_type"] == "bottomup" and spec["framework"] == "torch_dataset_np_chunks":
        return SEL_REUSE_BU
    if spec["model_type"] != "centroid" and not (spec.get("opts") or {}).get("explicit_names"):
        return SEL_REUSE
    return None
MODEL_TYPES = ["single_instance", "centroid", "centered_instance", "bottomup"]
FRAMEWORKS = ["torch_dataset", "torch_dataset_np_chunks", "litdata"]
WANDB_MODES = ["offline", None, "online"]        # config-level; the environment always forces offline
FW_CELL = {"torch_dataset": "KMem", "torch_dataset_np_chunks": "KNp", "litdata": "KLit"}

RM_TARGETS = (("RmTrain", "rm_train_all_paths"), ("RmVal", "rm_val_all_paths"),
              ("RmLitTrain", "rm_lit_train_all_paths"), ("RmLitVal", "rm_lit_val_all_paths"))

CHECKERS = [
    ("key_never_written", "key_never_written generated"),
    ("key_written_only_under_F14", "key_written_only_under_F14 generated"),
    ("initial_config_contract", "initial_config_contract generated"),
    ("final_config_contract", "final_config_contract generated"),
    ("ckpt_contract", "ckpt_contract generated"),
    ("chunk_guard_contract", "chunk_guard_contract generated"),
    ("mk_guard_contract", "mk_guard_contract generated"),
    ("chunk_contract", "chunk_contract generated"),
    ("valid_cells_complete", "valid_cells_complete generated"),
    ("loader_steps_contract", "loader_steps_contract generated"),
    ("rm_train_all_paths", "rm_all_paths no_excuse RmTrain generated"),
    ("rm_val_all_paths", "rm_all_paths no_excuse RmVal generated"),
    ("rm_lit_train_all_paths", "rm_all_paths no_excuse RmLitTrain generated"),
    ("rm_lit_val_all_paths", "rm_all_paths no_excuse RmLitVal generated"),
    ("rm_train_all_paths_unless_F15", "rm_all_paths sel_F15 RmTrain generated"),
    ("rm_val_all_paths_unless_F15", "rm_all_paths sel_F15 RmVal generated"),
    ("rm_lit_train_all_paths_unless_F15", "rm_all_paths sel_F15 RmLitTrain generated"),
    ("rm_lit_val_all_paths_unless_F15", "rm_all_paths sel_F15 RmLitVal generated"),
    ("run_id_contract", "run_id_contract generated"),
    ("final_config_contract_faults", "final_config_contract_faults generated"),
    ("same_as_reference", "same_on_cells generated (reference true true)"),
    ("completes", "completes generated"),
    ("completes_unless_F15", "completes_unless_F15 generated"),
    ("flag_determined", "flag_determined generated"),
    ("has_leaking_cell", "is_some (first_leaking_cell generated)"),
    ("has_failing_cell", "is_some (first_failing_cell generated)"),
    ("has_rm_missing_cell", "is_some (first_rm_missing_cell generated)"),
]


# --------------------------------------------------------------------------
# cells

def cell_of(spec) -> dict:
    return {"wandb": bool(spec["use_wandb"]), "ckpt": bool(spec["save_ckpt"]), "fw": FW_CELL[spec["framework"]],
            "delete": bool(spec["delete_chunks"]), "structured": bool(spec["structured"]),
            "offline": spec.get("wandb_mode", "offline") == "offline", "existing": bool(spec.get("use_existing")),
            "memfb": bool(spec.get("mem_fallback")),
            "topk0": save_top_k_of(spec) == 0, "savelast": save_last_of(spec) is True,
            # derived
            "np": spec["framework"] == "torch_dataset_np_chunks"}


CELL_FIELDS = ("wandb", "ckpt", "fw", "delete", "structured", "offline", "existing", "memfb", "topk0", "savelast")
SAVE_TOP_K = [0, 1, 2, -1]
SAVE_LAST = [None, True, False]


def save_top_k_of(spec):
    """`trainer_config.model_ckpt.save_top_k` of the run (the worker's default is 1)"""
    return (spec.get("opts") or {}).get("save_top_k", 1)


def save_last_of(spec):
    """`trainer_config.model_ckpt.save_last` of the run (the worker's default is True)"""
    return (spec.get("opts") or {}).get("save_last", True)


def ckpt_requested(spec) -> bool:
    """mirror of EffectIR.ckpt_req = "checkpointing is on": save_ckpt AND the ModelCheckpoint options ask for at
    least one file (a top-k file unless save_top_k == 0; last.ckpt when save_last).  save_top_k = 0 with save_last
    None / False is the documented way of asking for zero checkpoints."""
    return bool(spec["save_ckpt"]) and (save_top_k_of(spec) != 0 or save_last_of(spec) is True)


def cell_term(c: dict, mode: int) -> str:
    b = core.cbool
    return ("({| c_wandb := %s; c_ckpt := %s; c_fw := %s; c_delete := %s; c_structured := %s; c_offline := %s; "
            "c_existing := %s; c_memfb := %s; c_topk0 := %s; c_savelast := %s |}, %d)"
            % (b(c["wandb"]), b(c["ckpt"]), c["fw"], b(c["delete"]), b(c["structured"]), b(c["offline"]),
               b(c["existing"]), b(c["memfb"]), b(c["topk0"]), b(c["savelast"]), mode))


def cell_key(c: dict, mode: int = 0):
    return tuple(c[k] for k in CELL_FIELDS) + (int(mode),)


def all_cells():
    return [dict(zip(CELL_FIELDS, v)) for v in itertools.product(
        (False, True), (False, True), ("KMem", "KNp", "KLit"), (False, True), (False, True), (False, True),
        (False, True), (False, True), (False, True), (False, True))]


def valid_cell(c: dict) -> bool:
    """mirror of EffectIR.valid_cell (rank 0; one framework; chunk re-use only with a chunk framework)"""
    return not (c["existing"] and c["fw"] == "KMem")


# fault points of the harness -> fault mode of `run_cell` (EffectIR.fault_of_mode); faults outside any
# `try` (dataset / after_initial) have no mode: there the process dies = a PREFIX of the fault-free trace
FAULT_MODE = {("fit_return", "runtime"): 1, ("fit_return", "ki"): 2, ("fit_start", "runtime"): 3,
              ("fit_start", "ki"): 4, ("ckpt_hook", "runtime"): 3}
PREFIX_FAULTS = ("dataset", "after_initial")


def fault_mode(spec) -> int:
    f = fault_of(spec)
    if not f or f["at"] in PREFIX_FAULTS:
        return 0
    return FAULT_MODE[(f["at"], f.get("kind", "runtime"))]


def sel_F14(c: dict, ctor: bool) -> bool:
    """mirror of EffectIR.sel_F14: a write by the constructor, or any write when tracking is off"""
    return bool(ctor) or not c["wandb"]


def sel_F15(c: dict) -> bool:
    """mirror of EffectIR.sel_F15"""
    return c["structured"] and c["wandb"]


def mk_spec(model_type, framework, use_wandb, save_ckpt, structured, delete_chunks=True, inject=False,
            wandb_mode="offline", use_existing=False, mem_fallback=False, fault=None, opts=None):
    s = {"model_type": model_type, "framework": framework, "use_wandb": bool(use_wandb),
         "save_ckpt": bool(save_ckpt), "structured": bool(structured), "delete_chunks": bool(delete_chunks),
         "inject_fit_fault": bool(inject), "wandb_mode": wandb_mode, "use_existing": bool(use_existing),
         "mem_fallback": bool(mem_fallback)}
    if fault:
        s["fault"] = dict(fault)
    if opts:
        s["opts"] = dict(opts)
    return s


def spec_from(d: dict) -> dict:
    return mk_spec(d["model_type"], d["framework"], d["use_wandb"], d["save_ckpt"], d["structured"],
                   d.get("delete_chunks", True), d.get("inject_fit_fault", False), d.get("wandb_mode", "offline"),
                   d.get("use_existing", False), d.get("mem_fallback", False), d.get("fault"), d.get("opts"))


FW_SHORT = {"torch_dataset": "mem", "torch_dataset_np_chunks": "np", "litdata": "lit"}


def spec_id(s) -> str:
    out = "%s-%s-w%d-k%d-s%d-d%d" % (s["model_type"], FW_SHORT[s["framework"]], s["use_wandb"], s["save_ckpt"],
                                     s["structured"], s["delete_chunks"])
    wm = s.get("wandb_mode", "offline")
    if wm != "offline":
        out += "-wm_" + str(wm).lower()
    if s.get("use_existing"):
        out += "-reuse"
    if s.get("mem_fallback"):
        out += "-memfb"
    f = fault_of(s)
    if f:
        out += "-fault_%s_%s" % (f["at"], f.get("kind", "runtime"))
    if s.get("opts"):
        import hashlib
        out += "-o" + hashlib.sha1(json.dumps(s["opts"], sort_keys=True).encode()).hexdigest()[:6]
    return out


def fault_of(s) -> dict | None:
    if s.get("fault"):
        return s["fault"]
    if s.get("inject_fit_fault"):
        return {"at": "fit_return", "kind": "runtime"}
    return None


def full_grid():
    """every valid combination of the 9 factors (opts are drawn separately)"""
    out = []
    for m in MODEL_TYPES:
        for f in FRAMEWORKS:
            for w, k, st, d in itertools.product((False, True), repeat=4):
                for wm in WANDB_MODES:
                    reuse_ok = f != "torch_dataset"        # every chunk framework, every model type (F132 is fixed)
                    for x in ((False, True) if reuse_ok else (False,)):
                        for mf in ((False, True) if f == "torch_dataset" else (False,)):
                            out.append(mk_spec(m, f, w, k, st, d, wandb_mode=wm, use_existing=x, mem_fallback=mf))
    return out


def factors(s):
    return (("m", s["model_type"]), ("f", s["framework"]), ("w", s["use_wandb"]), ("k", s["save_ckpt"]),
            ("s", s["structured"]), ("d", s["delete_chunks"]), ("wm", s.get("wandb_mode", "offline")),
            ("x", s.get("use_existing", False)), ("mf", s.get("mem_fallback", False)))


def covering_subset(rng, grid, n_target):
    """greedy pairwise cover of the 9 factors, seeded; then random fill up to n_target."""
    pairs = lambda s: set(itertools.combinations(factors(s), 2))
    need = set().union(*(pairs(s) for s in grid))
    pool = grid[:]
    rng.shuffle(pool)
    chosen = []
    while need and len(chosen) < n_target:
        best = max(pool, key=lambda s: len(pairs(s) & need))
        chosen.append(best)
        pool.remove(best)
        need -= pairs(best)
    while len(chosen) < n_target and pool:
        chosen.append(pool.pop())
    return chosen, len(need)


def draw_opts(rng, spec) -> dict:
    """nuisance options of a valid configuration that must not change the observable behaviour
    (about half of the runs keep the defaults of round 1).  `save_top_k` / `save_last` are NOT nuisance options
    (round 4): they are factors of the grid, assigned by `assign_ckpt_options`."""
    o = {}
    if rng.random() < (0.5 if spec.get("use_existing") else 0.25):
        o["explicit_names"] = True       # head part_names / edges spelled out instead of None (= from the labels)
    if rng.random() < 0.4:
        return o
    if rng.random() < 0.4:
        o["early_stopping"] = True
    if rng.random() < 0.4:
        o["steps_per_epoch"] = rng.choice([None, 2])
    if rng.random() < 0.3:
        o["max_epochs"] = 2
    if rng.random() < 0.4:
        o["chunk_size"] = rng.choice([1, 7])
    if rng.random() < 0.4:
        o["scale"] = rng.choice([1.0, None] if not spec["structured"] else [1.0, 0.25])
    if spec["model_type"] == "centered_instance" and rng.random() < 0.5:
        o["crop_auto"] = True
    if not spec["structured"] and rng.random() < 0.3:
        o["profiler"] = rng.choice(["simple", "passthrough"])
    if not spec["structured"] and rng.random() < 0.2:
        o["strategy"] = "auto"
    return o


def assign_ckpt_options(rng, specs):
    """save_top_k in {0, 1, 2, -1} x save_last in {None, True, False}: the 12 combinations are dealt out in a seeded
    order, first over the runs with save_ckpt on (where they decide whether a checkpoint is written), then over
    the others (where no checkpoint may appear whatever they say)"""
    combos = [(k, l) for k in SAVE_TOP_K for l in SAVE_LAST]
    rng.shuffle(combos)
    order = [s for s in specs if s["save_ckpt"]] + [s for s in specs if not s["save_ckpt"]]
    for i, s in enumerate(order):
        k, l = combos[i % len(combos)]
        s.setdefault("opts", {}).update({"save_top_k": k, "save_last": l})


def n_samples(spec) -> int:
    """number of training (= validation) samples of the run's labels file: one frame; two instances for the
    centered-instance pipeline (one sample per instance), one sample otherwise"""
    return 2 if spec["model_type"] == "centered_instance" else 1


def train_bs_of(spec):
    return (spec.get("opts") or {}).get("train_bs", 1)


def val_bs_of(spec):
    return (spec.get("opts") or {}).get("val_bs", 1)


def monitors_val_loss(spec) -> bool:
    """something in the run reads the logged `val_loss`: the top-k ModelCheckpoint, early stopping, or the
    reduce-lr-on-plateau scheduler"""
    o = spec.get("opts") or {}
    return bool((spec["save_ckpt"] and save_top_k_of(spec) != 0) or o.get("early_stopping") or o.get("reduce_lr"))


LOADER_FWS = ("torch_dataset", "torch_dataset_np_chunks")     # both go through `_create_data_loaders_torch_dataset`


def assign_loader_sizes(rng, specs):
    """round 5: the loader-size parameters of a valid configuration.  Train / val batch size below or equal to
    (`le`) and ABOVE (`gt`) the number of samples are dealt, in a seeded order, over the fault-free runs of the two
    CyclerDataLoader frameworks (the steps per epoch of both loaders are DERIVED from them:
    len(dataset) // batch_size, which is 0 in the `gt` class); a builder-made configuration has one batch size for
    both loaders.  Every run set has, for EACH of the two frameworks, a run with val batch size > #val samples in
    which something monitors val_loss, and a run with train batch size > #train samples whose steps_per_epoch is
    left to be derived (None).  litdata runs keep batch size 1 (StreamingDataLoader, no derived step count)."""
    combos = [("le", "le"), ("le", "gt"), ("gt", "le"), ("gt", "gt")]

    def size(cls, n):
        return rng.choice(list(range(1, n + 1))) if cls == "le" else rng.choice([n + 1, n + 2, 2 * n + 2])

    for fw in LOADER_FWS:
        runs = [s for s in specs if s["framework"] == fw and not fault_of(s)]
        rng.shuffle(runs)
        order = combos[:]
        rng.shuffle(order)
        # the two forced classes come first, so that a framework with few runs still has them
        order.sort(key=lambda c: c not in (("le", "gt"), ("gt", "le")))
        for i, s in enumerate(runs):
            tcls, vcls = order[i % 4]
            n = n_samples(s)
            o = s.setdefault("opts", {})
            if s["structured"]:
                tcls = vcls = (tcls, vcls)[(i // 4) % 2]     # one batch size: alternately the train / val class dealt
                o["train_bs"] = o["val_bs"] = size(tcls, n)
            else:
                o["train_bs"], o["val_bs"] = size(tcls, n), size(vcls, n)
            if vcls == "gt" and not monitors_val_loss(s):
                o[rng.choice(["early_stopping", "reduce_lr"])] = True
            elif rng.random() < 0.25:
                o["reduce_lr"] = True
            if tcls == "gt" and (i < 4 or rng.random() < 0.5):
                o["steps_per_epoch"] = None
        if runs:
            if not any(val_bs_of(s) > n_samples(s) and monitors_val_loss(s) for s in runs):
                s = runs[0]
                s["opts"]["val_bs"] = n_samples(s) + 1
                if s["structured"]:
                    s["opts"]["train_bs"] = s["opts"]["val_bs"]
                if not monitors_val_loss(s):
                    s["opts"]["reduce_lr"] = True
            if not any(train_bs_of(s) > n_samples(s) and "steps_per_epoch" in s["opts"]
                       and s["opts"]["steps_per_epoch"] is None for s in runs):
                s = runs[-1]
                s["opts"]["train_bs"] = n_samples(s) + 1
                if s["structured"]:
                    s["opts"]["val_bs"] = s["opts"]["train_bs"]
                    if not monitors_val_loss(s):
                        s["opts"]["reduce_lr"] = True
                s["opts"]["steps_per_epoch"] = None


# rejection sites of the trainer source: the data-dependent (opaque) conditions that may guard an explicit
# `raise` (review finding 3).  A rejection guarded by anything else is a new way of refusing a configuration and
# is reported; rejections guarded by named flags only are judged in Coq (`valid_cells_complete`).
REJECTION_GUARDS = (
    r"^self\.(train|val)_np_chunks_path\.(exists|is_dir)\(\)",      # chunks to re-use must exist ...
    r"^any\(self\.(train|val)_np_chunks_path\.glob\('\*\.npz'\)\)",   # ... and hold npz files
    r"^self\.model_type == '(single_instance|centered_instance|centroid|bottomup)'",   # model-type chains
    r"^cfg_profiler (is not None|in profilers)",                   # unknown profiler name
)


def unknown_rejection_sites(info) -> list:
    import re
    out = []
    for r in info.get("raise_sites") or []:
        bad = [src for src in r.get("opaque_src", []) if not any(re.match(p, src) for p in REJECTION_GUARDS)]
        if bad:
            out.append({"line": r["line"], "guarded_by": bad})
    return out


# --------------------------------------------------------------------------
# static part: translator + Coq

def gen_preamble(gen_text: str) -> str:
    return "From SV Require Import C19.EffectIR C19.Lemmas.\n" + gen_text + "\n"


def obligations_text(vals: dict) -> str:
    T = []
    add = T.append
    add("(* GENERATED on every run by harness/props/c19.py — do not edit.\n"
        "   Per-run proof obligations about the effect term generated from the repository's\n"
        "   current source (Gen/C19_TrainerEffects.v): the kernel recomputes every checker, and\n"
        "   the soundness theorems (checker true) or the refutations / partial theorems (checker\n"
        "   false) are instantiated on the generated term. *)")
    add("From Coq Require Import List Bool.\nImport ListNotations.")
    add("From SV Require Import C19.EffectIR C19.Lemmas Gen.C19_TrainerEffects.\n")
    names = []

    def thm(name, stmt, proof):
        add(f"Theorem {name} :\n  {stmt}.\nProof. {proof} Qed.\nPrint Assumptions {name}.\n")
        names.append(name)

    def val(name, expr):
        v = vals[name]
        thm(f"ob_{name}", f"{expr} = {core.cbool(v)}", "vm_compute. reflexivity.")
        return v

    ex = dict(CHECKERS)
    # --- the key
    if val("key_never_written", ex["key_never_written"]):
        thm("gen_key_never_persisted",
            "forall E pre, prefix pre (trace E generated) ->\n"
            "  Forall (fun w => w_key w = false) (writes_of true pre)",
            "exact (key_never_written_sound_lemma generated ob_key_never_written).")
    else:
        if val("has_leaking_cell", ex["has_leaking_cell"]):
            thm("gen_key_persisted_refuted", "exists E, leaks generated E",
                "exact (leak_exists generated ob_has_leaking_cell).")
        if val("key_written_only_under_F14", ex["key_written_only_under_F14"]):
            thm("gen_key_persisted_partial",
                "forall E pre, prefix pre (trace E generated) ->\n"
                "  Forall (fun w => w_key w = true -> sel_F14 (fl E) (w_file w) (w_ctor w) = true)\n"
                "         (writes_of true pre)",
                "exact (key_written_only_under_F14_sound_lemma generated ob_key_written_only_under_F14).")
    # --- artifact contract
    if val("initial_config_contract", ex["initial_config_contract"]):
        thm("gen_initial_config_before_any_mutation",
            "forall E pre a suf, trace E generated = pre ++ a :: suf -> is_write_to FInitial a = true ->\n"
            "  loaded_unmodified pre",
            "exact (initial_before_mutation_lemma generated ob_initial_config_contract).")
        thm("gen_initial_config_written",
            "forall E, fl E RankZero = true -> no_faults E -> result E generated = Ok ->\n"
            "  exists a, In a (trace E generated) /\\ is_write_to FInitial a = true",
            "exact (initial_written_lemma generated ob_initial_config_contract).")
    if val("final_config_contract", ex["final_config_contract"]):
        thm("gen_final_config_after_last_mutation",
            "forall E, fl E RankZero = true -> no_faults E -> result E generated = Ok ->\n"
            "  exists p1 a p2, trace E generated = p1 ++ a :: p2 /\\ is_write_to FTraining a = true /\\\n"
            "                  Forall (fun b => is_set b = false /\\ is_reload b = false) p2",
            "exact (final_after_mutation_lemma generated ob_final_config_contract).")
        if val("run_id_contract", ex["run_id_contract"]):
            thm("gen_final_config_records_run_id",
                "forall E, fl E RankZero = true -> fl E UseWandb = true -> no_faults E -> result E generated = Ok ->\n"
                "  exists p1 a p2 b p3, trace E generated = p1 ++ a :: p2 ++ b :: p3 /\\\n"
                "    is_set_path run_id_path a = true /\\ is_write_to FTraining b = true /\\\n"
                "    Forall (fun c => is_set c = false /\\ is_reload c = false) p3",
                "exact (final_config_records_run_id_lemma generated ob_final_config_contract ob_run_id_contract).")
    if val("final_config_contract_faults", ex["final_config_contract_faults"]):
        thm("gen_final_config_under_faults",
            "forall E, fl E RankZero = true -> result E generated <> ExnInvalid ->\n"
            "  exists p1 a p2, trace E generated = p1 ++ a :: p2 /\\ is_write_to FTraining a = true /\\\n"
            "                  Forall (fun b => is_set b = false /\\ is_reload b = false) p2",
            "exact (final_config_under_faults_lemma generated ob_final_config_contract_faults).")
    if val("ckpt_contract", ex["ckpt_contract"]):
        # the EXACT condition: ckpt_req = save_ckpt /\ (save_top_k <> 0 \/ save_last)
        thm("gen_no_ckpt_unless_requested",
            "forall E, ckpt_req (fl E) = false -> Forall (fun a => is_write_to FCkpt a = false) (trace E generated)",
            "exact (no_ckpt_unless_requested_lemma generated ob_ckpt_contract).")
        thm("gen_ckpt_written_when_ckpt_req",
            "forall E, ckpt_req (fl E) = true -> no_faults E -> result E generated = Ok ->\n"
            "  exists a, In a (trace E generated) /\\ is_write_to FCkpt a = true",
            "exact (ckpt_written_when_requested_lemma generated ob_ckpt_contract).")
    if val("chunk_guard_contract", ex["chunk_guard_contract"]):
        thm("gen_no_chunk_deletion_unless_requested",
            "forall E t, rm_req (fl E) t = false -> Forall (fun a => is_rm t a = false) (trace E generated)",
            "exact (no_rm_unless_requested_any_lemma generated ob_chunk_guard_contract).")
    if val("mk_guard_contract", ex["mk_guard_contract"]):
        thm("gen_no_chunk_creation_unless_in_use",
            "forall E t, chunks_in_use (fl E) t = false -> Forall (fun a => is_mk t a = false) (trace E generated)",
            "exact (no_mk_unless_in_use_lemma generated ob_mk_guard_contract).")
    all_rm = True
    for t, nm in RM_TARGETS:
        # the removal of t comes AFTER the last creation / use of chunks of kind t (not just "some removal occurs")
        if val(nm, ex[nm]):
            thm(f"gen_{nm}",
                f"forall E, valid_cell (fl E) = true -> rm_req (fl E) {t} = true ->\n"
                f"  result E generated <> ExnInvalid ->\n"
                f"  exists p1 a p2, trace E generated = p1 ++ a :: p2 /\\ is_rm {t} a = true /\\\n"
                f"                  Forall (fun b => is_mk {t} b = false) p2",
                f"exact (chunk_deletion_after_last_creation_lemma {t} generated ob_{nm}).")
        else:
            all_rm = False
            if val(nm + "_unless_F15", ex[nm + "_unless_F15"]):
                thm(f"gen_{nm}_partial",
                    f"forall E, valid_cell (fl E) = true -> rm_req (fl E) {t} = true -> sel_F15 (fl E) = false ->\n"
                    f"  result E generated <> ExnInvalid ->\n"
                    f"  exists p1 a p2, trace E generated = p1 ++ a :: p2 /\\ is_rm {t} a = true /\\\n"
                    f"                  Forall (fun b => is_mk {t} b = false) p2",
                    f"exact (chunk_deletion_after_last_creation_unless_F15_lemma {t} generated ob_{nm}_unless_F15).")
    if val("chunk_contract", ex["chunk_contract"]):
        thm("gen_no_chunks_at_exit_when_deletion_requested",
            "forall E, valid_cell (fl E) = true -> fl E DeleteChunks = true -> result E generated <> ExnInvalid ->\n"
            "  forall t s0, (chunks_in_use (fl E) t = false -> s0 = false) ->\n"
            "  chunks_present s0 t (trace E generated) = false",
            "exact (no_chunks_at_exit_lemma generated ob_chunk_contract).")
    if not all_rm and val("has_rm_missing_cell", ex["has_rm_missing_cell"]):
        thm("gen_chunks_left_behind_refuted", "exists E, chunks_left_behind generated E",
            "exact (rm_missing_cell_exists generated ob_has_rm_missing_cell).")
    # --- completion
    loaders = val("loader_steps_contract", ex["loader_steps_contract"])
    if val("completes", ex["completes"]):
        if loaders:
            # round 5: the completion theorem with its presumption discharged — no loader built on the way is empty,
            # for every dataset size, batch size and configured steps (None or >= 1)
            thm("gen_run_completes",
                "forall E, valid_cell (fl E) = true -> (forall i, fault E i = NoFault) ->\n"
                "  (result E generated = Ok \\/ result E generated = ExnInvalid) /\\\n"
                "  (forall k s, In (ALoader k s) (trace E generated) ->\n"
                "   forall cfg n b, cfg_steps_valid cfg -> 1 <= n -> 1 <= b -> 1 <= loader_len (steps_val s cfg n b) n b)",
                "exact (run_completes_with_loaders_lemma generated ob_completes ob_loader_steps_contract).")
            thm("gen_loaders_built_before_fit",
                "forall c, valid_cell (cell_flags c) = true -> result (cenv generated c None) generated = Ok ->\n"
                "  exists st sv, In (ALoader LTrain st) (before_fit (trace (cenv generated c None) generated)) /\\\n"
                "                In (ALoader LVal sv) (before_fit (trace (cenv generated c None) generated))",
                "exact (loaders_built_lemma generated ob_loader_steps_contract).")
        else:
            thm("gen_run_completes_modulo_loaders",
                "forall E, valid_cell (fl E) = true -> (forall i, fault E i = NoFault) ->\n"
                "  result E generated = Ok \\/ result E generated = ExnInvalid",
                "exact (run_completes_sound_lemma generated ob_completes).")
        # ... and not by rejecting: every valid cell of the grid ends Ok (under the data valuation tied to real runs)
        if val("valid_cells_complete", ex["valid_cells_complete"]):
            thm("gen_valid_cells_end_ok",
                "forall c, valid_cell (cell_flags c) = true -> result (cenv generated c None) generated = Ok",
                "intros c Hv. exact (proj1 (valid_cells_complete_lemma generated ob_valid_cells_complete c "
                "(all_cells_complete c) Hv)).")
    else:
        if val("has_failing_cell", ex["has_failing_cell"]):
            thm("gen_run_completes_refuted", "exists E, fails_to_complete generated E",
                "exact (failing_cell_exists generated ob_has_failing_cell).")
        if val("completes_unless_F15", ex["completes_unless_F15"]):
            thm("gen_run_completes_partial",
                "forall E, valid_cell (fl E) = true -> sel_F15 (fl E) = false -> (forall i, fault E i = NoFault) ->\n"
                "  result E generated = Ok \\/ result E generated = ExnInvalid",
                "exact (run_completes_unless_F15_sound_lemma generated ob_completes_unless_F15).")
    val("flag_determined", ex["flag_determined"])
    val("same_as_reference", ex["same_as_reference"])
    return "\n".join(T), names


def static_part(run: core.Run):
    """translator -> Gen/C19_TrainerEffects.v -> checker values -> Gen/C19_Obligations.v.
    Returns (preamble or None, checker values or None, translator info)."""
    try:
        text, info = tr.generate(core.REPO)
    except tr.Unsupported as e:
        run.obligation("effects2coq: the trainer source is inside the recognised fragment (fail-closed translator)",
                       False, f"model_trainer.py / lightning_modules.py line {e.lineno}: {e.why}")
        return None, None, {"unsupported": {"line": e.lineno, "why": e.why}}
    except (SyntaxError, OSError) as e:
        run.obligation("effects2coq: the trainer source parses", False, repr(e)[:300])
        return None, None, {"unsupported": {"why": repr(e)}}
    run.obligation("effects2coq: the trainer source is inside the recognised fragment (fail-closed translator)", True)
    unk = unknown_rejection_sites(info)
    run.obligation("every explicit `raise` of the trainer is guarded by a recognised data-dependent condition (chunks "
                   "to re-use exist, model-type chain, profiler name) or by named flags only: no new way of rejecting "
                   "a configuration", not unk, json.dumps(unk)[:600])
    try:
        st = tr.self_test(core.REPO)
        run.coverage["translator_self_test"] = st
        run.obligation("effects2coq self-test: every deliberately mutated copy of the source gives a changed or "
                       "rejected term", st["applied"] >= 3 and not st["missed"], json.dumps(st))
    except Exception as e:     # noqa
        run.obligation("effects2coq self-test ran", False, repr(e)[:300])
    pre = gen_preamble(text)
    try:
        vals_l = core.coq_eval_lines(pre, "render (rlist rbool) [" + "; ".join(e for _, e in CHECKERS) + "]")[0]
    except core.CoqEvalError as e:
        run.obligation("the generated term type-checks and the checkers evaluate", False, str(e)[-800:])
        return None, None, info
    vals = dict(zip([n for n, _ in CHECKERS], vals_l))
    run.obligation("the generated term type-checks and the checkers evaluate", True)

    obl, names = obligations_text(vals)
    GEN.mkdir(exist_ok=True)
    import tempfile
    with open(Path(tempfile.gettempdir()) / "sv_c19_gen.lock", "w") as lk:
        fcntl.flock(lk, fcntl.LOCK_EX)        # concurrent checks (other seeds / VERIF_REPO) share Gen/
        try:
            GEN_TERM.write_text(text)
            GEN_OBL.write_text(obl)
            rc, out = core.coqc(GEN_TERM, timeout=300)
            if rc != 0:
                run.obligation("compile Gen/C19_TrainerEffects.v", False, out[-800:])
                return pre, vals, info
            t0 = time.time()
            rc, out = core.coqc(GEN_OBL, timeout=600)
            run.coverage["obligations_file"] = {"file": str(GEN_OBL.relative_to(core.VERIF)), "rc": rc,
                                                "theorems": names, "wall_s": round(time.time() - t0, 2)}
        finally:
            fcntl.flock(lk, fcntl.LOCK_UN)
    if rc != 0:
        run.obligation("compile Gen/C19_Obligations.v (per-run obligations on the generated term)", False, out[-1200:])
        return pre, vals, info
    blocks = core.parse_print_assumptions(out)
    if len(blocks) != len(names):
        run.obligation("Gen/C19_Obligations.v: one Print Assumptions block per theorem", False,
                       f"{len(blocks)} blocks for {len(names)} theorems")
    else:
        for n, b in zip(names, blocks):
            foreign = [a for a in b if a not in core.STDLIB_AXIOMS and a.split(".")[-1] not in core.STDLIB_AXIOMS]
            run.obligation(f"per-run theorem {n}", not foreign, "; ".join(foreign))
            run.axioms.update(b)
    return pre, vals, info


# --------------------------------------------------------------------------
# dynamic part: real runs

def make_one_animal_labels(dst: Path):
    import sleap_io as sio
    labels = sio.load_slp((core.REPO / "tests/assets/minimal_instance.pkg.slp").as_posix())
    for lf in labels:
        lf.instances = lf.instances[:1]
    labels.save(dst.as_posix(), embed=True)


def run_worker(spec: dict, base: Path, labels1: Path, timeout=420) -> dict:
    rid = spec_id(spec)
    R = base / rid
    (R / "in").mkdir(parents=True, exist_ok=True)
    full = dict(spec)
    full.update({
        "labels": labels1.as_posix() if spec["model_type"] == "single_instance"
        else (core.REPO / "tests/assets/minimal_instance.pkg.slp").as_posix(),
        "root": (R / "tree").as_posix(), "out_dir": (R / "tree/out").as_posix(),
        "chunks_dir": (R / "tree/chunks").as_posix(), "in_dir": (R / "in").as_posix(),
        "result": (R / "in/result.json").as_posix(), "key": KEY})
    (R / "in/spec.json").write_text(json.dumps(full))
    env = dict(os.environ)
    env.update({"PYTHONPATH": f"{core.REPO}:{core.VERIF}", "PYTHONHASHSEED": "0", "CUDA_VISIBLE_DEVICES": "",
                "WANDB_MODE": "offline", "PYTHONDONTWRITEBYTECODE": "1", "OMP_NUM_THREADS": "1",
                "MKL_NUM_THREADS": "1", "VERIF_REPO": str(core.REPO)})
    t0 = time.time()
    rc, out = core.sh([sys.executable, "-m", "harness.c19_worker", (R / "in/spec.json").as_posix()],
                      timeout=timeout, cwd=R.as_posix(), env=env)
    res_p = R / "in/result.json"
    if res_p.exists():
        res = json.loads(res_p.read_text())
    else:
        res = {"harness_error": {"type": "worker-died", "msg": f"rc={rc}", "tb": out[-2000:]}, "events": []}
    res["wall_s"] = round(time.time() - t0, 1)
    res["spec"] = spec
    shutil.rmtree(R, ignore_errors=True)       # never leave wandb dirs / checkpoints around
    return res


def classify_path(rel: str | None) -> str:
    if rel is None:
        return "none"
    if rel == "out/initial_config.yaml":
        return "initial"
    if rel == "out/training_config.yaml":
        return "training"
    if rel == "chunks/config.yaml":
        return "chunkcfg"
    if rel.startswith("!outside:"):
        return "outside"
    if rel.endswith(".ckpt"):
        return "ckpt"
    return "other:" + rel


CHUNK_DIRS = {"chunks/train_chunks": "train_chunks", "chunks/val_chunks": "val_chunks",
              # after the memory fallback the trainer's chunk paths are ./train_chunks, ./val_chunks of the cwd
              "cwd/train_chunks": "train_chunks", "cwd/val_chunks": "val_chunks"}


def observed_trace(res: dict):
    """canonical observable trace of a real run: writes (class, by-constructor, key), removals, logins, and the
    moments at which a chunk directory that held no file starts to hold one (`mk`; what is there when the observed
    run starts — re-used chunks — is the initial state, not an event)."""
    tr_, ctor = [], True
    lit = res["spec"]["framework"] == "litdata"
    for ev in res["events"]:
        k = ev["kind"]
        if k == "mkchunks":
            if ev["file"] in CHUNK_DIRS:
                tr_.append(["mk", ("lit_" if lit else "") + CHUNK_DIRS[ev["file"]]])
        elif k == "init_done":
            ctor = False
        elif k == "omegaconf.save":
            tr_.append(["w", classify_path(ev["file"]), ctor, bool(ev.get("key_in_file"))])
        elif k == "ckpt":
            item = ["w", "ckpt", ctor, bool(ev.get("key_in_file") or ev.get("stored_api_key_is_key"))]
            if not (tr_ and tr_[-1] == item):      # Lightning writes best.ckpt + last.ckpt (+ per epoch): one event
                tr_.append(item)
        elif k == "torch.save":
            tr_.append(["w", classify_path(ev["file"]), ctor, bool(ev.get("key_in_file"))])
        elif k == "wandb.config":
            tr_.append(["w", "wandbrun", ctor, bool(ev.get("key_in_payload"))])
        elif k == "rmtree":
            if ev["file"] in CHUNK_DIRS:
                tr_.append(["rm", ("lit_" if lit else "") + CHUNK_DIRS[ev["file"]]])
        elif k == "wandb.login":
            tr_.append(["login"])
    return tr_


def expected_prefix(spec, m_t):
    """faults outside any `try`: the process dies there — the observable trace is the fault-free model
    trace cut at that point (after the first initial_config write / after train()'s first config save)"""
    at = fault_of(spec)["at"]
    for i, o in enumerate(m_t):
        if at == "after_initial" and o[0] == "w" and o[1] == "initial":
            return m_t[:i + 1]
        if at == "dataset" and o[0] == "w" and o[1] == "training" and o[2] is False:
            j = i + 1
            while j < len(m_t) and m_t[j][0] == "mk":      # the data-loader method returned: its chunks exist
                j += 1
            return m_t[:j]
    return m_t


def observed_outcome(res: dict) -> str:
    if res.get("outcome") == "ok":
        return "ok"
    return "exception"


def canon_model(m, existing=False):
    """canonical form shared with `observed_trace`: repeated checkpoint writes are one event; of the `mk t` events
    (chunk files of kind t are created / read) only those that turn an empty directory into a non-empty one are kept
    — `existing`: the chunks in use are there before the run starts (re-use)."""
    obs, outcome = m
    out = []
    present = {}
    for o in obs:
        if out and o[0] == "w" and o[1] == "ckpt" and out[-1] == o:
            continue
        if o[0] == "mk":
            if present.get(o[1], existing):
                continue
            present[o[1]] = True
        if o[0] == "rm":
            present[o[1]] = False
        out.append(o)
    return out, ("exception" if outcome in ("exception", "keyboard_interrupt") else outcome)


def diff_cfg(a, b, path=()):
    """paths at which two plain containers differ."""
    if isinstance(a, dict) and isinstance(b, dict):
        out = []
        for k in sorted(set(a) | set(b), key=str):
            if k not in a or k not in b:
                out.append(".".join(map(str, path + (k,))))
            else:
                out += diff_cfg(a[k], b[k], path + (k,))
        return out
    if isinstance(a, (list, tuple)) and isinstance(b, (list, tuple)):
        if len(a) != len(b):
            return [".".join(map(str, path))]
        out = []
        for i, (x, y) in enumerate(zip(a, b)):
            out += diff_cfg(x, y, path + (i,))
        return out
    if isinstance(a, float) or isinstance(b, float):
        try:
            return [] if abs(float(a) - float(b)) <= 1e-12 * max(1.0, abs(float(b))) else [".".join(map(str, path))]
        except (TypeError, ValueError):
            return [".".join(map(str, path))]
    return [] if a == b else [".".join(map(str, path))]


def leaves(d, path=()):
    if isinstance(d, dict):
        for k, v in d.items():
            yield from leaves(v, path + (k,))
    else:
        yield path, d


def get_path(d, path):
    for k in path:
        if not isinstance(d, dict) or k not in d:
            return KeyError
        d = d[k]
    return d


KEYP = "trainer_config.wandb.api_key"


def oracle(res: dict) -> list[dict]:
    """The property, clause by clause, on one real run.  Each failure: {clause, detail, selector}."""
    spec = res["spec"]
    c = cell_of(spec)
    fails = []
    flt = fault_of(spec)
    injected = bool(flt)
    swallowed_ki = injected and flt.get("kind") == "ki" and flt["at"] not in PREFIX_FAULTS
    died_outside_try = injected and flt["at"] in PREFIX_FAULTS
    raised = res.get("raised") or {}
    f15_crash = (sel_F15(c) and res.get("outcome") == "raised" and raised.get("type") == "ConfigAttributeError"
                 and "run_id" in raised.get("msg", "") and raised.get("phase") == "train")
    # finding F131 (fixed in 373d053; the shape of a regression): chunk re-use with part_names / edges left to "take
    # them from the labels": the constructor filled them in only when it created the chunks, so the lightning
    # module was built with part_names = None
    reuse_crash = (bool(spec.get("use_existing")) and spec["model_type"] != "centroid"
                   and not (spec.get("opts") or {}).get("explicit_names")
                   and res.get("outcome") == "raised" and raised.get("phase") == "train"
                   and raised.get("type") == "TypeError" and "NoneType" in raised.get("msg", ""))
    # finding F132 (fixed in 8b62cf0): BottomUpDataset read labels.skeletons although re-use runs pass labels=None
    reuse_bu_crash = (reuse_finding_domain(spec) == SEL_REUSE_BU and res.get("outcome") == "raised"
                      and raised.get("phase") == "train" and raised.get("type") == "AttributeError"
                      and "skeletons" in raised.get("msg", ""))
    known_crash = SEL_F15 if f15_crash else SEL_REUSE if reuse_crash else SEL_REUSE_BU if reuse_bu_crash else None
    # (o1) completes without error
    if res.get("outcome") != "ok":
        if injected and raised.get("type") in ("RuntimeError", "KeyboardInterrupt") \
                and "C19 injected fault" in raised.get("msg", "") and not swallowed_ki:
            pass
        else:
            fails.append({"clause": "completes_without_error",
                          "detail": f"{raised.get('phase')}: {raised.get('type')}: {raised.get('msg', '')[:200]}",
                          "selector": known_crash})
    # (o2) at no boundary does any file under the output tree contain the key
    last_write: dict[str, dict] = {}
    ctor = True
    seen = set()
    for i, ev in enumerate(res["events"]):
        if ev["kind"] == "init_done":
            ctor = False
        if ev.get("file") and ev["kind"] in ("omegaconf.save", "ckpt", "torch.save") \
                and not ev["file"].startswith("!outside:"):
            last_write[ev["file"]] = {"ctor": ctor, "key": bool(ev.get("key_in_file")), "i": i}
        for hit in ev.get("tree_hits", []):
            lw = last_write.get(hit)
            if lw is None and hit.endswith("last.ckpt"):       # symlink / copy of best.ckpt made by Lightning
                lw = next((v for k_, v in last_write.items() if k_.endswith(".ckpt")), None)
            explained = lw is not None and lw["key"]
            sel = SEL_F14 if (explained and sel_F14(c, lw["ctor"])) else None
            tag = (hit, lw["i"] if lw else None)
            if tag in seen:
                continue
            seen.add(tag)
            fails.append({"clause": "key_never_persisted", "selector": sel,
                          "detail": f"boundary #{i} ({ev['kind']} {ev.get('file')}): `{hit}` contains the key"
                                    + ("" if explained else " and no observed config write explains it"),
                          "file": classify_path(hit), "by_constructor": lw["ctor"] if lw else None})
    # (o3) initial / final configuration files
    art = res.get("artifacts") or {}
    ini, fin = art.get("initial_config.yaml"), art.get("training_config.yaml")
    if ini is None:
        fails.append({"clause": "initial_config_written", "detail": "initial_config.yaml missing", "selector": None})
    else:
        want = json.loads(json.dumps(res["supplied_verified"]))
        d = [p for p in diff_cfg(want, ini) if p != KEYP]
        if d:
            fails.append({"clause": "initial_config_equals_supplied", "selector": None,
                          "detail": "differs from the supplied (schema-completed) configuration at " + ", ".join(d[:8])})
        for pth, v in leaves(res["supplied"]):
            if ".".join(map(str, pth)) == KEYP:
                continue
            got = get_path(ini, pth)
            if got is KeyError or diff_cfg(v, got):
                fails.append({"clause": "initial_config_equals_supplied", "selector": None,
                              "detail": f"supplied value at {'.'.join(map(str, pth))} = {v!r} but file has {got!r}"})
                break
        k_ini = get_path(ini, ("trainer_config", "wandb", "api_key"))
        if k_ini not in ("", None) and k_ini != KEY:
            fails.append({"clause": "initial_config_key_blank", "selector": None,
                          "detail": f"api_key in initial_config.yaml is {k_ini!r}"})
    if res.get("outcome") == "ok" or (injected and not died_outside_try):
        # also when an exception struck inside train()'s try: the final save sits in `finally`
        if fin is None:
            fails.append({"clause": "final_config_written", "detail": "training_config.yaml missing", "selector": None})
        else:
            d = [p for p in diff_cfg(res.get("live_at_exit"), fin) if p != KEYP]
            if d:
                fails.append({"clause": "final_config_equals_config_used", "selector": None,
                              "detail": "training_config.yaml differs from the live configuration at exit at "
                                        + ", ".join(d[:8])})
            # the configuration actually used includes the tracking run it logged to
            ids = res.get("wandb_run_ids") or []
            if spec["use_wandb"] and ids:
                rid = get_path(fin, ("trainer_config", "wandb", "run_id"))
                if rid is KeyError or rid not in ids:
                    fails.append({"clause": "final_config_records_tracking_run", "selector": None,
                                  "detail": f"tracking on, run(s) {ids} were opened, but training_config.yaml has "
                                            f"run_id = {None if rid is KeyError else rid!r}"})
    # (o4) checkpoint iff checkpointing is on (a run that reached the end of fit).  "On" = save_ckpt AND the
    #      ModelCheckpoint options ask for a file (`ckpt_requested`): save_top_k = 0 with save_last None / False is
    #      the documented way of asking for zero checkpoints ("If save_top_k == 0, no models are saved")
    want_ckpt = ckpt_requested(spec)
    reached_fit_end = res.get("outcome") == "ok" or f15_crash or (injected and flt["at"] == "fit_return")
    if swallowed_ki and flt["at"] == "fit_start":
        reached_fit_end = False
    has = bool(res.get("ckpt_files"))
    if (has and not want_ckpt) or (want_ckpt and reached_fit_end and not has):
        fails.append({"clause": "ckpt_iff_requested", "selector": None,
                      "detail": f"save_ckpt={spec['save_ckpt']}, model_ckpt.save_top_k={save_top_k_of(spec)}, "
                                f"model_ckpt.save_last={save_last_of(spec)} but checkpoint files = "
                                f"{res.get('ckpt_files')}"})
    # (o4') the checkpoint files are the ones the options ask for, on a run that completed: a top-k file (best*.ckpt)
    #       unless save_top_k == 0 — it is written when the monitored val_loss was logged, i.e. validation RAN —
    #       and last.ckpt when save_last
    if want_ckpt and res.get("outcome") == "ok" and has:
        names = [Path(f).name for f in res.get("ckpt_files") or []]
        if save_top_k_of(spec) != 0 and not any(not n.startswith("last") for n in names):
            fails.append({"clause": "ckpt_iff_requested", "selector": None,
                          "detail": f"model_ckpt.save_top_k={save_top_k_of(spec)} but no top-k (best) checkpoint was "
                                    f"written (val batch size {val_bs_of(spec)}, {n_samples(spec)} val samples): {names}"})
        if save_last_of(spec) is True and not any(n.startswith("last") for n in names):
            fails.append({"clause": "ckpt_iff_requested", "selector": None,
                          "detail": f"model_ckpt.save_last=True but no last.ckpt: {names}"})
    # (o5) no chunk files when their deletion is requested
    #      — whatever framework produced them (np chunks, litdata chunks, np chunks of the memory fallback),
    #      created by this run or re-used; not demanded of a process that died outside train()'s try
    if c["delete"] and not died_outside_try and res.get("chunk_files"):
        fails.append({"clause": "chunks_deleted_when_requested",
                      "selector": known_crash,
                      "detail": f"left behind: {res.get('chunk_files')[:4]}"})
    # (o5') and never deleted when NOT requested: a chunk run with the flag off keeps its chunks
    if not c["delete"] and (c["fw"] != "KMem" or c["memfb"]) and res.get("outcome") == "ok" \
            and not res.get("chunk_files"):
        fails.append({"clause": "chunks_kept_unless_deletion_requested", "selector": None,
                      "detail": "delete_chunks_after_training is off but no chunk file is left"})
    return fails


# --------------------------------------------------------------------------

def choose_specs(run: core.Run, model_by_cell: dict | None):
    grid = full_grid()
    rng = run.rng
    quick = run.tier == "quick"
    specs, uncovered = covering_subset(rng, grid, 16 if quick else 40)
    run.coverage["pairwise_uncovered"] = uncovered
    for s in specs:
        o = draw_opts(rng, s)
        if o:
            s["opts"] = o
    # save_top_k x save_last: all 12 combinations over the runs of the cover, those with save_ckpt on first
    assign_ckpt_options(rng, specs)
    # every run set has a YAML-loaded configuration with `preprocessing.scale: null` (the constructor
    # normalises it to 1.0 AFTER the initial save) and one whose crop size is computed by the constructor
    for s in specs:
        if not s["structured"]:
            s.setdefault("opts", {})["scale"] = None
            break
    for s in specs:
        if s["model_type"] == "centered_instance" and not s.get("use_existing"):
            s.setdefault("opts", {})["crop_auto"] = True
            break
    have = set()

    def add(s, witness=False):
        if spec_id(s) not in have:
            specs.append(s)
            have.add(spec_id(s))
    first, specs = specs, []
    for s in first:
        add(s)
    pick = lambda xs: rng.choice(list(xs))
    coin = lambda: bool(rng.getrandbits(1))
    # corpus witnesses are replayed on every run
    for f in sorted((core.CORPUS / "C19").glob("*.json")):
        w = json.loads(f.read_text())
        add(spec_from(w["spec"]), witness=True)
    # (the pairwise cover above already contains: tracking on x wandb_mode None / online (the login path),
    #  chunk re-use x delete on / off, litdata x delete, memory fallback x delete on / off, np chunks x delete off)
    if uncovered or not quick:
        for wm in (None, "online"):
            add(mk_spec(pick(MODEL_TYPES), pick(FRAMEWORKS[:2]), True, coin(), coin(), wandb_mode=wm))
        add(mk_spec(pick(MODEL_TYPES), "torch_dataset_np_chunks", coin(), coin(), coin(), delete_chunks=True,
                    use_existing=True))
        add(mk_spec(pick(MODEL_TYPES), pick(FRAMEWORKS[1:]), False, False, coin(), delete_chunks=False,
                    use_existing=True))
        add(mk_spec(pick(MODEL_TYPES), "litdata", coin(), coin(), coin(), delete_chunks=True))
        add(mk_spec(pick(MODEL_TYPES), "torch_dataset", coin(), coin(), coin(), delete_chunks=True, mem_fallback=True))
        add(mk_spec(pick(MODEL_TYPES), "torch_dataset", False, False, coin(), delete_chunks=False, mem_fallback=True))
        add(mk_spec(pick(MODEL_TYPES), "torch_dataset_np_chunks", False, False, coin(), delete_chunks=False))
    # checkpointing on with save_top_k = 0: zero checkpoints asked for (save_last None / False) -> none may be
    # written; last.ckpt only (save_last True) -> it must be written.  Both are in EVERY run set.
    ck_runs = [s_ for s_ in specs if s_["save_ckpt"] and not fault_of(s_) and save_top_k_of(s_) == 0]
    if not any(save_last_of(s_) is not True for s_ in ck_runs):
        add(mk_spec(pick(MODEL_TYPES), "torch_dataset", False, True, coin(),
                    opts={"save_top_k": 0, "save_last": pick([None, False])}))
    if not any(save_last_of(s_) is True for s_ in ck_runs):
        add(mk_spec(pick(MODEL_TYPES), "torch_dataset", coin(), True, coin(), opts={"save_top_k": 0, "save_last": True}))
    # faults inside train()'s try (`finally` must still save the config and delete the chunks) ...
    F = lambda at, kind="runtime": {"at": at, "kind": kind}
    add(mk_spec(pick(MODEL_TYPES), "torch_dataset_np_chunks", False, True, False, fault=F("fit_return")))
    add(mk_spec(pick(MODEL_TYPES), "torch_dataset_np_chunks", True, coin(), coin(), fault=F("fit_return")))
    add(mk_spec(pick(MODEL_TYPES), pick(FRAMEWORKS[:2]), coin(), True, coin(), fault=F("ckpt_hook")))
    add(mk_spec(pick(MODEL_TYPES), "torch_dataset_np_chunks", True, coin(), coin(), fault=F("fit_start")))
    add(mk_spec(pick(MODEL_TYPES), pick(FRAMEWORKS[:2]), coin(), True, coin(), fault=F("fit_return", "ki")))
    # ... and outside it (the process dies: only the key clause and the trace prefix are judged)
    add(mk_spec(pick(MODEL_TYPES), "torch_dataset_np_chunks", True, coin(), coin(), fault=F("dataset")))
    add(mk_spec(pick(MODEL_TYPES), pick(FRAMEWORKS[:2]), coin(), coin(), coin(), wandb_mode=pick(WANDB_MODES),
                fault=F("after_initial")))
    if not quick:
        for m in MODEL_TYPES:
            add(mk_spec(m, pick(FRAMEWORKS[1:]), coin(), coin(), coin(), delete_chunks=False))
            add(mk_spec(m, "litdata", coin(), coin(), coin(), delete_chunks=True, use_existing=coin()))
            add(mk_spec(m, "torch_dataset", coin(), coin(), coin(), delete_chunks=coin(), mem_fallback=True))
        for at, kind in (("fit_return", "runtime"), ("fit_start", "runtime"), ("fit_start", "ki"),
                         ("fit_return", "ki"), ("ckpt_hook", "runtime"), ("dataset", "runtime"),
                         ("after_initial", "runtime")):
            for f in FRAMEWORKS:
                add(mk_spec(pick(MODEL_TYPES), f, coin(), True, coin(), wandb_mode=pick(WANDB_MODES),
                            fault=F(at, kind)))
    # loader-size parameters (batch sizes below / equal to / above the number of samples; derived steps per epoch)
    witness_ids = {spec_id(spec_from(json.loads(f.read_text())["spec"])) for f in sorted((core.CORPUS / "C19").glob("*.json"))}
    assign_loader_sizes(rng, [s_ for s_ in specs if spec_id(s_) not in witness_ids])
    # search: every leak signature / failing outcome the MODEL predicts must be replayed on a real run
    if model_by_cell:
        sigs = {}
        for key, (obs, outcome) in model_by_cell.items():
            c = dict(zip(CELL_FIELDS, key[:-1]))
            if key[-1] or not valid_cell(c):
                continue
            sig = (tuple((o[1], o[2]) for o in obs if o[0] == "w" and o[3]), outcome)
            sigs.setdefault(sig, []).append(key)
        n_added = 0
        for sig, keys in sorted(sigs.items(), key=lambda kv: repr(kv[0])):
            if not sig[0] and sig[1] == "ok":
                continue
            covered = any(cell_key(cell_of(s), fault_mode(s)) in keys and not fault_of(s) for s in specs)
            if not covered and n_added < 12:
                # prefer a cheap representative: in-memory / np chunks, no re-use, no fallback
                rank = lambda k: (k[2] == "KLit", k[6], k[7], k)
                c = dict(zip(CELL_FIELDS, sorted(keys, key=rank)[0][:-1]))
                fw = {v: k for k, v in FW_CELL.items()}[c["fw"]]
                add(mk_spec(pick(MODEL_TYPES), fw, c["wandb"], c["ckpt"],
                            c["structured"], c["delete"],
                            wandb_mode="offline" if c["offline"] else pick([None, "online"]),
                            use_existing=c["existing"], mem_fallback=c["memfb"],
                            opts={"save_top_k": 0 if c["topk0"] else pick(SAVE_TOP_K[1:]),
                                  "save_last": True if c["savelast"] else pick([None, False])}))
                n_added += 1
    return specs


def check(run: core.Run) -> int:
    run.build_and_prove(PROP_FILES)
    pre, vals, info = static_part(run)
    run.coverage["translator"] = {k: info.get(k) for k in ("paths", "undeclared", "assumptions", "notes", "sha",
                                                           "unsupported", "raise_sites", "mk_sites", "ckpt_guard", "loader_sites")
                                  if k in info}
    run.coverage["checkers_on_generated_term"] = vals

    # model traces for every cell (1536, no fault); fault modes are evaluated for the chosen runs below
    model_by_cell = None
    if pre is not None and vals is not None:
        cells = all_cells()
        try:
            outs = core.coq_eval_sharded(pre, [cell_term(c, 0) for c in cells], "run_cell generated", "rrun", shard=256)
            model_by_cell = {cell_key(c, 0): canon_model(o, c["existing"]) for c, o in zip(cells, outs)}
        except core.CoqEvalError as e:
            run.obligation("model traces of the generated term evaluate", False, str(e)[-600:])

    # ---- real runs
    specs = choose_specs(run, model_by_cell)
    run.coverage["loader_size_runs"] = {
        fw: {"val_batch_gt_samples_and_val_loss_monitored":
                 sum(1 for s_ in specs if s_["framework"] == fw and val_bs_of(s_) > n_samples(s_) and monitors_val_loss(s_)),
             "train_batch_gt_samples_steps_derived":
                 sum(1 for s_ in specs if s_["framework"] == fw and train_bs_of(s_) > n_samples(s_)
                     and (s_.get("opts") or {}).get("steps_per_epoch", 1) is None),
             "batch_le_samples": sum(1 for s_ in specs if s_["framework"] == fw and val_bs_of(s_) <= n_samples(s_)
                                     and train_bs_of(s_) <= n_samples(s_))}
        for fw in LOADER_FWS}
    if model_by_cell is not None:
        todo = {}
        for s_ in specs:
            k = cell_key(cell_of(s_), fault_mode(s_))
            if k not in model_by_cell:
                todo[k] = cell_term(cell_of(s_), fault_mode(s_))
        if todo:
            try:
                outs = core.coq_eval_sharded(pre, list(todo.values()), "run_cell generated", "rrun", shard=128)
                model_by_cell.update({k: canon_model(o, k[CELL_FIELDS.index("existing")]) for k, o in zip(todo, outs)})
            except core.CoqEvalError as e:
                run.obligation("model traces of the generated term evaluate (fault modes)", False, str(e)[-600:])
                model_by_cell = None
    base = core.scratch_dir("sv_c19_")
    results = []
    try:
        core.impl_env_setup()
        labels1 = base / "one_animal.pkg.slp"
        make_one_animal_labels(labels1)
        t0 = time.time()
        jobs = int(os.environ.get("VERIF_C19_JOBS", "8"))
        order = sorted(specs, key=lambda s_: (s_["framework"] != "litdata", not s_.get("use_existing")))
        with ThreadPoolExecutor(max_workers=jobs) as ex:        # the slow (litdata, two-step) runs start first
            by_id = dict(zip(map(spec_id, order), ex.map(lambda s_: run_worker(s_, base, labels1), order)))
        results = [by_id[spec_id(s_)] for s_ in specs]
        run.coverage["real_runs"] = len(results)
        run.coverage["real_runs_wall_s"] = round(time.time() - t0, 1)
    finally:
        shutil.rmtree(base, ignore_errors=True)

    disagreements = 0
    n_boundaries = 0
    harness_errors = 0
    encodings = {}
    home_hits = 0
    for res in results:
        spec = res["spec"]
        c = cell_of(spec)
        if "harness_error" in res:
            harness_errors += 1
            run.obligation(f"real run {spec_id(spec)} could be set up and observed", False,
                           json.dumps(res["harness_error"])[-700:])
            continue
        obs_t, obs_o = observed_trace(res), observed_outcome(res)
        n_boundaries += len(res["events"])
        encodings.update(res.get("encodings_hit") or {})
        home_hits += len(res.get("home_hits") or [])
        run.case({"spec": spec}, nontrivial=True)
        fails = oracle(res)
        # correspondence with the model
        mkey = cell_key(c, fault_mode(spec))
        # every run is inside the model (round 4: the re-use cells of the repaired findings F131 / F132 included)
        if model_by_cell is not None:
            m_t, m_o = model_by_cell[mkey]
            flt = fault_of(spec)
            if flt and flt["at"] in PREFIX_FAULTS:
                m_t, m_o = expected_prefix(spec, m_t), "exception"
            same = (m_t == obs_t and m_o == obs_o)
            if not same:
                disagreements += 1
                run.log(f"model/impl disagree on {spec_id(spec)}:\n   model {m_t} {m_o}\n   impl  {obs_t} {obs_o}")
                if not fails:
                    run.proof_broken.append(
                        f"correspondence on {spec_id(spec)}: model {json.dumps(m_t)} {m_o} / impl {json.dumps(obs_t)} {obs_o}")
        for f in fails:
            run.violation("failing-input", {
                "spec": spec, "oracle_clause": f["clause"], "detail": f["detail"],
                "observed_trace": obs_t, "observed_outcome": obs_o, "raised": res.get("raised"),
                "model_trace": (model_by_cell or {}).get(mkey),
                "replay_cmd": "./check C19 --replay <this file>"}, selector=f["selector"])
        run.sample({"spec": spec_id(spec), "observed": obs_t, "outcome": obs_o,
                    "oracle_failures": [(f["clause"], f["selector"]) for f in fails][:6], "wall_s": res.get("wall_s")},
                   limit=4)
    if model_by_cell is not None:
        run.obligation("correspondence: observed (file, by-constructor, key-present)/chunk creation/removal/login/outcome "
                       "sequence == model trace of the GENERATED term (cut at the fault point for faults outside try), on every "
                       "real run", disagreements == 0, f"{disagreements} of {len(results)} runs disagree")

    # ---- what the per-run obligations mean for the property
    if vals is not None:
        known_sel = {k.get("selector") for k in run.known}
        # (a) key
        if not vals["key_never_written"]:
            if vals["key_written_only_under_F14"] and vals["has_leaking_cell"]:
                run.notes.append("key_never_written generated = FALSE: refuted (gen_key_persisted_refuted); every "
                                 "leak falls under selector F14 (gen_key_persisted_partial); replayed on real runs")
                if SEL_F14 not in run.known_hits and SEL_F14 in known_sel and disagreements == 0:
                    run.proof_broken.append("the model predicts F14 leaks but no real run reproduced one")
            else:
                run.obligation("key_never_written generated = true, or every leak is excused by selector F14",
                               False, f"checker values: {vals}")
        # (d) completion / chunks
        if not vals["completes"]:
            if not (vals["completes_unless_F15"] and vals["has_failing_cell"]):
                run.obligation("completes generated = true, or every failing cell is excused by selector F15",
                               False, f"checker values: {vals}")
        if not all(vals[nm] for _, nm in RM_TARGETS):
            if not (all(vals[nm + "_unless_F15"] for _, nm in RM_TARGETS) and vals["has_rm_missing_cell"]):
                run.obligation("chunk deletion is reached on all paths, or every exception is excused by selector F15",
                               False, f"checker values: {vals}")
        for nm in ("initial_config_contract", "final_config_contract", "ckpt_contract", "chunk_guard_contract",
                   "mk_guard_contract", "flag_determined", "final_config_contract_faults"):
            run.obligation(f"{nm} generated = true", bool(vals[nm]))
        # the tracking-run id: F15 (undeclared run_id on a structured config) makes the mutation raise, which
        # the completion checker reports; the id contract itself is judged when completion holds
        run.obligation("loader_steps_contract generated = true: every data loader the trainer builds has an explicit length "
                       "that is >= 1 for EVERY dataset size / batch size (a `len(dataset) // batch_size` reaches the "
                       "loader only behind a `!= 0 else 1` / `max(1, .)` guard), and every valid cell builds a train and a "
                       "validation loader before fit; loaders: " + json.dumps(info.get("loader_sites"))[:500],
                       bool(vals["loader_steps_contract"]))
        if vals["completes"]:
            run.obligation("valid_cells_complete generated = true: every valid cell of the grid ends Ok, not by an "
                           "explicit rejection (`completes` alone accepts a rejection)", bool(vals["valid_cells_complete"]))
            run.obligation("chunk_contract generated = true (removal after the last creation, on all paths)",
                           bool(vals["chunk_contract"]))
            run.obligation("run_id_contract generated = true", bool(vals["run_id_contract"]))
            run.obligation("same_on_cells generated (reference true true) = true: the frozen snapshot of Part B "
                           "has the observable behaviour of the current tree on all 1536 cells x 5 fault modes",
                           bool(vals["same_as_reference"]))

    run.coverage.update({
        "grid": "model types x {torch_dataset, torch_dataset_np_chunks, litdata} x tracking x checkpointing x "
                "{plain YAML-loaded, structured builder-made} x delete flag x wandb_mode {offline, None, online} x "
                "chunk re-use (two-step) x memory fallback: pairwise-covering subset + nuisance options + train / val batch "
                "size {<=, >} number of samples (steps per epoch derived) x {step_lr, reduce_lr_on_plateau} + "
                "corpus witnesses + wandb-mode / re-use / litdata / fallback / delete-off cells + faults at "
                "fit_return, fit_start, ckpt_hook (RuntimeError / KeyboardInterrupt) and outside try (dataset, after_initial)",
        "write_boundaries_scanned": n_boundaries, "disagreements": disagreements,
        "key_encodings_scanned": [n for n, _ in key_patterns(KEY)],
        "key_encodings_hit": encodings, "credential_store_hits_outside_output_tree": home_hits,
        "rule": "case = one real training run (fresh subprocess); all are non-trivial; distinct by the run spec",
        "runs": [spec_id(r["spec"]) for r in results],
    })
    run.trusted += [
        "translator/c19_effects2coq.py (Python ast -> effect term; fail-closed; its output is cross-checked against "
        "real runs on every check)",
        "OmegaConf.save / Lightning TorchCheckpointIO / wandb Config.update / wandb.login / shutil.rmtree are the "
        "observation points; Lightning, wandb, OmegaConf, litdata internals are not modelled (their files are scanned "
        "for the key, raw and encoded)",
    ]
    run.assumptions += (info.get("assumptions") or [])
    run.assumptions.append("'a checkpoint when checkpointing is on' is read as: save_ckpt AND the ModelCheckpoint "
                           "options ask for a file (save_top_k != 0 or save_last); save_ckpt with save_top_k = 0 and "
                           "save_last None / False is the documented request for zero checkpoints, and none is written")
    run.assumptions.append("Lightning's ModelCheckpoint writes a top-k file iff save_top_k != 0 and last.ckpt iff "
                           "save_last (translator contract, cross-checked by the real runs over all 12 option values)")
    run.assumptions.append("a data loader of explicit length 0 handed to Trainer.fit makes the run fail (Lightning skips the "
                           "loop, val_loss is never logged); cross-checked on every run set by real runs with a train / val "
                           "batch size larger than the number of samples, in both CyclerDataLoader frameworks")
    run.assumptions.append("`shutil.rmtree(..., ignore_errors=True)`: a chunk removal that fails is silent in the code "
                           "and counts as done in the model (the oracle looks at the files left)")
    return run.finish()


def replay(run: core.Run, path: str) -> int:
    rep = json.load(open(path))
    spec = spec_from(rep["spec"])
    base = core.scratch_dir("sv_c19_")
    try:
        core.impl_env_setup()
        labels1 = base / "one_animal.pkg.slp"
        make_one_animal_labels(labels1)
        res = run_worker(spec, base, labels1)
    finally:
        shutil.rmtree(base, ignore_errors=True)
    if "harness_error" in res:
        print(json.dumps(res["harness_error"], indent=1))
        return 2
    fails = oracle(res)
    print(json.dumps({"spec": spec, "observed_trace": observed_trace(res), "outcome": observed_outcome(res),
                      "raised": res.get("raised"), "oracle_failures": fails}, indent=1))
    return 1 if fails else 0
