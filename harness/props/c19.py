"""C19 — training runs complete and leave full artifacts that never contain the API key.

Model     coq/theories/C19/EffectIR.v   (effect IR, concrete semantics, abstract interpreter, checkers)
Theorems  coq/theories/C19/Props.v      (checker soundness for ALL terms; snapshot refutations/partials)
Static tie   translator/c19_effects2coq.py regenerates coq/theories/Gen/C19_TrainerEffects.v from
             core.REPO on every run (fail-closed); coq/theories/Gen/C19_Obligations.v (written here,
             per run) imports the generated term, has the kernel recompute every checker on it and
             instantiates the soundness theorems (checker true) or the refutations + partial
             theorems (checker false).
Dynamic tie  real `ModelTrainer(cfg)` + `.train()` runs, one fresh subprocess each
             (harness/c19_worker.py), observed at every file-write boundary; the observed sequence
             (file, written-by-constructor?, key present?) / chunk removals / outcome must equal the
             model's trace (vm_compute on the GENERATED term) for the cell's flags.
Oracle    the property itself on the real run: completes; no file under the output tree contains
          the key at ANY boundary; initial/final config contents; ckpt iff requested; no chunk
          files when deletion is requested.

The check works in both states of the tree: checker true -> the instantiated theorem is compiled;
checker false -> the leaking / failing cells are computed from the generated term, replayed on the
real code and reported as KNOWN-FINDING (selector listed) or VIOLATION.
"""
from __future__ import annotations

import fcntl
import itertools
import json
import os
import shutil
import subprocess
import sys
import time
from concurrent.futures import ThreadPoolExecutor
from pathlib import Path

from .. import core

sys.path.insert(0, str(core.VERIF / "translator"))
import c19_effects2coq as tr   # noqa: E402

PROP_FILES = [core.THEORIES / "C19" / "Props.v"]
GEN = core.THEORIES / "Gen"
GEN_TERM = GEN / "C19_TrainerEffects.v"
GEN_OBL = GEN / "C19_Obligations.v"
KEY = "SECRETKEY123"
SEL_F14 = "F14_live_config_written_unmasked"
SEL_F15 = "F15_structured_config_with_wandb"
MODEL_TYPES = ["single_instance", "centroid", "centered_instance", "bottomup"]
FRAMEWORKS = ["torch_dataset", "torch_dataset_np_chunks"]

CHECKERS = [
    ("key_never_written", "key_never_written generated"),
    ("key_written_only_under_F14", "key_written_only_under_F14 generated"),
    ("initial_config_contract", "initial_config_contract generated"),
    ("final_config_contract", "final_config_contract generated"),
    ("ckpt_contract", "ckpt_contract generated"),
    ("chunk_guard_contract", "chunk_guard_contract generated"),
    ("rm_train_all_paths", "rm_all_paths no_excuse RmTrain generated"),
    ("rm_val_all_paths", "rm_all_paths no_excuse RmVal generated"),
    ("rm_train_all_paths_unless_F15", "rm_all_paths sel_F15 RmTrain generated"),
    ("rm_val_all_paths_unless_F15", "rm_all_paths sel_F15 RmVal generated"),
    ("completes", "completes generated"),
    ("completes_unless_F15", "completes_unless_F15 generated"),
    ("flag_determined", "flag_determined generated"),
    ("has_leaking_cell", "is_some (first_leaking_cell generated)"),
    ("has_failing_cell", "is_some (first_failing_cell generated)"),
    ("has_rm_missing_cell", "is_some (first_rm_missing_cell generated)"),
]


# --------------------------------------------------------------------------
# cells

def cell_of(spec) -> dict:
    return {"wandb": bool(spec["use_wandb"]), "ckpt": bool(spec["save_ckpt"]),
            "np": spec["framework"] == "torch_dataset_np_chunks", "delete": bool(spec["delete_chunks"]),
            "structured": bool(spec["structured"])}


def cell_term(c: dict, inject: bool) -> str:
    b = core.cbool
    return ("({| c_wandb := %s; c_ckpt := %s; c_np := %s; c_delete := %s; c_structured := %s |}, %s)"
            % (b(c["wandb"]), b(c["ckpt"]), b(c["np"]), b(c["delete"]), b(c["structured"]), b(inject)))


def cell_key(c: dict, inject: bool = False):
    return (c["wandb"], c["ckpt"], c["np"], c["delete"], c["structured"], bool(inject))


def sel_F14(c: dict, ctor: bool) -> bool:
    """mirror of EffectIR.sel_F14: a write by the constructor, or any write when tracking is off"""
    return bool(ctor) or not c["wandb"]


def sel_F15(c: dict) -> bool:
    """mirror of EffectIR.sel_F15"""
    return c["structured"] and c["wandb"]


def mk_spec(model_type, framework, use_wandb, save_ckpt, structured, delete_chunks=True, inject=False):
    return {"model_type": model_type, "framework": framework, "use_wandb": bool(use_wandb),
            "save_ckpt": bool(save_ckpt), "structured": bool(structured), "delete_chunks": bool(delete_chunks),
            "inject_fit_fault": bool(inject)}


def spec_from(d: dict) -> dict:
    return mk_spec(d["model_type"], d["framework"], d["use_wandb"], d["save_ckpt"], d["structured"],
                   d.get("delete_chunks", True), d.get("inject_fit_fault", False))


def spec_id(s) -> str:
    return "%s-%s-w%d-k%d-s%d-d%d%s" % (s["model_type"], "np" if s["framework"].endswith("np_chunks") else "mem",
                                        s["use_wandb"], s["save_ckpt"], s["structured"], s["delete_chunks"],
                                        "-fault" if s.get("inject_fit_fault") else "")


def full_grid():
    return [mk_spec(m, f, w, k, s) for m in MODEL_TYPES for f in FRAMEWORKS
            for w in (False, True) for k in (False, True) for s in (False, True)]


def covering_subset(rng, grid, n_target):
    """greedy pairwise cover of the 5 factors, seeded; then random fill up to n_target."""
    fac = lambda s: (("m", s["model_type"]), ("f", s["framework"]), ("w", s["use_wandb"]),
                     ("k", s["save_ckpt"]), ("s", s["structured"]))
    pairs = lambda s: set(itertools.combinations(fac(s), 2))
    need = set().union(*(pairs(s) for s in grid))
    pool = grid[:]
    rng.shuffle(pool)
    chosen = []
    while need and len(chosen) < n_target:
        best = max(pool, key=lambda s: len(pairs(s) & need))
        chosen.append(best)
        pool.remove(best)
        need -= pairs(best)
    while len(chosen) < n_target and pool:
        chosen.append(pool.pop())
    return chosen, len(need)


# --------------------------------------------------------------------------
# static part: translator + Coq

def gen_preamble(gen_text: str) -> str:
    return "From SV Require Import C19.EffectIR C19.Lemmas.\n" + gen_text + "\n"


def obligations_text(vals: dict) -> str:
    T = []
    add = T.append
    add("(* GENERATED on every run by harness/props/c19.py — do not edit.\n"
        "   Per-run proof obligations about the effect term generated from the repository's\n"
        "   current source (Gen/C19_TrainerEffects.v): the kernel recomputes every checker, and\n"
        "   the soundness theorems (checker true) or the refutations / partial theorems (checker\n"
        "   false) are instantiated on the generated term. *)")
    add("From Coq Require Import List Bool.\nImport ListNotations.")
    add("From SV Require Import C19.EffectIR C19.Lemmas Gen.C19_TrainerEffects.\n")
    names = []

    def thm(name, stmt, proof):
        add(f"Theorem {name} :\n  {stmt}.\nProof. {proof} Qed.\nPrint Assumptions {name}.\n")
        names.append(name)

    def val(name, expr):
        v = vals[name]
        thm(f"ob_{name}", f"{expr} = {core.cbool(v)}", "vm_compute. reflexivity.")
        return v

    ex = dict(CHECKERS)
    # --- the key
    if val("key_never_written", ex["key_never_written"]):
        thm("gen_key_never_persisted",
            "forall E pre, prefix pre (trace E generated) ->\n"
            "  Forall (fun w => w_key w = false) (writes_of true pre)",
            "exact (key_never_written_sound_lemma generated ob_key_never_written).")
    else:
        if val("has_leaking_cell", ex["has_leaking_cell"]):
            thm("gen_key_persisted_refuted", "exists E, leaks generated E",
                "exact (leak_exists generated ob_has_leaking_cell).")
        if val("key_written_only_under_F14", ex["key_written_only_under_F14"]):
            thm("gen_key_persisted_partial",
                "forall E pre, prefix pre (trace E generated) ->\n"
                "  Forall (fun w => w_key w = true -> sel_F14 (fl E) (w_file w) (w_ctor w) = true)\n"
                "         (writes_of true pre)",
                "exact (key_written_only_under_F14_sound_lemma generated ob_key_written_only_under_F14).")
    # --- artifact contract
    if val("initial_config_contract", ex["initial_config_contract"]):
        thm("gen_initial_config_before_any_mutation",
            "forall E pre a suf, trace E generated = pre ++ a :: suf -> is_write_to FInitial a = true ->\n"
            "  loaded_unmodified pre",
            "exact (initial_before_mutation_lemma generated ob_initial_config_contract).")
        thm("gen_initial_config_written",
            "forall E, fl E RankZero = true -> no_faults E -> result E generated = Ok ->\n"
            "  exists a, In a (trace E generated) /\\ is_write_to FInitial a = true",
            "exact (initial_written_lemma generated ob_initial_config_contract).")
    if val("final_config_contract", ex["final_config_contract"]):
        thm("gen_final_config_after_last_mutation",
            "forall E, fl E RankZero = true -> no_faults E -> result E generated = Ok ->\n"
            "  exists p1 a p2, trace E generated = p1 ++ a :: p2 /\\ is_write_to FTraining a = true /\\\n"
            "                  Forall (fun b => is_set b = false) p2",
            "exact (final_after_mutation_lemma generated ob_final_config_contract).")
    if val("ckpt_contract", ex["ckpt_contract"]):
        thm("gen_no_ckpt_unless_requested",
            "forall E, fl E SaveCkpt = false -> Forall (fun a => is_write_to FCkpt a = false) (trace E generated)",
            "exact (no_ckpt_unless_requested_lemma generated ob_ckpt_contract).")
        thm("gen_ckpt_written_when_requested",
            "forall E, fl E SaveCkpt = true -> no_faults E -> result E generated = Ok ->\n"
            "  exists a, In a (trace E generated) /\\ is_write_to FCkpt a = true",
            "exact (ckpt_written_when_requested_lemma generated ob_ckpt_contract).")
    if val("chunk_guard_contract", ex["chunk_guard_contract"]):
        thm("gen_no_chunk_deletion_unless_requested",
            "forall E, rm_requested (fl E) = false ->\n"
            "  Forall (fun a => is_rm RmTrain a = false /\\ is_rm RmVal a = false) (trace E generated)",
            "exact (no_rm_unless_requested_lemma generated ob_chunk_guard_contract).")
    all_rm = True
    for t, nm in (("RmTrain", "rm_train_all_paths"), ("RmVal", "rm_val_all_paths")):
        if val(nm, ex[nm]):
            thm(f"gen_{nm}",
                f"forall E, valid_cell (fl E) = true -> rm_requested (fl E) = true ->\n"
                f"  result E generated <> ExnInvalid -> exists a, In a (trace E generated) /\\ is_rm {t} a = true",
                f"exact (chunk_deletion_on_all_paths_lemma {t} generated ob_{nm}).")
        else:
            all_rm = False
            if val(nm + "_unless_F15", ex[nm + "_unless_F15"]):
                thm(f"gen_{nm}_partial",
                    f"forall E, valid_cell (fl E) = true -> rm_requested (fl E) = true -> sel_F15 (fl E) = false ->\n"
                    f"  result E generated <> ExnInvalid -> exists a, In a (trace E generated) /\\ is_rm {t} a = true",
                    f"exact (chunk_deletion_on_all_paths_unless_F15_lemma {t} generated ob_{nm}_unless_F15).")
    if not all_rm and val("has_rm_missing_cell", ex["has_rm_missing_cell"]):
        thm("gen_chunks_left_behind_refuted", "exists E, chunks_left_behind generated E",
            "exact (rm_missing_cell_exists generated ob_has_rm_missing_cell).")
    # --- completion
    if val("completes", ex["completes"]):
        thm("gen_run_completes",
            "forall E, valid_cell (fl E) = true -> (forall i, fault E i = NoFault) ->\n"
            "  result E generated = Ok \\/ result E generated = ExnInvalid",
            "exact (run_completes_sound_lemma generated ob_completes).")
    else:
        if val("has_failing_cell", ex["has_failing_cell"]):
            thm("gen_run_completes_refuted", "exists E, fails_to_complete generated E",
                "exact (failing_cell_exists generated ob_has_failing_cell).")
        if val("completes_unless_F15", ex["completes_unless_F15"]):
            thm("gen_run_completes_partial",
                "forall E, valid_cell (fl E) = true -> sel_F15 (fl E) = false -> (forall i, fault E i = NoFault) ->\n"
                "  result E generated = Ok \\/ result E generated = ExnInvalid",
                "exact (run_completes_unless_F15_sound_lemma generated ob_completes_unless_F15).")
    val("flag_determined", ex["flag_determined"])
    return "\n".join(T), names


def static_part(run: core.Run):
    """translator -> Gen/C19_TrainerEffects.v -> checker values -> Gen/C19_Obligations.v.
    Returns (preamble or None, checker values or None, translator info)."""
    try:
        text, info = tr.generate(core.REPO)
    except tr.Unsupported as e:
        run.obligation("effects2coq: the trainer source is inside the recognised fragment (fail-closed translator)",
                       False, f"model_trainer.py / lightning_modules.py line {e.lineno}: {e.why}")
        return None, None, {"unsupported": {"line": e.lineno, "why": e.why}}
    except (SyntaxError, OSError) as e:
        run.obligation("effects2coq: the trainer source parses", False, repr(e)[:300])
        return None, None, {"unsupported": {"why": repr(e)}}
    run.obligation("effects2coq: the trainer source is inside the recognised fragment (fail-closed translator)", True)
    try:
        st = tr.self_test(core.REPO)
        run.coverage["translator_self_test"] = st
        run.obligation("effects2coq self-test: every deliberately mutated copy of the source gives a changed or "
                       "rejected term", st["applied"] >= 3 and not st["missed"], json.dumps(st))
    except Exception as e:     # noqa
        run.obligation("effects2coq self-test ran", False, repr(e)[:300])
    pre = gen_preamble(text)
    try:
        vals_l = core.coq_eval_lines(pre, "render (rlist rbool) [" + "; ".join(e for _, e in CHECKERS) + "]")[0]
    except core.CoqEvalError as e:
        run.obligation("the generated term type-checks and the checkers evaluate", False, str(e)[-800:])
        return None, None, info
    vals = dict(zip([n for n, _ in CHECKERS], vals_l))
    run.obligation("the generated term type-checks and the checkers evaluate", True)

    obl, names = obligations_text(vals)
    GEN.mkdir(exist_ok=True)
    import tempfile
    with open(Path(tempfile.gettempdir()) / "sv_c19_gen.lock", "w") as lk:
        fcntl.flock(lk, fcntl.LOCK_EX)        # concurrent checks (other seeds / VERIF_REPO) share Gen/
        try:
            GEN_TERM.write_text(text)
            GEN_OBL.write_text(obl)
            rc, out = core.coqc(GEN_TERM, timeout=300)
            if rc != 0:
                run.obligation("compile Gen/C19_TrainerEffects.v", False, out[-800:])
                return pre, vals, info
            t0 = time.time()
            rc, out = core.coqc(GEN_OBL, timeout=600)
            run.coverage["obligations_file"] = {"file": str(GEN_OBL.relative_to(core.VERIF)), "rc": rc,
                                                "theorems": names, "wall_s": round(time.time() - t0, 2)}
        finally:
            fcntl.flock(lk, fcntl.LOCK_UN)
    if rc != 0:
        run.obligation("compile Gen/C19_Obligations.v (per-run obligations on the generated term)", False, out[-1200:])
        return pre, vals, info
    blocks = core.parse_print_assumptions(out)
    if len(blocks) != len(names):
        run.obligation("Gen/C19_Obligations.v: one Print Assumptions block per theorem", False,
                       f"{len(blocks)} blocks for {len(names)} theorems")
    else:
        for n, b in zip(names, blocks):
            foreign = [a for a in b if a not in core.STDLIB_AXIOMS and a.split(".")[-1] not in core.STDLIB_AXIOMS]
            run.obligation(f"per-run theorem {n}", not foreign, "; ".join(foreign))
            run.axioms.update(b)
    return pre, vals, info


# --------------------------------------------------------------------------
# dynamic part: real runs

def make_one_animal_labels(dst: Path):
    import sleap_io as sio
    labels = sio.load_slp((core.REPO / "tests/assets/minimal_instance.pkg.slp").as_posix())
    for lf in labels:
        lf.instances = lf.instances[:1]
    labels.save(dst.as_posix(), embed=True)


def run_worker(spec: dict, base: Path, labels1: Path, timeout=420) -> dict:
    rid = spec_id(spec)
    R = base / rid
    (R / "in").mkdir(parents=True, exist_ok=True)
    full = dict(spec)
    full.update({
        "labels": labels1.as_posix() if spec["model_type"] == "single_instance"
        else (core.REPO / "tests/assets/minimal_instance.pkg.slp").as_posix(),
        "root": (R / "tree").as_posix(), "out_dir": (R / "tree/out").as_posix(),
        "chunks_dir": (R / "tree/chunks").as_posix(), "in_dir": (R / "in").as_posix(),
        "result": (R / "in/result.json").as_posix(), "key": KEY})
    (R / "in/spec.json").write_text(json.dumps(full))
    env = dict(os.environ)
    env.update({"PYTHONPATH": f"{core.REPO}:{core.VERIF}", "PYTHONHASHSEED": "0", "CUDA_VISIBLE_DEVICES": "",
                "WANDB_MODE": "offline", "PYTHONDONTWRITEBYTECODE": "1", "OMP_NUM_THREADS": "1",
                "MKL_NUM_THREADS": "1", "VERIF_REPO": str(core.REPO)})
    t0 = time.time()
    rc, out = core.sh([sys.executable, "-m", "harness.c19_worker", (R / "in/spec.json").as_posix()],
                      timeout=timeout, cwd=R.as_posix(), env=env)
    res_p = R / "in/result.json"
    if res_p.exists():
        res = json.loads(res_p.read_text())
    else:
        res = {"harness_error": {"type": "worker-died", "msg": f"rc={rc}", "tb": out[-2000:]}, "events": []}
    res["wall_s"] = round(time.time() - t0, 1)
    res["spec"] = spec
    shutil.rmtree(R, ignore_errors=True)       # never leave wandb dirs / checkpoints around
    return res


def classify_path(rel: str | None) -> str:
    if rel is None:
        return "none"
    if rel == "out/initial_config.yaml":
        return "initial"
    if rel == "out/training_config.yaml":
        return "training"
    if rel == "chunks/config.yaml":
        return "chunkcfg"
    if rel.endswith(".ckpt"):
        return "ckpt"
    return "other:" + rel


def observed_trace(res: dict):
    """canonical observable trace of a real run: writes (class, by-constructor, key) and removals."""
    tr_, ctor = [], True
    for ev in res["events"]:
        k = ev["kind"]
        if k == "init_done":
            ctor = False
        elif k == "omegaconf.save":
            tr_.append(["w", classify_path(ev["file"]), ctor, bool(ev.get("key_in_file"))])
        elif k == "ckpt":
            item = ["w", "ckpt", ctor, bool(ev.get("key_in_file") or ev.get("stored_api_key_is_key"))]
            if not (tr_ and tr_[-1] == item):      # Lightning writes best.ckpt + last.ckpt (+ per epoch): one event
                tr_.append(item)
        elif k == "torch.save":
            tr_.append(["w", classify_path(ev["file"]), ctor, bool(ev.get("key_in_file"))])
        elif k == "wandb.config":
            tr_.append(["w", "wandbrun", ctor, bool(ev.get("key_in_payload"))])
        elif k == "rmtree":
            if ev["file"] in ("chunks/train_chunks", "chunks/val_chunks"):
                tr_.append(["rm", ev["file"].split("/")[-1]])
    return tr_


def observed_outcome(res: dict) -> str:
    if res.get("outcome") == "ok":
        return "ok"
    return "exception"


def canon_model(m):
    obs, outcome = m
    out = []
    for o in obs:
        if out and o[0] == "w" and o[1] == "ckpt" and out[-1] == o:
            continue
        out.append(o)
    return out, ("exception" if outcome in ("exception", "keyboard_interrupt") else outcome)


def diff_cfg(a, b, path=()):
    """paths at which two plain containers differ."""
    if isinstance(a, dict) and isinstance(b, dict):
        out = []
        for k in sorted(set(a) | set(b), key=str):
            if k not in a or k not in b:
                out.append(".".join(map(str, path + (k,))))
            else:
                out += diff_cfg(a[k], b[k], path + (k,))
        return out
    if isinstance(a, (list, tuple)) and isinstance(b, (list, tuple)):
        if len(a) != len(b):
            return [".".join(map(str, path))]
        out = []
        for i, (x, y) in enumerate(zip(a, b)):
            out += diff_cfg(x, y, path + (i,))
        return out
    if isinstance(a, float) or isinstance(b, float):
        try:
            return [] if abs(float(a) - float(b)) <= 1e-12 * max(1.0, abs(float(b))) else [".".join(map(str, path))]
        except (TypeError, ValueError):
            return [".".join(map(str, path))]
    return [] if a == b else [".".join(map(str, path))]


def leaves(d, path=()):
    if isinstance(d, dict):
        for k, v in d.items():
            yield from leaves(v, path + (k,))
    else:
        yield path, d


def get_path(d, path):
    for k in path:
        if not isinstance(d, dict) or k not in d:
            return KeyError
        d = d[k]
    return d


KEYP = "trainer_config.wandb.api_key"


def oracle(res: dict) -> list[dict]:
    """The property, clause by clause, on one real run.  Each failure: {clause, detail, selector}."""
    spec = res["spec"]
    c = cell_of(spec)
    fails = []
    injected = bool(spec.get("inject_fit_fault"))
    raised = res.get("raised") or {}
    f15_crash = (sel_F15(c) and res.get("outcome") == "raised" and raised.get("type") == "ConfigAttributeError"
                 and "run_id" in raised.get("msg", "") and raised.get("phase") == "train")
    # (o1) completes without error
    if res.get("outcome") != "ok":
        if injected and raised.get("type") == "RuntimeError" and "C19 injected fault" in raised.get("msg", ""):
            pass
        else:
            fails.append({"clause": "completes_without_error",
                          "detail": f"{raised.get('phase')}: {raised.get('type')}: {raised.get('msg', '')[:200]}",
                          "selector": SEL_F15 if f15_crash else None})
    # (o2) at no boundary does any file under the output tree contain the key
    last_write: dict[str, dict] = {}
    ctor = True
    seen = set()
    for i, ev in enumerate(res["events"]):
        if ev["kind"] == "init_done":
            ctor = False
        if ev.get("file") and ev["kind"] in ("omegaconf.save", "ckpt", "torch.save"):
            last_write[ev["file"]] = {"ctor": ctor, "key": bool(ev.get("key_in_file")), "i": i}
        for hit in ev.get("tree_hits", []):
            lw = last_write.get(hit)
            if lw is None and hit.endswith("last.ckpt"):       # symlink / copy of best.ckpt made by Lightning
                lw = next((v for k_, v in last_write.items() if k_.endswith(".ckpt")), None)
            explained = lw is not None and lw["key"]
            sel = SEL_F14 if (explained and sel_F14(c, lw["ctor"])) else None
            tag = (hit, lw["i"] if lw else None)
            if tag in seen:
                continue
            seen.add(tag)
            fails.append({"clause": "key_never_persisted", "selector": sel,
                          "detail": f"boundary #{i} ({ev['kind']} {ev.get('file')}): `{hit}` contains the key"
                                    + ("" if explained else " and no observed config write explains it"),
                          "file": classify_path(hit), "by_constructor": lw["ctor"] if lw else None})
    # (o3) initial / final configuration files
    art = res.get("artifacts") or {}
    ini, fin = art.get("initial_config.yaml"), art.get("training_config.yaml")
    if ini is None:
        fails.append({"clause": "initial_config_written", "detail": "initial_config.yaml missing", "selector": None})
    else:
        want = json.loads(json.dumps(res["supplied_verified"]))
        d = [p for p in diff_cfg(want, ini) if p != KEYP]
        if d:
            fails.append({"clause": "initial_config_equals_supplied", "selector": None,
                          "detail": "differs from the supplied (schema-completed) configuration at " + ", ".join(d[:8])})
        for pth, v in leaves(res["supplied"]):
            if ".".join(map(str, pth)) == KEYP:
                continue
            got = get_path(ini, pth)
            if got is KeyError or diff_cfg(v, got):
                fails.append({"clause": "initial_config_equals_supplied", "selector": None,
                              "detail": f"supplied value at {'.'.join(map(str, pth))} = {v!r} but file has {got!r}"})
                break
        k_ini = get_path(ini, ("trainer_config", "wandb", "api_key"))
        if k_ini not in ("", None) and k_ini != KEY:
            fails.append({"clause": "initial_config_key_blank", "selector": None,
                          "detail": f"api_key in initial_config.yaml is {k_ini!r}"})
    if res.get("outcome") == "ok":
        if fin is None:
            fails.append({"clause": "final_config_written", "detail": "training_config.yaml missing", "selector": None})
        else:
            d = [p for p in diff_cfg(res.get("live_at_exit"), fin) if p != KEYP]
            if d:
                fails.append({"clause": "final_config_equals_config_used", "selector": None,
                              "detail": "training_config.yaml differs from the live configuration at exit at "
                                        + ", ".join(d[:8])})
            # the configuration actually used includes the tracking run it logged to
            ids = res.get("wandb_run_ids") or []
            if spec["use_wandb"] and ids:
                rid = get_path(fin, ("trainer_config", "wandb", "run_id"))
                if rid is KeyError or rid not in ids:
                    fails.append({"clause": "final_config_records_tracking_run", "selector": None,
                                  "detail": f"tracking on, run(s) {ids} were opened, but training_config.yaml has "
                                            f"run_id = {None if rid is KeyError else rid!r}"})
    # (o4) checkpoint iff requested (a run that reached fit)
    if res.get("outcome") == "ok" or injected or f15_crash:
        has = bool(res.get("ckpt_files"))
        if has != bool(spec["save_ckpt"]):
            fails.append({"clause": "ckpt_iff_requested", "selector": None,
                          "detail": f"save_ckpt={spec['save_ckpt']} but checkpoint files = {res.get('ckpt_files')}"})
    # (o5) no chunk files when their deletion is requested
    if c["np"] and c["delete"] and (res.get("chunk_files") or res.get("chunk_dirs")):
        fails.append({"clause": "chunks_deleted_when_requested", "selector": SEL_F15 if f15_crash else None,
                      "detail": f"left behind: {(res.get('chunk_files') or res.get('chunk_dirs'))[:4]}"})
    return fails


# --------------------------------------------------------------------------

def choose_specs(run: core.Run, model_by_cell: dict | None):
    grid = full_grid()
    rng = run.rng
    if run.tier == "quick":
        specs, uncovered = covering_subset(rng, grid, 11)
    else:
        specs, uncovered = grid[:], 0
        rng.shuffle(specs)
    run.coverage["pairwise_uncovered"] = uncovered
    have = {spec_id(s) for s in specs}

    def add(s):
        if spec_id(s) not in have:
            specs.append(s)
            have.add(spec_id(s))
    # corpus witnesses are replayed on every run
    for f in sorted((core.CORPUS / "C19").glob("*.json")):
        w = json.loads(f.read_text())
        add(spec_from(w["spec"]))
    # guard of the chunk deletion: delete flag off
    add(mk_spec(rng.choice(MODEL_TYPES), "torch_dataset_np_chunks", False, False, bool(rng.getrandbits(1)),
                delete_chunks=False))
    # fault injected when Trainer.fit returns: `finally` must still save the config and delete the chunks
    add(mk_spec(rng.choice(MODEL_TYPES), "torch_dataset_np_chunks", False, True, False, inject=True))
    add(mk_spec(rng.choice(MODEL_TYPES), "torch_dataset_np_chunks", True, bool(rng.getrandbits(1)), False, inject=True))
    if run.tier != "quick":
        for m in MODEL_TYPES:
            add(mk_spec(m, "torch_dataset_np_chunks", bool(rng.getrandbits(1)), bool(rng.getrandbits(1)),
                        bool(rng.getrandbits(1)), delete_chunks=False))
        add(mk_spec(rng.choice(MODEL_TYPES), "torch_dataset", True, True, False, inject=True))
        add(mk_spec(rng.choice(MODEL_TYPES), "torch_dataset_np_chunks", True, True, True, inject=True))
    # search: every leak signature / failing outcome the MODEL predicts must be replayed on a real run
    if model_by_cell:
        sigs = {}
        for key, (obs, outcome) in model_by_cell.items():
            if key[5]:
                continue
            sig = (tuple((o[1], o[2]) for o in obs if o[0] == "w" and o[3]), outcome)
            sigs.setdefault(sig, []).append(key)
        for sig, keys in sigs.items():
            if not sig[0] and sig[1] == "ok":
                continue
            covered = any(cell_key(cell_of(s), s.get("inject_fit_fault")) in keys for s in specs)
            if not covered:
                w, k, n, d, st, _ = sorted(keys)[0]
                add(mk_spec(rng.choice(MODEL_TYPES), FRAMEWORKS[1 if n else 0], w, k, st, delete_chunks=d))
    return specs


def check(run: core.Run) -> int:
    run.build_and_prove(PROP_FILES)
    pre, vals, info = static_part(run)
    run.coverage["translator"] = {k: info.get(k) for k in ("paths", "undeclared", "assumptions", "notes", "sha",
                                                           "unsupported") if k in info}
    run.coverage["checkers_on_generated_term"] = vals

    # model traces for every cell (32 x {no fault, fault when fit returns})
    model_by_cell = None
    if pre is not None and vals is not None:
        cells = [dict(wandb=w, ckpt=k, np=n, delete=d, structured=s) for w in (False, True) for k in (False, True)
                 for n in (False, True) for d in (False, True) for s in (False, True)]
        terms, keys = [], []
        for c in cells:
            for inj in (False, True):
                terms.append(cell_term(c, inj))
                keys.append(cell_key(c, inj))
        try:
            outs = core.coq_eval_sharded(pre, terms, "run_cell generated", "rrun", shard=64)
            model_by_cell = {k: canon_model(o) for k, o in zip(keys, outs)}
        except core.CoqEvalError as e:
            run.obligation("model traces of the generated term evaluate", False, str(e)[-600:])

    # ---- real runs
    specs = choose_specs(run, model_by_cell)
    base = core.scratch_dir("sv_c19_")
    results = []
    try:
        core.impl_env_setup()
        labels1 = base / "one_animal.pkg.slp"
        make_one_animal_labels(labels1)
        t0 = time.time()
        jobs = int(os.environ.get("VERIF_C19_JOBS", "8"))
        with ThreadPoolExecutor(max_workers=jobs) as ex:
            results = list(ex.map(lambda s: run_worker(s, base, labels1), specs))
        run.coverage["real_runs"] = len(results)
        run.coverage["real_runs_wall_s"] = round(time.time() - t0, 1)
    finally:
        shutil.rmtree(base, ignore_errors=True)

    disagreements = 0
    n_boundaries = 0
    harness_errors = 0
    for res in results:
        spec = res["spec"]
        c = cell_of(spec)
        if "harness_error" in res:
            harness_errors += 1
            run.obligation(f"real run {spec_id(spec)} could be set up and observed", False,
                           json.dumps(res["harness_error"])[-700:])
            continue
        obs_t, obs_o = observed_trace(res), observed_outcome(res)
        n_boundaries += len(res["events"])
        run.case({"spec": spec}, nontrivial=True)
        fails = oracle(res)
        # correspondence with the model
        if model_by_cell is not None:
            m_t, m_o = model_by_cell[cell_key(c, spec.get("inject_fit_fault"))]
            same = (m_t == obs_t and m_o == obs_o)
            if not same:
                disagreements += 1
                run.log(f"model/impl disagree on {spec_id(spec)}:\n   model {m_t} {m_o}\n   impl  {obs_t} {obs_o}")
                if not fails:
                    run.proof_broken.append(
                        f"correspondence on {spec_id(spec)}: model {json.dumps(m_t)} {m_o} / impl {json.dumps(obs_t)} {obs_o}")
        for f in fails:
            run.violation("failing-input", {
                "spec": spec, "oracle_clause": f["clause"], "detail": f["detail"],
                "observed_trace": obs_t, "observed_outcome": obs_o, "raised": res.get("raised"),
                "model_trace": (model_by_cell or {}).get(cell_key(c, spec.get("inject_fit_fault"))),
                "replay_cmd": "./check C19 --replay <this file>"}, selector=f["selector"])
        run.sample({"spec": spec_id(spec), "observed": obs_t, "outcome": obs_o,
                    "oracle_failures": [(f["clause"], f["selector"]) for f in fails][:6], "wall_s": res.get("wall_s")},
                   limit=4)
    if model_by_cell is not None:
        run.obligation("correspondence: observed (file, by-constructor, key-present)/removal/outcome sequence == "
                       "model trace of the GENERATED term, on every real run",
                       disagreements == 0, f"{disagreements} of {len(results)} runs disagree")

    # ---- what the per-run obligations mean for the property
    if vals is not None:
        known_sel = {k.get("selector") for k in run.known}
        # (a) key
        if not vals["key_never_written"]:
            if vals["key_written_only_under_F14"] and vals["has_leaking_cell"]:
                run.notes.append("key_never_written generated = FALSE: refuted (gen_key_persisted_refuted); every "
                                 "leak falls under selector F14 (gen_key_persisted_partial); replayed on real runs")
                if SEL_F14 not in run.known_hits and SEL_F14 in known_sel and disagreements == 0:
                    run.proof_broken.append("the model predicts F14 leaks but no real run reproduced one")
            else:
                run.obligation("key_never_written generated = true, or every leak is excused by selector F14",
                               False, f"checker values: {vals}")
        # (d) completion / chunks
        if not vals["completes"]:
            if not (vals["completes_unless_F15"] and vals["has_failing_cell"]):
                run.obligation("completes generated = true, or every failing cell is excused by selector F15",
                               False, f"checker values: {vals}")
        if not (vals["rm_train_all_paths"] and vals["rm_val_all_paths"]):
            if not (vals["rm_train_all_paths_unless_F15"] and vals["rm_val_all_paths_unless_F15"]
                    and vals["has_rm_missing_cell"]):
                run.obligation("chunk deletion is reached on all paths, or every exception is excused by selector F15",
                               False, f"checker values: {vals}")
        for nm in ("initial_config_contract", "final_config_contract", "ckpt_contract", "chunk_guard_contract",
                   "flag_determined"):
            run.obligation(f"{nm} generated = true", bool(vals[nm]))

    run.coverage.update({
        "grid": "model types x {torch_dataset, torch_dataset_np_chunks} x tracking x checkpointing x "
                "{plain YAML-loaded, structured builder-made}" + (" (pairwise-covering subset)" if run.tier == "quick" else " (all 64)")
                + " + delete-flag-off cells + fault-injected cells + corpus witnesses",
        "write_boundaries_scanned": n_boundaries, "disagreements": disagreements,
        "rule": "case = one real training run (fresh subprocess); all are non-trivial; distinct by the run spec",
        "runs": [spec_id(r["spec"]) for r in results],
    })
    run.trusted += [
        "translator/c19_effects2coq.py (Python ast -> effect term; fail-closed; its output is cross-checked against "
        "real runs on every check)",
        "OmegaConf.save / Lightning TorchCheckpointIO / wandb Config.update / shutil.rmtree are the observation points; "
        "Lightning, wandb, OmegaConf internals are not modelled (their files are scanned for the key)",
    ]
    run.assumptions += (info.get("assumptions") or [])
    return run.finish()


def replay(run: core.Run, path: str) -> int:
    rep = json.load(open(path))
    spec = spec_from(rep["spec"])
    base = core.scratch_dir("sv_c19_")
    try:
        core.impl_env_setup()
        labels1 = base / "one_animal.pkg.slp"
        make_one_animal_labels(labels1)
        res = run_worker(spec, base, labels1)
    finally:
        shutil.rmtree(base, ignore_errors=True)
    if "harness_error" in res:
        print(json.dumps(res["harness_error"], indent=1))
        return 2
    fails = oracle(res)
    print(json.dumps({"spec": spec, "observed_trace": observed_trace(res), "outcome": observed_outcome(res),
                      "raised": res.get("raised"), "oracle_failures": fails}, indent=1))
    return 1 if fails else 0
