"""C08 — peak grouping always terminates with a partition of the detected peaks.

Model: coq/theories/C08/Grouping.v; theorems: coq/theories/C08/Props.v.
Tie: correspondence (Coq vm_compute vs /repo) on
  get_connection_candidates, match_candidates_sample (cost matrices as handed to
  scipy, answers checked against the oracle contract by a brute-force optimum),
  assign_connections_to_instances, make_predicted_instances,
  group_instances_sample and PAFScorer.predict (scores taken from the
  implementation's score_paf_lines output, everything downstream replayed by the
  model with scipy's recorded answers as the oracle table).
Oracle: the property statement evaluated in Python on the implementation's
outputs (independent of the Coq model).
Finding F3 (selector nan_scores_make_edge_assignment_infeasible; FIXED in /repo by
f3ef4e3): on the pinned tree a NaN line score (coincident peaks of adjacent node
types) became cost +inf and linear_sum_assignment raised `ValueError: cost matrix
is infeasible`.  `detect_f3` finds which variant the code under check has; the
current tree gives NaN entries the cost 1e6 and drops matches landing on them.
Round 4: float min_instance_peaks are tied through the binary64 product (thr
stream), the domination hypothesis of c08_matches_optimal_fixed is evaluated on
every generated edge, candidate order is observed unsorted.
"""
from __future__ import annotations

import itertools
import json
import math
import random
from fractions import Fraction as F

from .. import core

PROP_FILES = [core.THEORIES / "C08" / "Props.v"]
PREAMBLE = ("From SV Require Import C17.Toposort C08.Grouping.\nFrom Coq Require Import List ZArith QArith.\n"
            "Import ListNotations.\nOpen Scope nat_scope.\n")
ATOL, RTOL = 2e-5, 3e-4
SEL_F3 = "nan_scores_make_edge_assignment_infeasible"
WITNESS_F3 = core.CORPUS / "C08" / "F3_coincident_peaks.json"

# ints, dyadic floats and NON-dyadic floats (0.3, 0.6, 0.7, 0.9: the float64 product f * n_nodes differs from
# the exact product for 0.6 x 5 nodes, 0.3 / 0.6 / 0.7 x 10 nodes, ... — review finding 1)
MIPS = [0, 0, 1, 2, 3, 0.25, 0.5, 1.0, 0.3, 0.6, 0.7, 0.9]
THR_FLOATS = [0.3, 0.6, 0.7, 0.9, 0.15, 0.12, 0.35, 0.85, 0.95, 0.1, 0.2, 0.45, 0.55, 0.65, 0.8, 0.25, 0.5, 1.0, 1.5]
THR_DIFFER = [(f, n) for n in range(2, 31) for f in [k / 100 for k in range(1, 100)]
              if int(f * n) != (F(f) * n).__floor__()]


# ---------------------------------------------------------------- Coq literals
def Qc(x):
    f = F(x)
    return f"(({f.numerator})#{f.denominator})%Q"


def Sc(x):
    return "None" if x is None else f"(Some {Qc(x)})"


def L(items, f=str):
    return "[" + "; ".join(f(i) for i in items) + "]"


def E(e):
    return f"({e[0]},{e[1]})"


def cand_lit(c):
    return f"({c[0]},{c[1]},{c[2]},{Sc(c[3])})"


def conn_lit(c):
    return f"({c[0]},{c[1]},{Qc(c[2])})"


def econns_lit(ecs):
    return L(ecs, lambda ec: f"({E(ec[0])},{L(ec[1], conn_lit)})")


def mip_lit(m):
    if isinstance(m, float):
        return f"(MipFloat {Qc(F(m))})"
    return f"(MipInt ({int(m)})%Z)"


def peak_lit(p):
    return f"({p[0]},({Qc(p[1])},{Qc(p[2])},{Qc(p[3])}))"


def payload_lit(p):
    return f"({Qc(p[0])},{Qc(p[1])},{Qc(p[2])})"


def assign_lit(a):
    return L(a, lambda x: f"(({x[0][0]},{x[0][1]}),{x[1]})")


def matrix_lit(M):
    return L(M, lambda r: L(r, Sc))


def asg_lit(a):
    return "None" if a is None else "(Some " + L(a, E) + ")"


def cbool(b):
    return "true" if b else "false"


def fj(j):
    return None if j is None else F(j[0], j[1])


# ---------------------------------------------------------------- JSON (replay) encoding of Fractions
def enc(x):
    if isinstance(x, F):
        return {"q": str(x)}
    if isinstance(x, (list, tuple)):
        return [enc(i) for i in x]
    if isinstance(x, dict):
        return {k: enc(v) for k, v in x.items()}
    return x


def dec(x):
    if isinstance(x, dict):
        if set(x) == {"q"}:
            return F(x["q"])
        return {k: dec(v) for k, v in x.items()}
    if isinstance(x, list):
        return [dec(i) for i in x]
    return x


# ---------------------------------------------------------------- generators
def gen_tree(rng, nmax=6):
    n = rng.randint(2, nmax)
    labels = list(range(n))
    rng.shuffle(labels)
    es = [(labels[rng.randrange(i)], labels[i]) for i in range(1, n)]
    rng.shuffle(es)
    return n, es


def gen_edges_any(rng):
    """distinct edge types on <= 5 nodes, any shape (cycles, converging edges, self loops)"""
    n = rng.randint(2, 5)
    allp = [(u, v) for u in range(n) for v in range(n)]
    m = rng.randint(1, min(5, len(allp)))
    return n, rng.sample(allp, m)


def gen_score(rng, style):
    if style == "tie":
        return F(rng.choice([0, 1, 1, 2, 2, 3]), 4)
    return F(rng.randrange(-8192, 8193), 4096)


def gen_payload(rng):
    return (F(rng.randrange(-32, 161), 8), F(rng.randrange(-32, 161), 8), F(rng.randrange(0, 65), 64))


def gen_counts(rng, n_nodes, kmax=4):
    style = rng.random()
    if style < 0.1:
        return [0] * n_nodes
    if style < 0.25:
        return [1] * n_nodes
    if style < 0.4:
        k = rng.randint(1, kmax)
        return [k] * n_nodes
    return [rng.choice([0, 1, 1, 2, 2, 3, kmax]) for _ in range(n_nodes)]


def gen_chans(rng, counts):
    chans = [j for j, k in enumerate(counts) for _ in range(k)]
    if rng.random() < 0.5:
        rng.shuffle(chans)
    return chans


def py_candidates(edges, chans):
    out = []
    for k, (u, v) in enumerate(edges):
        su = [i for i, c in enumerate(chans) if c == u]
        sv = [i for i, c in enumerate(chans) if c == v]
        out += [(k, s, d) for s in su for d in sv]
    return out


def gen_case_cand(rng):
    if rng.random() < 0.7:
        n, es = gen_tree(rng)
    else:
        n, es = gen_edges_any(rng)
    counts = gen_counts(rng, n)
    return {"kind": "cand", "n_nodes": n, "edges": es, "chans": gen_chans(rng, counts)}


def gen_case_match(rng, fx, big):
    n_edges = rng.randint(1, 5)
    style = rng.choice(["distinct", "distinct", "distinct", "tie"])
    p_nan = rng.choice([0, 0, 0.1, 0.3, 0.6, 1.0])
    cands = []
    base = 0
    for k in range(n_edges):
        ns, nd = rng.randint(0, 5), rng.randint(0, 5)
        if rng.random() < 0.2:
            ns = nd = rng.randint(1, 5)
        ids = rng.sample(range(base, base + 14), ns + nd)
        base += 14
        srcs, dsts = ids[:ns], ids[ns:]
        drop = 0.15 if rng.random() < 0.12 else 0.0          # partial candidate lists (entries stay +inf)
        for s in srcs:
            for d in dsts:
                if rng.random() < drop:
                    continue
                sc = None if rng.random() < p_nan else gen_score(rng, style)
                cands.append((k, s, d, sc))
    if rng.random() < 0.5:
        rng.shuffle(cands)
    return {"kind": "match", "fx": fx, "big": big, "n_edges": n_edges, "cands": cands, "style": style}


def one_to_one(rng, ns, nd, full=False):
    t = min(ns, nd) if full else rng.randint(0, min(ns, nd))
    return list(zip(sorted(rng.sample(range(ns), t)), rng.sample(range(nd), t)))


def gen_econns(rng, wellformed, toposort_edges, EdgeType):
    """(n_nodes, counts, econns, wellformed)"""
    if wellformed:
        n, es = gen_tree(rng)
        order = list(toposort_edges([EdgeType(u, v) for u, v in es]))
        counts = [rng.randint(0, 4) for _ in range(n)]
        ecs = []
        for i in order:
            u, v = es[i]
            ecs.append(((u, v), [(s, d, gen_score(rng, "distinct")) for s, d in one_to_one(rng, counts[u], counts[v])]))
        return n, counts, ecs
    n, es = gen_edges_any(rng) if rng.random() < 0.5 else gen_tree(rng, 5)
    rng.shuffle(es)
    counts = [rng.randint(1, 3) for _ in range(n)]
    ecs = []
    for (u, v) in es:
        m = rng.randint(0, 4)
        ecs.append(((u, v), [(rng.randrange(counts[u]), rng.randrange(counts[v]), gen_score(rng, "distinct"))
                             for _ in range(m)]))
    return n, counts, ecs


def gen_case_assign(rng, tp, ET):
    wf = rng.random() < 0.5
    n, counts, ecs = gen_econns(rng, wf, tp, ET)
    return {"kind": "assign", "n_nodes": n, "ecs": ecs, "mip": rng.choice(MIPS), "wellformed": wf}


def gen_case_thr(rng):
    """float min_instance_peaks against the size filter: a chain skeleton 0-1-...-(n-1) and instances whose
    sizes straddle both int(f * n) (float64 product, what the code computes) and floor of the exact product"""
    r = rng.random()
    if r < 0.45:
        f, n = rng.choice(THR_DIFFER)
    elif r < 0.85:
        f, n = rng.choice(THR_FLOATS), rng.randint(2, 30)
    else:
        f, n = rng.randrange(1, 200) / 128 if rng.random() < 0.3 else rng.random(), rng.randint(2, 30)
    t_code, t_exact = int(f * n), (F(f) * n).__floor__()
    sizes = {t for t in (t_code - 1, t_code, t_code + 1, t_exact, t_exact + 1, 2, n) if 2 <= t <= n}
    sizes = sorted(sizes)
    rng.shuffle(sizes)
    ecs = []
    for j in range(n - 1):
        ecs.append(((j, j + 1), [(i, i, gen_score(rng, "distinct")) for i, sz in enumerate(sizes) if j < sz - 1]))
    return {"kind": "thr", "n_nodes": n, "ecs": ecs, "mip": f, "sizes": sizes, "wellformed": True}


def gen_case_make(rng, tp, ET):
    wf = rng.random() < 0.4
    n, counts, ecs = gen_econns(rng, wf, tp, ET)
    pk = [[gen_payload(rng) for _ in range(c)] for c in counts]
    # an assignment: start from peaks touched by connections, random ids; sometimes consistent
    keys = []
    for (u, v), cs in ecs:
        for s, d, _ in cs:
            for p in ((u, s), (v, d)):
                if p not in keys:
                    keys.append(p)
    ids = [0, 2, 5, 7] if rng.random() < 0.5 else [0, 1, 2, 3]
    style = rng.random()
    a = {}
    if style < 0.5:                       # consistent: union-find over connections
        comp = {}
        nxt = 0
        for (u, v), cs in ecs:
            for s, d, _ in cs:
                i = comp.get((u, s), comp.get((v, d)))
                if i is None:
                    i = ids[nxt % len(ids)] + 10 * (nxt // len(ids))
                    nxt += 1
                comp.setdefault((u, s), i)
                comp.setdefault((v, d), i)
        a = dict(comp)
        if rng.random() < 0.3 and a:      # drop one whole instance (as the size filter does)
            gone = rng.choice(list(a.values()))
            a = {k: i for k, i in a.items() if i != gone}
    else:                                 # arbitrary: inconsistent / missing keys / out of range
        for p in keys:
            if rng.random() < 0.8:
                a[p] = rng.choice(ids)
        if rng.random() < 0.15:
            a[(rng.randrange(n), 9)] = rng.choice(ids)
    al = list(a.items())
    rng.shuffle(al)
    return {"kind": "make", "pk": pk, "ecs": ecs, "assign": [[list(k), i] for k, i in al]}


def gen_peaks(rng, counts, coincide=0.0):
    chans = gen_chans(rng, counts)
    peaks = []
    for c in chans:
        if peaks and rng.random() < coincide:
            q = rng.choice(peaks)
            p = (q[1], q[2], q[3] if rng.random() < 0.5 else F(rng.randrange(0, 65), 64))
        else:
            p = gen_payload(rng)
        peaks.append((c, *p))
    return peaks


def gen_case_group(rng, tp, ET):
    wf = rng.random() < 0.55
    mls = rng.choice([F(-1), F(0), F(1, 4), F(1, 4), F(1, 2), F(1)])
    if wf:
        n, es = gen_tree(rng)
        extra = 1 if rng.random() < 0.1 else 0
        n += extra
        order = list(tp([ET(u, v) for u, v in es]))
        counts = gen_counts(rng, n)
        ms = []
        for k, (u, v) in enumerate(es):
            for s, d in one_to_one(rng, counts[u], counts[v], full=rng.random() < 0.7):
                r = rng.random()
                sc = None if r < 0.08 else (mls if r < 0.2 else gen_score(rng, "distinct"))
                ms.append((k, s, d, sc))
        if rng.random() < 0.3:
            rng.shuffle(ms)
    else:
        n, es = gen_edges_any(rng) if rng.random() < 0.5 else gen_tree(rng, 5)
        order = list(range(len(es)))
        rng.shuffle(order)
        if rng.random() < 0.2:
            order = order[:rng.randint(0, len(order))]
        counts = [rng.randint(1, 3) for _ in range(n)]
        ms = []
        for _ in range(rng.randint(0, 10)):
            k = rng.randrange(len(es))
            u, v = es[k]
            r = rng.random()
            sc = None if r < 0.08 else (mls if r < 0.2 else gen_score(rng, "distinct"))
            ms.append((k, rng.randrange(counts[u]), rng.randrange(counts[v]), sc))
    peaks = gen_peaks(rng, counts, coincide=rng.choice([0, 0, 0.3]))
    return {"kind": "group", "n_nodes": n, "edges": es, "sorted": order, "mip": rng.choice(MIPS), "mls": mls,
            "peaks": peaks, "ms": ms, "wellformed": wf}


def gen_case_predict(rng, thorough):
    n, es = gen_tree(rng)
    crowded = rng.random() < 0.05                   # > 16 peaks in a sample, on purpose (argsort / unique orderings
    if crowded:                                     # of torch are only trivially stable on small inputs)
        while n < 5:
            n, es = gen_tree(rng)
    if rng.random() < 0.08:
        n += 1                                      # a node type outside every edge
    B = rng.choice([1, 1, 2, 3])
    stride = rng.choice([1, 2, 4])
    H, W = rng.randint(3, 10), rng.randint(3, 10)
    coincide = rng.choice([0, 0, 0, 0.15, 0.5])
    samples = []
    for b in range(B):
        if B > 1 and rng.random() < 0.3:
            counts = [0] * n                       # an empty frame inside a batch
        elif crowded:
            counts = [rng.choice([3, 4, 4]) for _ in range(n)]
        else:
            counts = gen_counts(rng, n)
        peaks = []
        for c in gen_chans(rng, counts):
            if peaks and rng.random() < coincide:
                q = rng.choice(peaks)
                xy = (q[1], q[2])
            else:
                r = rng.random()
                if r < 0.15:                        # outside the PAF extent
                    xy = (F(rng.randrange(-40, 8 * (W * stride + 6)), 8), F(rng.randrange(-40, 8 * (H * stride + 6)), 8))
                else:
                    xy = (F(rng.randrange(0, 8 * W * stride), 8), F(rng.randrange(0, 8 * H * stride), 8))
            peaks.append((c, xy[0], xy[1], F(rng.randrange(0, 65), 64)))
        samples.append(peaks)
    return {"kind": "predict", "n_nodes": n, "edges": es, "stride": stride, "H": H, "W": W,
            "paf_seed": rng.randrange(1 << 30), "paf_style": rng.choice(["noise", "noise", "const", "zero"]),
            "n_points": rng.choice([1, 2, 5, 10]), "mip": rng.choice(MIPS),
            "mls": rng.choice([F(-1), F(0), F(1, 4), F(1, 4), F(1, 2)]),
            "melr": rng.choice([0.25, 0.5, 1.0, 0.05]), "dpw": rng.choice([0.0, 1.0, 2.0]),
            "via": rng.choice(["init", "from_config"]),
            "samples": samples}


def make_pafs(c, torch):
    r = random.Random(c["paf_seed"])
    B, H, W, C = len(c["samples"]), c["H"], c["W"], 2 * len(c["edges"])
    if c["paf_style"] == "zero":
        vals = [0.0] * (B * H * W * C)
    elif c["paf_style"] == "const":
        per = [r.randrange(-8, 9) / 4 for _ in range(C)]
        vals = per * (B * H * W)
    else:
        vals = [r.randrange(-8, 9) / 4 for _ in range(B * H * W * C)]
    return torch.tensor(vals, dtype=torch.float32).reshape(B, H, W, C)


# ---------------------------------------------------------------- model terms
def term(c):
    k = c["kind"]
    if k == "cand":
        return f"CCand {L(c['edges'], E)} {L(c['chans'])}"
    if k == "match":
        return f"CMatch {cbool(c['fx'])} {Qc(c['big'])} {c['n_edges']} {L(c['cands'], cand_lit)}"
    if k in ("assign", "thr"):
        return f"CAssign {econns_lit(c['ecs'])} {mip_lit(c['mip'])} {c['n_nodes']}"
    if k == "thrval":
        return f"CThr {mip_lit(c['mip'])} {c['n_nodes']}"
    if k == "make":
        return (f"CMake {L(c['pk'], lambda l: L(l, payload_lit))} {econns_lit(c['ecs'])} "
                f"{assign_lit([(tuple(x[0]), x[1]) for x in c['assign']])}")
    if k == "group":
        return (f"CGroup {c['n_nodes']} {L(c['edges'], E)} {L(c['sorted'])} {mip_lit(c['mip'])} {Qc(c['mls'])} "
                f"{L(c['peaks'], peak_lit)} {L(c['ms'], cand_lit)}")
    if k == "psample":
        tbl = L(c["tbl"], lambda e: f"({matrix_lit(e[0])},{asg_lit(e[1])})")
        return (f"CPredict {cbool(c['fx'])} {Qc(c['big'])} {tbl} {c['n_nodes']} {L(c['edges'], E)} "
                f"{mip_lit(c['mip'])} {Qc(c['mls'])} {L(c['peaks'], peak_lit)} {L(c['scores'], Sc)}")
    raise ValueError(k)


# ---------------------------------------------------------------- implementation side
class LsaRecorder:
    """Stands in for paf_grouping.linear_sum_assignment in this process only:
    records the cost matrix and the answer, then defers to scipy."""

    def __init__(self, real, np):
        self.real, self.np, self.calls = real, np, []

    def __call__(self, M, *a, **kw):
        np = self.np
        arr = np.asarray(M)
        mat = [[cost_of_float(v) for v in row] for row in arr.tolist()] if arr.ndim == 2 else "bad-shape"
        try:
            r = self.real(M, *a, **kw)
        except Exception as e:
            self.calls.append({"M": mat, "shape": list(arr.shape), "raise": f"{type(e).__name__}: {e}"})
            raise
        self.calls.append({"M": mat, "shape": list(arr.shape),
                           "ans": [list(map(int, p)) for p in zip(r[0].tolist(), r[1].tolist())]})
        return r


def cost_of_float(v):
    if v != v:
        return "nan"
    if v == math.inf:
        return None
    if v == -math.inf:
        return "-inf"
    return F(v)


def score_of_float(v):
    return None if (v != v or v in (math.inf, -math.inf)) else F(v)


def err_kind(e):
    if isinstance(e, ValueError) and "infeasible" in str(e):
        return "EInfeasible"
    if isinstance(e, AssertionError):
        return "EAssert"
    if isinstance(e, KeyError):
        return "EKey"
    if isinstance(e, IndexError):
        return "EIndex"
    return f"Other:{type(e).__name__}: {e}"


class Impl:
    def __init__(self):
        core.impl_env_setup()
        import warnings
        warnings.filterwarnings("ignore")
        import numpy as np
        import torch
        from sleap_nn.inference import paf_grouping as pg
        self.np, self.torch, self.pg = np, torch, pg
        self.rec = LsaRecorder(pg.linear_sum_assignment, np)
        pg.linear_sum_assignment = self.rec          # this process only; /repo is untouched

    # -- get_connection_candidates
    def cand(self, c):
        t = self.torch
        ei, epi = self.pg.get_connection_candidates(t.tensor(c["chans"], dtype=t.int32),
                                                    [tuple(e) for e in c["edges"]], c["n_nodes"])
        epi = epi.reshape(-1, 2)
        return list(zip(ei.tolist(), epi[:, 0].tolist(), epi[:, 1].tolist()))       # in the code's own order

    # -- match_candidates_sample on explicit tensors
    def match_tensors(self, ei, epi, ls, n_edges):
        self.rec.calls = []
        try:
            me, ms, md, sc = self.pg.match_candidates_sample(ei, epi, ls, n_edges)
            out = ("ok", [(int(a), int(b), int(c_), score_of_float(float(d)))
                          for a, b, c_, d in zip(me.tolist(), ms.tolist(), md.tolist(), sc.tolist())],
                   (me, ms, md, sc))
        except Exception as e:
            out = ("err", err_kind(e), None)
        return out, self.rec.calls

    def match(self, c):
        t = self.torch
        cands = c["cands"]
        ei = t.tensor([x[0] for x in cands], dtype=t.int32)
        epi = t.tensor([[x[1], x[2]] for x in cands], dtype=t.int64).reshape(-1, 2)
        ls = t.tensor([float("nan") if x[3] is None else float(x[3]) for x in cands], dtype=t.float32)
        return self.match_tensors(ei, epi, ls, c["n_edges"])

    def _conn_dict(self, ecs):
        pg = self.pg
        return {pg.EdgeType(u, v): [pg.EdgeConnection(s, d, float(x)) for s, d, x in cs] for (u, v), cs in ecs}

    # -- assign_connections_to_instances
    def assign(self, c):
        ecs = [((e[0][0], e[0][1]), e[1]) for e in c["ecs"]]
        a0 = self.pg.assign_connections_to_instances(self._conn_dict(ecs), min_instance_peaks=0, n_nodes=c["n_nodes"])
        a1 = self.pg.assign_connections_to_instances(self._conn_dict(ecs), min_instance_peaks=c["mip"],
                                                     n_nodes=c["n_nodes"])
        f = lambda a: [[[int(k.node_ind), int(k.peak_ind)], int(i)] for k, i in a.items()]
        return f(a0), f(a1)

    def _group_out(self, inst, ps, isc):
        np = self.np
        inst, ps, isc = np.asarray(inst), np.asarray(ps), np.asarray(isc)
        rows = []
        for i in range(inst.shape[0]):
            row = []
            for j in range(inst.shape[1]):
                x, y, v = float(inst[i, j, 0]), float(inst[i, j, 1]), float(ps[i, j])
                row.append(None if (x != x and y != y and v != v) else (x, y, v))
            rows.append(row)
        return ("ok", rows, [float(s) for s in isc.tolist()])

    # -- make_predicted_instances
    def make(self, c):
        np, pg = self.np, self.pg
        pk = c["pk"]
        peaks = [np.array([[float(p[0]), float(p[1])] for p in l], dtype="float32").reshape(-1, 2) for l in pk]
        pscores = [np.array([float(p[2]) for p in l], dtype="float32") for l in pk]
        ecs = [((e[0][0], e[0][1]), e[1]) for e in c["ecs"]]
        a = {pg.PeakID(x[0][0], x[0][1]): x[1] for x in c["assign"]}
        try:
            return self._group_out(*pg.make_predicted_instances(peaks, pscores, self._conn_dict(ecs), a))
        except Exception as e:
            return ("err", err_kind(e))

    # -- group_instances_sample
    def group_tensors(self, peaks, vals, chans, match, n_nodes, sorted_inds, edge_types, mip, mls):
        try:
            return self._group_out(*self.pg.group_instances_sample(
                peaks, vals, chans, *match, n_nodes, tuple(sorted_inds), edge_types, mip, float(mls)))
        except Exception as e:
            return ("err", err_kind(e))

    def peak_tensors(self, peaks):
        t = self.torch
        return (t.tensor([[float(p[1]), float(p[2])] for p in peaks], dtype=t.float32).reshape(-1, 2),
                t.tensor([float(p[3]) for p in peaks], dtype=t.float32),
                t.tensor([p[0] for p in peaks], dtype=t.int32))

    def group(self, c):
        t = self.torch
        P, V, C = self.peak_tensors(c["peaks"])
        ms = c["ms"]
        match = (t.tensor([m[0] for m in ms], dtype=t.int32), t.tensor([m[1] for m in ms], dtype=t.int32),
                 t.tensor([m[2] for m in ms], dtype=t.int32),
                 t.tensor([float("nan") if m[3] is None else float(m[3]) for m in ms], dtype=t.float32))
        ets = [self.pg.EdgeType(u, v) for u, v in c["edges"]]
        return self.group_tensors(P, V, C, match, c["n_nodes"], c["sorted"], ets, c["mip"], c["mls"])

    # -- PAFScorer.predict and its stages
    def predict(self, c):
        t, pg = self.torch, self.pg
        n = c["n_nodes"]
        if c.get("via") == "from_config":           # the constructor BottomUpPredictor uses (OmegaConf lists)
            from omegaconf import OmegaConf
            cfg = OmegaConf.create({"confmaps": {"part_names": [str(i) for i in range(n)]},
                                    "pafs": {"edges": [[str(u), str(v)] for u, v in c["edges"]],
                                             "output_stride": c["stride"]}})
            sc = pg.PAFScorer.from_config(cfg, max_edge_length_ratio=c["melr"], dist_penalty_weight=c["dpw"],
                                          n_points=c["n_points"], min_instance_peaks=c["mip"],
                                          min_line_scores=float(c["mls"]))
        else:
            sc = pg.PAFScorer(part_names=[str(i) for i in range(n)], edges=[(str(u), str(v)) for u, v in c["edges"]],
                              pafs_stride=c["stride"], max_edge_length_ratio=c["melr"], dist_penalty_weight=c["dpw"],
                              n_points=c["n_points"], min_instance_peaks=c["mip"], min_line_scores=float(c["mls"]))
        pafs = make_pafs(c, t)
        pts = [self.peak_tensors(p) for p in c["samples"]]
        nest = t.nested.nested_tensor
        peaks, vals, chans = nest([p[0] for p in pts]), nest([p[1] for p in pts]), nest([p[2] for p in pts])
        res = {"sorted": list(sc.sorted_edge_inds),
               "edge_types": [(e.src_node_ind, e.dst_node_ind) for e in sc.edge_types]}
        # stage 1: scoring (taken from the implementation)
        try:
            ei, epi, ls = sc.score_paf_lines(pafs, peaks, chans)
        except Exception as e:                      # "grouping finishes without raising" starts here
            res["score_error"] = err_kind(e)
            res["per"] = []
            return res
        per = []
        for b in range(len(pts)):
            ei_b, epi_b, ls_b = ei[b], epi[b].reshape(-1, 2), ls[b]
            cands = [(int(k), int(s), int(d), score_of_float(float(x)))
                     for k, (s, d), x in zip(ei_b.tolist(), epi_b.tolist(), ls_b.tolist())]
            raw = [float(x) for x in ls_b.tolist()]
            m, calls = self.match_tensors(ei_b, epi_b, ls_b, sc.n_edges)
            g = None
            if m[0] == "ok":
                g = self.group_tensors(pts[b][0], pts[b][1], pts[b][2], m[2], sc.n_nodes, sc.sorted_edge_inds,
                                       sc.edge_types, sc.min_instance_peaks, sc.min_line_scores)
            per.append({"cands": cands, "raw_scores": raw, "match": m[:2], "calls": calls, "group": g})
        res["per"] = per
        # the whole pipeline in one call
        self.rec.calls = []
        try:
            out = sc.predict(pafs, peaks, vals, chans)
            res["predict"] = ("ok", [self._group_out(out[0][b], out[1][b], out[2][b]) for b in range(len(pts))])
        except Exception as e:
            res["predict"] = ("err", err_kind(e))
        return res


# ---------------------------------------------------------------- comparisons
def close(a, b):
    return abs(a - b) <= ATOL + RTOL * abs(b)


def cmp_group(model, impl):
    """model: JSON of rgroup; impl: ('ok', rows, scores) | ('err', kind). None or a reason."""
    if "err" in model:
        if impl[0] != "err" or impl[1] != model["err"]:
            return f"model raises {model['err']}, implementation {impl[:2] if impl[0] == 'err' else 'returns'}"
        return None
    if impl[0] == "err":
        return f"implementation raises {impl[1]}, model returns"
    rows, scores = model["ok"]
    if len(rows) != len(impl[1]):
        return f"{len(impl[1])} instances, model {len(rows)}"
    for i, (mr, ir) in enumerate(zip(rows, impl[1])):
        if len(mr) != len(ir):
            return f"instance {i}: {len(ir)} nodes, model {len(mr)}"
        for j, (mc, ic) in enumerate(zip(mr, ir)):
            mcf = None if mc is None else tuple(float(fj(v)) for v in mc)
            if mcf != ic:
                return f"instance {i} node {j}: impl {ic} model {mcf}"
    for i, (ms, is_) in enumerate(zip(scores, impl[2])):
        if not close(is_, float(fj(ms))):
            return f"instance {i} score: impl {is_} model {float(fj(ms))}"
    return None


def matrix_of_json(Mj):
    return [[fj(v) for v in row] for row in Mj]


def total_cost(M, ans):
    t = F(0)
    for i, j in ans:
        if M[i][j] is None or isinstance(M[i][j], str):
            return None
        t += M[i][j]
    return t


def valid_assignment(n, m, ans):
    rs, cs = [p[0] for p in ans], [p[1] for p in ans]
    return (len(ans) == min(n, m) and len(set(rs)) == len(rs) and len(set(cs)) == len(cs)
            and all(0 <= r < n for r in rs) and all(0 <= c_ < m for c_ in cs))


def check_calls(model_Ms, bf, tot, calls, upto=None):
    """The cost matrices the implementation hands to scipy are the model's, and
    scipy's answers meet the oracle contract (validity, optimal total; failure
    iff the model's brute force finds no all-finite assignment)."""
    for k, call in enumerate(calls):
        if k >= len(model_Ms):
            return f"more assignment problems ({len(calls)}) than edges"
        M = matrix_of_json(model_Ms[k])
        if call["M"] != M and not (M == [] and call["shape"][0] * call["shape"][-1] == 0):
            return f"edge {k}: cost matrix differs: impl {call['M']} model {M}"
        n, m = len(M), (len(M[0]) if M else 0)
        if "raise" in call:
            if "infeasible" not in call["raise"]:
                return f"edge {k}: scipy raised {call['raise']}"
            if bf[k] is not None:
                return f"edge {k}: oracle contract: scipy fails but a finite assignment exists: {bf[k]}"
        else:
            if bf[k] is None:
                return f"edge {k}: oracle contract: scipy answers {call['ans']} but no finite assignment exists"
            if not valid_assignment(n, m, call["ans"]):
                return f"edge {k}: oracle contract: answer {call['ans']} is not one-to-one of size min({n},{m})"
            t = total_cost(M, call["ans"])
            if t is None or t != fj(tot[k]):
                return f"edge {k}: oracle contract: total {t} is not the optimum {fj(tot[k])}"
    return None


def matches_from_calls(calls, fx):
    """What match_candidates_sample must return given scipy's answers."""
    out = []
    for k, call in enumerate(calls):
        if "raise" in call:
            return ("err", "EInfeasible")
        for i, j in call["ans"]:
            v = call["M"][i][j]
            out.append((k, i, j, None if v is None or isinstance(v, str) else -v))
    return ("ok", out)


def model_matches(mj):
    if "err" in mj:
        return ("err", mj["err"])
    return ("ok", [(m[0], m[1], m[2], fj(m[3])) for m in mj["ok"]])


# ---------------------------------------------------------------- the property, executable (independent of Coq)
def threshold(mip, n_nodes):
    if not mip > 0:
        return None
    return int(mip * n_nodes) if isinstance(mip, float) else mip


def max_matching_size(ok):
    """Kuhn's algorithm on a boolean matrix."""
    n, m = len(ok), (len(ok[0]) if ok else 0)
    mt = [-1] * m

    def aug(i, seen):
        for j in range(m):
            if ok[i][j] and not seen[j]:
                seen[j] = True
                if mt[j] < 0 or aug(mt[j], seen):
                    mt[j] = i
                    return True
        return False
    return sum(aug(i, [False] * m) for i in range(n))


def score_tables(cands):
    """per edge: sorted unique srcs, dsts and dict (i,j) -> score|None|missing"""
    tabs = {}
    for k, s, d, x in cands:
        tabs.setdefault(k, []).append((s, d, x))
    out = {}
    for k, l in tabs.items():
        srcs, dsts = sorted({s for s, _, _ in l}), sorted({d for _, d, _ in l})
        tab = {}
        for s, d, x in l:
            tab.setdefault((srcs.index(s), dsts.index(d)), x)
        out[k] = (len(srcs), len(dsts), tab)
    return out


def selector_f3(cands):
    """F3 selector: for some edge the NaN (or absent) entries leave no NaN-free
    one-to-one assignment of size min(n_src, n_dst), and a NaN entry is involved."""
    for k, (n, m, tab) in score_tables(cands).items():
        ok = [[tab.get((i, j), "missing") not in (None, "missing") for j in range(m)] for i in range(n)]
        has_nan = any(v is None for v in tab.values())
        if has_nan and max_matching_size(ok) < min(n, m):
            return True
    return False


def big_dominates(big, cands, n_edges):
    """Python twin of Grouping.big_dominatesb, per edge: big > min(n_src, n_dst) * (hi - lo) with
    lo = min(0, finite scores), hi = max(0, finite scores) — the hypothesis of c08_matches_optimal_fixed"""
    tabs = score_tables(cands)
    out = []
    for k in range(n_edges):
        fs = [x for kk, _, _, x in cands if kk == k and x is not None]
        n, m = (tabs[k][0], tabs[k][1]) if k in tabs else (0, 0)
        lo, hi = min([F(0)] + fs), max([F(0)] + fs)
        out.append(big > min(n, m) * (hi - lo))
    return out


def grid_order(raw):
    """The candidate list in the code's own order (not sorted): edge blocks ascending and contiguous, each block
    the src-major product S x D of the order in which its sources / destinations first appear (what meshgrid 'ij'
    of two index vectors yields, whatever order torch.argsort gave them).  Returns (reason|None, identical)
    where identical = every S and D ascending, i.e. the order is exactly the model's."""
    ks = [c[0] for c in raw]
    if ks != sorted(ks):
        return f"edge blocks not ascending: {ks}", False
    ident = True
    for k in sorted(set(ks)):
        blk = [(s, d) for kk, s, d in raw if kk == k]
        S, D = list(dict.fromkeys(s for s, _ in blk)), list(dict.fromkeys(d for _, d in blk))
        if blk != [(s, d) for s in S for d in D]:
            return f"edge {k}: candidates {blk} are not a src-major grid", False
        ident = ident and S == sorted(S) and D == sorted(D)
    return None, ident


def partial_assignments(n, m, size):
    for rows in itertools.combinations(range(n), size):
        for cols in itertools.permutations(range(m), size):
            yield list(zip(rows, cols))


def oracle_matching(cands, matches):
    """Per edge type the chosen matches are one-to-one, use no NaN entry, and no
    NaN-free one-to-one assignment with at least as many pairs has a larger total
    line score; no NaN-free one-to-one assignment has more pairs."""
    tabs = score_tables(cands)
    by_edge = {}
    for k, i, j, x in matches:
        by_edge.setdefault(k, []).append((i, j, x))
    for k in by_edge:
        if k not in tabs:
            return f"edge {k}: matches without candidates"
    for k, (n, m, tab) in tabs.items():
        ms = by_edge.get(k, [])
        rs, cs = [a for a, _, _ in ms], [b for _, b, _ in ms]
        if len(set(rs)) != len(rs) or len(set(cs)) != len(cs):
            return f"edge {k}: matches are not one-to-one: {ms}"
        tot = F(0)
        for i, j, x in ms:
            v = tab.get((i, j), "missing")
            if v in (None, "missing"):
                return f"edge {k}: match ({i},{j}) has no finite line score"
            if x != v:
                return f"edge {k}: match ({i},{j}) carries score {x}, the candidate's score is {v}"
            tot += v
        ok = [[tab.get((i, j), "missing") not in (None, "missing") for j in range(m)] for i in range(n)]
        if max_matching_size(ok) > len(ms):
            return f"edge {k}: {len(ms)} matches but a NaN-free one-to-one assignment of more pairs exists"
        if n <= 5 and m <= 5:
            for a in partial_assignments(n, m, len(ms)):
                if all(ok[i][j] for i, j in a):
                    t = sum((tab[(i, j)] for i, j in a), F(0))
                    if t > tot:
                        return f"edge {k}: total line score {tot} but {a} reaches {t}"
    return None


def oracle_group(n_nodes, edges, peaks, matches, mls, mip, out):
    """Instances are exactly the connected components of the accepted matches
    that survive the size filter; every keypoint is an input peak of its node
    type with its score; no peak twice; <= 1 peak per node; instance score =
    sum of accepted edge scores."""
    if out[0] != "ok":
        return f"grouping raised {out[1]}"
    by_node = {}
    for ch, x, y, v in peaks:
        by_node.setdefault(ch, []).append((float(x), float(y), float(v)))
    parent = {}

    def find(p):
        while parent.setdefault(p, p) != p:
            parent[p] = parent[parent[p]]
            p = parent[p]
        return p
    acc = [(k, i, j, x) for k, i, j, x in matches if x is not None and x >= mls]
    for k, i, j, x in acc:
        u, v = edges[k]
        if i >= len(by_node.get(u, [])) or j >= len(by_node.get(v, [])):
            return f"match {(k, i, j)} refers to a peak that does not exist"
        parent[find((u, i))] = find((v, j))
    comps = {}
    for p in list(parent):
        comps.setdefault(find(p), {"peaks": [], "score": F(0)})["peaks"].append(p)
    for k, i, j, x in acc:
        comps[find((edges[k][0], i))]["score"] += x
    thr = threshold(mip, n_nodes)
    want = []
    for cmp_ in comps.values():
        if thr is not None and len(cmp_["peaks"]) < thr:
            continue
        row = [None] * n_nodes
        for (node, rank) in cmp_["peaks"]:
            if row[node] is not None:
                return f"a connected component holds two peaks of node {node}"
            row[node] = by_node[node][rank]
        want.append((row, float(cmp_["score"])))
    got = list(zip(out[1], out[2]))
    key = lambda rs: ([(-1e9, 0, 0) if c_ is None else c_ for c_ in rs[0]], rs[1])
    want.sort(key=key)
    got.sort(key=key)
    if len(want) != len(got):
        return f"{len(got)} instances, the accepted matches have {len(want)} surviving connected components"
    for (wr, ws), (gr, gs) in zip(want, got):
        if wr != gr:
            return f"instance {gr} is not a connected component of the accepted matches (expected {wr})"
        if not close(gs, ws):
            return f"instance score {gs} != sum of accepted edge scores {ws}"
    # no peak in two instances (multiset inclusion in the input peaks)
    for node in range(n_nodes):
        used = [r[node] for r, _ in got if r[node] is not None]
        avail = list(by_node.get(node, []))
        for p in used:
            if p not in avail:
                return f"keypoint {p} of node {node} is not an (unused) input peak of that node type"
            avail.remove(p)
    return None


# ---------------------------------------------------------------- detection of the F3 behaviour
def detect_f3(impl):
    """Run the 1x1 NaN problem through match_candidates_sample.
    Returns (fixed_F3, big)."""
    out, calls = impl.match({"cands": [(0, 0, 1, None)], "n_edges": 1})
    if out[0] == "err" and out[1] == "EInfeasible":
        return False, F(0)
    if out[0] == "ok" and calls and calls[0]["M"] and isinstance(calls[0]["M"][0][0], F):
        return True, calls[0]["M"][0][0]
    return False, F(0)          # unknown behaviour: the correspondence will say so


# ---------------------------------------------------------------- the check
def check(run: core.Run) -> int:
    run.build_and_prove(PROP_FILES)
    impl = Impl()
    rng = run.rng
    thorough = run.tier == "thorough"
    tp, ET = impl.pg.toposort_edges, impl.pg.EdgeType
    fx, big = detect_f3(impl)
    run.notes.append(f"F3 behaviour of the code under check: fixed_F3={fx} big={big}")

    scale = 24 if thorough else 3
    cases = []
    if WITNESS_F3.exists():
        cases.append(dec(json.load(open(WITNESS_F3)))["case"])
    for f in sorted((core.CORPUS / "C08").glob("*.json")) if (core.CORPUS / "C08").exists() else []:
        if f != WITNESS_F3:
            cases.append(dec(json.load(open(f)))["case"])
    for c in cases:
        normalise_case(c)
    cases += [gen_case_cand(rng) for _ in range(80 * scale)]
    cases += [gen_case_match(rng, fx, big) for _ in range(220 * scale)]
    cases += [gen_case_assign(rng, tp, ET) for _ in range(220 * scale)]
    cases += [gen_case_make(rng, tp, ET) for _ in range(160 * scale)]
    cases += [gen_case_group(rng, tp, ET) for _ in range(300 * scale)]
    cases += [gen_case_predict(rng, thorough) for _ in range(170 * scale)]
    cases += [gen_case_thr(rng) for _ in range(80 * scale)]

    # implementation first (predict cases need its scores and scipy's answers to build the model terms)
    units = []          # (case, sub-index, term, impl result)
    early_fail = []     # predict cases whose scoring stage raised (no model term can be built)
    for c in cases:
        k = c["kind"]
        if k == "cand":
            units.append((c, None, term(c), impl.cand(c)))
        elif k == "match":
            c["fx"], c["big"] = fx, big
            units.append((c, None, term(c), impl.match(c)))
        elif k == "assign":
            units.append((c, None, term(c), impl.assign(c)))
        elif k == "thr":
            units.append((c, "assign", term(c), impl.assign(c)))
            units.append((c, "val", term({"kind": "thrval", "mip": c["mip"], "n_nodes": c["n_nodes"]}), None))
        elif k == "make":
            units.append((c, None, term(c), impl.make(c)))
        elif k == "group":
            units.append((c, None, term(c), impl.group(c)))
        elif k == "predict":
            r = impl.predict(c)
            c["_impl"] = r
            if "score_error" in r:
                early_fail.append((c, f"PAFScorer.score_paf_lines raised {r['score_error']}"))
            for b, per in enumerate(r["per"]):
                order = py_candidates(c["edges"], [p[0] for p in c["samples"][b]])
                smap = {(kk, s, d): x for kk, s, d, x in per["cands"]}
                per["cands_ok"] = sorted(smap) == sorted(order) and len(per["cands"]) == len(order)
                scores = [smap.get(t_) for t_ in order]
                tbl = [(call["M"], None if "raise" in call else call["ans"]) for call in per["calls"]
                       if not any(isinstance(v, str) for row in call["M"] for v in row)]
                sub = {"kind": "psample", "fx": fx, "big": big, "tbl": tbl, "n_nodes": c["n_nodes"],
                       "edges": c["edges"], "mip": c["mip"], "mls": c["mls"], "peaks": c["samples"][b],
                       "scores": scores}
                units.append((c, b, term(sub), per))
    model = core.coq_eval_sharded(PREAMBLE, [u[2] for u in units], "Grouping.run", "routcome",
                                  shard=60 if not thorough else 150, jobs=12)

    stats = {"disagreements": 0, "oracle_failures": 0, "known_F3": 0, "edges_checked_for_domination": 0,
             "edges_not_dominated": 0}
    dist = {}
    fired = {}

    def disagree(c, what, detail):
        stats["disagreements"] += 1
        if stats["disagreements"] <= 5:
            run.log(f"model/impl disagree [{what}]: {detail[:400]}")
        return f"correspondence {what}: {detail[:600]}; case {json.dumps(enc(strip(c)))[:1500]}"

    def fail(c, reason, selector=None, extra=None):
        stats["oracle_failures" if not selector else "known_F3"] += 1
        run.violation("failing-input", {"case": enc(strip(c)), "oracle": reason, **(extra or {})}, selector=selector)

    broken = []
    predict_seen = set()
    for c, reason in early_fail:
        fail(c, reason)
    for (c, b, _, ir), mj in zip(units, model):
        k = c["kind"]
        dist[k] = dist.get(k, 0) + 1
        d = None
        bad = None
        if k == "cand":
            run.case(enc(c), nontrivial=len(ir) >= 2)
            mm = sorted(tuple(x) for x in mj)
            why_g, ident = grid_order(ir)               # the code's own order, observed unsorted
            key = "cand:order=model's" if ident else "cand:order=argsort-permuted"
            dist[key] = dist.get(key, 0) + 1
            if why_g or mm != sorted(ir) or [tuple(x) for x in mj] != py_candidates(c["edges"], c["chans"]):
                d = disagree(c, "get_connection_candidates", f"{why_g}; impl {ir} model {mj}")
            want = py_candidates(c["edges"], c["chans"])
            if sorted(ir) != sorted(want) or len(set(ir)) != len(ir):
                bad = f"candidates {ir} are not all src x dst pairs per edge {sorted(want)}"
        elif k == "match":
            (out, calls) = ir
            Ms, bf, tot, nopt, res, dom = mj
            run.case(enc(strip(c)), nontrivial=any(len(M) >= 2 and len(M[0]) >= 2 for M in Ms))
            dist["match:" + c["style"]] = dist.get("match:" + c["style"], 0) + 1
            why = check_calls(Ms, bf, tot, calls)
            mm = model_matches(res)
            dom_py = big_dominates(big, c["cands"], c["n_edges"])
            if dom != dom_py:
                why = why or f"big_dominatesb: Coq {dom} Python {dom_py}"
            stats["edges_checked_for_domination"] += len(dom_py)
            stats["edges_not_dominated"] += sum(1 for x in dom_py if not x)
            if why is None and len(calls) != (len(Ms) if out[0] == "ok" else len(calls)):
                why = f"{len(calls)} assignment problems for {len(Ms)} edges"
            if why is None and (out[0] == "err") != (mm[0] == "err"):
                why = f"impl {out[:2]} model {mm}"
            if why is None and out[0] == "err" and out[1] != mm[1]:
                why = f"impl raises {out[1]} model {mm[1]}"
            if why is None and out[0] == "ok":
                glue = matches_from_calls(calls, fx)
                if not fx and glue[1] != out[1]:
                    why = f"match_candidates_sample output {out[1]} is not scipy's answer {glue[1]}"
                elif all(n_ <= 1 for n_ in nopt) and out[1] != mm[1]:
                    why = f"unique optimum but impl {out[1]} model {mm[1]}"
            if why:
                d = disagree(c, "match_candidates_sample", why)
            if out[0] == "err":
                if out[1] == "EInfeasible" and selector_f3(c["cands"]):
                    fail(c, "match_candidates_sample raised ValueError: cost matrix is infeasible", selector=SEL_F3)
                elif out[1] == "EInfeasible" and any(True for _ in c["cands"]) and partial_lists(c["cands"]):
                    pass    # partial candidate lists are outside what get_connection_candidates produces
                else:
                    bad = f"match_candidates_sample raised {out[1]}"
            else:
                if not partial_lists(c["cands"]):
                    bad = oracle_matching(c["cands"], out[1])
        elif k == "assign":
            a0, fs, a1 = mj
            run.case(enc(c), nontrivial=sum(len(e[1]) for e in c["ecs"]) >= 2)
            for f_ in fs:
                fired[f_] = fired.get(f_, 0) + 1
            if c["wellformed"] and any(f_ not in ("1", "2") for f_ in fs):
                broken.append(f"model fired {fs} on a well-formed case {enc(c)}")
            if [[list(x[0]), x[1]] for x in a0] != ir[0] or [[list(x[0]), x[1]] for x in a1] != ir[1]:
                d = disagree(c, "assign_connections_to_instances", f"impl {ir} model {[a0, a1]}")
        elif k == "thr" and b == "assign":
            a0, fs, a1 = mj
            f_, n_ = c["mip"], c["n_nodes"]
            differs = int(f_ * n_) != (F(f_) * n_).__floor__()
            run.case(enc(c), nontrivial=True)
            dist["thr:float64 product != exact product" if differs else "thr:products agree"] = dist.get(
                "thr:float64 product != exact product" if differs else "thr:products agree", 0) + 1
            if any(x not in ("1", "2") for x in fs):
                broken.append(f"model fired {fs} on a chain case {enc(c)}")
            if [[list(x[0]), x[1]] for x in a0] != ir[0] or [[list(x[0]), x[1]] for x in a1] != ir[1]:
                d = disagree(c, "assign_connections_to_instances (float threshold)", f"impl {ir[1]} model {a1}")
            thr = threshold(f_, n_)
            want = sorted([j, i] for i, sz in enumerate(c["sizes"]) if thr is None or sz >= thr for j in range(sz))
            got = sorted(x[0] for x in ir[1])
            if got != want:
                bad = (f"min_instance_peaks={f_!r} n_nodes={n_}: instances of sizes {c['sizes']} -> kept peaks {got}, "
                       f"expected those of the instances with >= int(f*n_nodes) = {thr} peaks: {want}")
        elif k == "thr" and b == "val":
            t_, prod = mj
            f_, n_ = c["mip"], c["n_nodes"]
            if t_ != threshold(f_, n_) or (f_ > 0 and F(prod[0], prod[1]) != F(f_ * n_)):
                d = disagree(c, "threshold (binary64 product)", f"min_instance_peaks={f_!r} n_nodes={n_}: model threshold "
                             f"{t_} product {prod}; float64 product {f_ * n_!r} int() {threshold(f_, n_)}")
        elif k in ("make", "group"):
            run.case(enc(c), nontrivial=(len(c["ms"]) >= 2 if k == "group" else len(c["assign"]) >= 2))
            why = cmp_group(mj, ir)
            if why:
                d = disagree(c, "make_predicted_instances" if k == "make" else "group_instances_sample", why)
            if k == "group" and c["wellformed"]:
                bad = oracle_group(c["n_nodes"], c["edges"], c["peaks"], c["ms"], c["mls"], c["mip"], ir)
        elif k == "predict":
            per = ir
            r = c["_impl"]
            srt, Ms, msj, gj, sel, dom = mj
            npk = len(c["samples"][b])
            run.case(enc({"c": strip(c), "b": b}), nontrivial=npk >= 3 and len(per["cands"]) >= 2)
            dist["predict:peaks=0" if npk == 0 else "predict:peaks>0"] = dist.get(
                "predict:peaks=0" if npk == 0 else "predict:peaks>0", 0) + 1
            for key in (["predict:peaks>16"] if npk > 16 else []) + [f"predict:via={c.get('via', 'init')}",
                                                                     f"predict:mip={c['mip']!r}"]:
                dist[key] = dist.get(key, 0) + 1
            why = None
            if srt != r["sorted"] or r["edge_types"] != [tuple(e) for e in c["edges"]]:
                why = f"sorted_edge_inds impl {r['sorted']} model {srt}"
            elif not per["cands_ok"]:
                why = f"candidates of score_paf_lines {per['cands']} are not the model's"
            else:
                bfs = [None if ("raise" in cl) else cl["ans"] for cl in per["calls"]]
                why = check_calls_table(Ms, per["calls"])
                mm = model_matches(msj)
                if why is None and (per["match"][0], per["match"][1]) != mm:
                    why = f"match_candidates_sample impl {per['match']} model {mm}"
                if why is None and per["group"] is not None:
                    why = cmp_group(gj, per["group"])
                if why is None and per["group"] is None and "err" not in gj:
                    why = f"impl raised {per['match'][1]} in matching, model returns"
            if why is None and sel != selector_f3(per["cands"]):
                why = f"selector_F3: Coq {sel} Python {selector_f3(per['cands'])}"
            dom_py = big_dominates(big, per["cands"], len(c["edges"]))
            if why is None and dom != dom_py:
                why = f"big_dominatesb: Coq {dom} Python {dom_py}"
            stats["edges_checked_for_domination"] += len(dom_py)
            stats["edges_not_dominated"] += sum(1 for x in dom_py if not x)
            why_g, ident = grid_order([x[:3] for x in per["cands"]])      # score_paf_lines' own candidate order
            key = "predict:cand-order=model's" if ident else "predict:cand-order=argsort-permuted"
            dist[key] = dist.get(key, 0) + 1
            if why is None and why_g:
                why = f"candidate order of score_paf_lines: {why_g}"
            if why:
                d = disagree(c, "PAFScorer.predict (per sample)", f"sample {b}: {why}")
            # the property on the implementation's output
            if per["match"][0] == "err":
                if per["match"][1] == "EInfeasible" and selector_f3(per["cands"]):
                    coincident = nan_only_from_coincident(c["samples"][b], per["cands"])
                    fail(c, f"sample {b}: ValueError: cost matrix is infeasible"
                            + ("" if coincident else " (NaN score without coincident peaks)"),
                         selector=SEL_F3 if coincident else None, extra={"sample": b})
                else:
                    bad = f"sample {b}: matching raised {per['match'][1]}"
            else:
                bad = oracle_matching(per["cands"], per["match"][1])
                if bad is None:
                    bad = oracle_group(c["n_nodes"], c["edges"], c["samples"][b], per["match"][1], c["mls"],
                                       c["mip"], per["group"])
                if bad:
                    bad = f"sample {b}: {bad}"
            # whole-batch call agrees with the per-sample stages (once per case)
            if id(c) not in predict_seen:
                predict_seen.add(id(c))
                why2 = predict_vs_stages(r)
                if why2:
                    bad = bad or f"PAFScorer.predict differs from its own stages: {why2}"
        if bad:
            fail(c, bad)
        elif d:
            broken.append(d)
    run.proof_broken += broken[:20]
    run.obligation("correspondence: Grouping.run (Coq, vm_compute) == paf_grouping.py (/repo) on every case; "
                   "scipy's answers meet the oracle contract (validity + optimal total vs brute force)",
                   stats["disagreements"] == 0 and not broken, f"{stats['disagreements']} disagreements")
    run.obligation("generator strength: predict samples with > 16 peaks (orderings of torch.argsort / unique beyond the "
                   "small-input regime) and both PAFScorer constructors (__init__, from_config) are generated on purpose",
                   dist.get("predict:peaks>16", 0) >= 10 and dist.get("predict:via=from_config", 0) >= 20
                   and dist.get("predict:via=init", 0) >= 20,
                   f"{dist.get('predict:peaks>16', 0)} samples > 16 peaks; from_config {dist.get('predict:via=from_config', 0)}")
    run.obligation("hypothesis of c08_matches_optimal_fixed: `big` dominates the score range "
                   "(big > min(n_src, n_dst) * (hi - lo)) on EVERY generated edge of the match and predict streams "
                   "(Coq big_dominatesb == Python twin on each)",
                   (not fx) or stats["edges_not_dominated"] == 0,
                   f"{stats['edges_not_dominated']} of {stats['edges_checked_for_domination']} edges not dominated (big={big})")
    run.obligation("generator strength: float min_instance_peaks whose float64 product with n_nodes differs from the "
                   "exact product (0.6 x 5, 0.3 x 10, ...) are generated on purpose, with instance sizes on both sides",
                   dist.get("thr:float64 product != exact product", 0) >= 20,
                   f"{dist.get('thr:float64 product != exact product', 0)} such cases")
    run.coverage.update({
        "input_distribution": dist, "model_cases_fired_in_assign_stream": fired, **stats,
        "f3_behaviour": {"fixed_F3": fx, "big": str(big)},
        "rule": "case = one call of one entry point (predict: one sample of a batch); non-trivial = at least two "
                "candidates/connections/matches; distinct by full case content",
        "tolerance": {"atol": ATOL, "rtol": RTOL, "applies_to": "instance scores only (float32 accumulation); "
                      "everything else exact"},
    })
    for c in (cases[0], cases[len(cases) // 3], cases[-1]):
        run.sample(enc(strip(c)))
    run.trusted += [
        "scipy.optimize.linear_sum_assignment is an oracle (Section variable with contract); every recorded answer "
        "is checked against the contract by the Gallina brute-force optimum (sizes <= 5x5)",
        "torch.unique/nonzero, numpy.unique, dict insertion order are modelled (Grouping.v) and compared, not verified; "
        "torch.argsort (stable=False) fixes the order of peaks WITHIN a node type in the candidate list: observed "
        "unsorted, required to be a src-major grid per edge, counted how often it equals the model's ascending order "
        "(input_distribution cand:order=...); no output depends on it (ranks come from torch.unique)",
        "float min_instance_peaks: `b64_round` (Grouping.v) models the binary64 product f * n_nodes; compared with the "
        "interpreter's float product on every thr case (exact equality of the rational value) and through the size filter",
        "score_paf_lines (PAF sampling, float32 dot products) is NOT modelled here: its output is fed to the model exactly",
    ]
    run.assumptions += ["peak coordinates, peak values and PAFs are finite; min_line_scores is dyadic (exact in float32); "
                        "float min_instance_peaks: any finite binary64 whose product with n_nodes does not overflow",
                        "line scores are bounded so that the NaN placeholder cost 1e6 dominates: "
                        "min(n_src, n_dst) * (max(0, scores) - min(0, scores)) < 1e6 per edge (checked on every generated "
                        "edge; needs |PAF| values around 1e5 to fail — then the repaired matching can prefer a NaN entry "
                        "to a very negative finite one, Props.ex_1e6_not_dominating)",
                        "edge types of a skeleton are pairwise distinct (a dict keyed by EdgeType holds the connections)"]
    return run.finish()


def check_calls_table(Ms, calls):
    """predict: the matrices handed to scipy are the model's (answers are checked
    for the contract in the match stream by brute force; here sizes may be larger
    so only validity and finiteness are re-checked)."""
    for k, call in enumerate(calls):
        if k >= len(Ms):
            return f"more assignment problems ({len(calls)}) than edges"
        M = matrix_of_json(Ms[k])
        if call["M"] != M and not (M == [] and call["shape"][0] * call["shape"][-1] == 0):
            return f"edge {k}: cost matrix differs: impl {call['M']} model {M}"
        if "ans" in call:
            n, m = len(M), (len(M[0]) if M else 0)
            if not valid_assignment(n, m, call["ans"]) or total_cost(M, call["ans"]) is None:
                return f"edge {k}: oracle contract: answer {call['ans']} invalid or not finite"
    return None


def partial_lists(cands):
    """some (src, dst) pair of an edge has no candidate"""
    for k, (n, m, tab) in score_tables(cands).items():
        if len(tab) != n * m:
            return True
    return False


def nan_only_from_coincident(peaks, cands):
    return all((peaks[s][1], peaks[s][2]) == (peaks[d][1], peaks[d][2]) for _, s, d, x in cands if x is None)


def predict_vs_stages(r):
    errs = [p["match"][1] for p in r["per"] if p["match"][0] == "err"]
    errs += [p["group"][1] for p in r["per"] if p["group"] is not None and p["group"][0] == "err"]
    if r["predict"][0] == "err":
        return None if errs and errs[0] == r["predict"][1] else f"predict raised {r['predict'][1]}, stages {errs}"
    if errs:
        return f"stages raised {errs} but predict returned"
    for b, (p, q) in enumerate(zip(r["per"], r["predict"][1])):
        if p["group"][1] != q[1] or [x for x in p["group"][2]] != [x for x in q[2]]:
            return f"sample {b}: {q[1:]} vs {p['group'][1:]}"
    return None


def strip(c):
    return {k: v for k, v in c.items() if not k.startswith("_")}


def normalise_case(c):
    """JSON round trip turns tuples into lists; restore what the runners index."""
    for key in ("edges",):
        if key in c:
            c[key] = [tuple(e) for e in c[key]]
    if "samples" in c:
        c["samples"] = [[tuple(p) for p in s] for s in c["samples"]]
    if "peaks" in c:
        c["peaks"] = [tuple(p) for p in c["peaks"]]
    if "cands" in c:
        c["cands"] = [tuple(x) for x in c["cands"]]
    if "ms" in c:
        c["ms"] = [tuple(x) for x in c["ms"]]
    if "ecs" in c:
        c["ecs"] = [(tuple(e[0]), [tuple(x) for x in e[1]]) for e in c["ecs"]]
    if "pk" in c:
        c["pk"] = [[tuple(p) for p in l] for l in c["pk"]]
    return c


def replay(run: core.Run, path: str) -> int:
    """Re-run one stored case on the implementation and evaluate the property."""
    from pathlib import Path
    pth = Path(path)
    if not pth.is_absolute() and not pth.exists():
        pth = core.VERIF / pth              # main.py has chdir'ed into a scratch directory
    impl = Impl()
    rep = dec(json.load(open(pth)))
    c = normalise_case(rep["case"])
    k = c["kind"]
    bad = None
    if k == "predict":
        r = impl.predict(c)
        if "score_error" in r:
            bad = f"PAFScorer.score_paf_lines raised {r['score_error']}"
            r["predict"] = ("err", r["score_error"])
        for b, per in enumerate(r["per"]):
            if per["match"][0] == "err":
                bad = bad or f"sample {b}: matching raised {per['match'][1]}"
            else:
                bad = bad or oracle_matching(per["cands"], per["match"][1]) or oracle_group(
                    c["n_nodes"], c["edges"], c["samples"][b], per["match"][1], c["mls"], c["mip"], per["group"])
        bad = bad or predict_vs_stages(r)
    elif k == "match":
        fx, big = detect_f3(impl)
        c["fx"], c["big"] = fx, big
        out, calls = impl.match(c)
        bad = f"raised {out[1]}" if out[0] == "err" else oracle_matching(c["cands"], out[1])
    elif k == "group":
        bad = oracle_group(c["n_nodes"], c["edges"], c["peaks"], c["ms"], c["mls"], c["mip"], impl.group(c))
    elif k == "thr":
        thr = threshold(c["mip"], c["n_nodes"])
        want = sorted([j, i] for i, sz in enumerate(c["sizes"]) if thr is None or sz >= thr for j in range(sz))
        got = sorted(x[0] for x in impl.assign(c)[1])
        bad = None if got == want else f"kept peaks {got}, expected {want} (threshold {thr})"
    elif k == "cand":
        bad = None if sorted(impl.cand(c)) == sorted(py_candidates(c["edges"], c["chans"])) else "candidates differ"
    else:
        print(json.dumps({"note": f"kind {k} is a correspondence-only case; run ./check C08"}))
    print(json.dumps({"oracle": bad}))
    return 1 if bad else 0
