"""C07 — global peak detection reports a true maximum; refinement is bounded and helps.

Model: coq/theories/C07/Global.v (x = first maximal column; y = first maximal row within
that column — the current tree, fix 4dd71e5 of F2 — or, `fixed = false`, the pinned tree's
independent first maximal row; threshold masking in the map's dtype; valid_idx gather /
scatter of the integral offsets); theorems: C07/Props.v, PropsBox.v.
Tie: correspondence of Global.run (vm_compute in coqc) with find_global_peaks_rough and
find_global_peaks on generated batches of exactly representable maps; the Coq selector
of F2 is compared with the oracle's selector on every generated map.
Oracle: the property statement evaluated on the implementation's outputs (value = max,
cell attains the max, below threshold => NaN/0, channel independence by re-running
single maps, refinement within half a patch, symmetric patch unmoved).
Public entry points (harness/c07_layer.py, model C07/Layer.v): FindInstancePeaks.forward,
SingleInstanceInferenceModel.forward (stub / identity network returning hand-made maps) and
find_global_peaks with keyword arguments omitted, over the option grid; the same oracle at
the CONFIGURED options, in map units.  The Gaussian
"moves toward the true centre" clause is proved for the exact formula over the reals
(C07/Props.v) and additionally *measured* on float32 Gaussian bumps (a test).
"""
from __future__ import annotations

import json
import math
from fractions import Fraction as F

from .. import core
from .. import c06_maps as M
from .. import c07_layer as L

PROP_FILES = [core.THEORIES / "C07" / "Props.v"]
BOX_FILE = core.THEORIES / "C07" / "PropsBox.v"
PRIM_PREFIXES = ("Uint63.", "PrimInt63.")
PREAMBLE = ("From SV Require Import C06.Peaks C07.Global.\nFrom Coq Require Import List QArith.\n"
            "Import ListNotations.\nOpen Scope Q_scope.\n")
RUN, RENDER = "C07.Global.run", "C07.Global.rresult"
ATOL, RTOL = 2e-5, 3e-4
SEL_F2 = "F2_first_max_row_and_column_miss"
SEL_F9 = "F9_patch_negative_or_peak_nonpositive"
SEL_F25 = "F25_refinement_patch_sticks_out_of_map"
PATCHES = [3, 5, 7]
F2_WITNESS = [[F(0), F(1)], [F(1), F(0)]]


# ---------------------------------------------------------------- generation
def thr_cmp(c):
    """The threshold as the code compares it: rounded to the map's dtype (M.thr_in_dtype); what the model is given and
    what the theorems and the oracle call `thr`."""
    return M.thr_in_dtype(c["thr"], c.get("dtype", "float32"))


def gen_case(rng, thorough):
    big = 10 if thorough else 8
    if rng.random() < 0.1:      # non-dyadic thresholds 0.1 / 0.2 / 0.3 / 0.7; channel maxima at / next to dtype(threshold)
        cms, thr, dt = M.gen_thr_edge(rng)
        c = {"kind": "rough" if rng.random() < 0.5 else "refine", "cms": cms, "thr": thr, "family": "thr_edge", "dtype": dt}
        if c["kind"] == "refine":
            c["p"] = M.gen_patch_size(rng)
        return c
    cms, fam = M.gen_batch(rng, big)
    t = rng.random()
    if t < 0.2:                                   # mixed valid / invalid channels: threshold between the maxima
        mxs = sorted({max(v for row in m for v in row) for smp in cms for m in smp})
        thr = mxs[len(mxs) // 2] if rng.random() < 0.5 or len(mxs) < 2 else (mxs[0] + mxs[-1]) / 2
    elif t < 0.3:                                 # everything below the threshold
        thr = max(M.all_values(cms)) + F(rng.randint(1, 8), 8)
    else:
        thr = M.gen_threshold(rng, cms)
    k = rng.random()
    kind = "rough" if k < 0.38 else ("refine_none" if k < 0.42 else ("refine_other" if k < 0.45 else "refine"))
    c = {"kind": kind, "cms": cms, "thr": thr, "family": fam}
    if kind in ("refine", "refine_other"):
        c["p"] = M.gen_patch_size(rng)          # odd and even sizes, 2..7
    c["dtype"] = M.gen_dtype(rng, cms, refine=(kind == "refine"))
    return c


def term(c, fixed):
    # the patch by its size p (Global.global_peaks_p: odd = integer-centred window, even = half-pixel samples)
    rf = f"(Some {c['p']}%nat)" if c["kind"] == "refine" else "None"
    return f"GPeaksP {core.cbool(fixed)} {M.cms_lit(c['cms'])} {core.cq(thr_cmp(c))} {rf}"


def case_json(c):
    j = {k: v for k, v in c.items() if k not in ("cms", "thr")}
    j["cms"] = M.cms_json(c["cms"])
    j["thr"] = str(c["thr"])
    return j


def case_from_json(j):
    c = dict(j)
    c["cms"] = M.cms_from_json(j["cms"])
    c["thr"] = F(j["thr"])
    return c


# ---------------------------------------------------------------- implementation
def canon(res):
    pts, vals = res
    return [[[p, v] for p, v in zip(ps, vs)] for ps, vs in zip(pts.tolist(), vals.tolist())]


def run_impl(c, mods):
    torch, pf = mods
    t = M.to_tensor(c["cms"], torch, c.get("dtype", "float32"))
    if c["kind"] == "rough":
        return canon(pf.find_global_peaks_rough(t, threshold=float(c["thr"])))
    if c["kind"] == "refine_none":
        return canon(pf.find_global_peaks(t, threshold=float(c["thr"]), refinement=None))
    if c["kind"] == "refine_other":     # any other refinement string: grid-aligned peaks unchanged
        return canon(pf.find_global_peaks(t, threshold=float(c["thr"]), refinement="local",
                                          integral_patch_size=c["p"]))
    return canon(pf.find_global_peaks(t, threshold=float(c["thr"]), refinement="integral",
                                      integral_patch_size=c["p"]))


def impl_rough(cms, thr, mods, dtype="float32"):
    return run_impl({"kind": "rough", "cms": cms, "thr": thr, "dtype": dtype}, mods)


# ---------------------------------------------------------------- the property, executable
def selector_F2(m):
    """Finding F2: the first row and the first column containing a maximal cell do
    not meet in a maximal cell (needs >= 2 maximal cells in different rows and columns)."""
    mx = max(v for row in m for v in row)
    y = min(i for i, row in enumerate(m) if mx in row)
    x = min(j for j in range(len(m[0])) if any(row[j] == mx for row in m))
    return m[y][x] != mx


def isnan(v):
    return isinstance(v, float) and math.isnan(v)


def same_point(a, b):
    return all((isnan(u) and isnan(v)) or u == v for u, v in zip(a, b))


def oracle(c, out, mods):
    """Returns the list of (reason, selector) of every clause that fails (empty = holds)."""
    fails = []
    cms, thr = c["cms"], thr_cmp(c)          # the statement is read with the threshold as the code compares it
    B, C = len(cms), len(cms[0])
    H, W = len(cms[0][0]), len(cms[0][0][0])
    if len(out) != B or any(len(o) != C for o in out):
        return [("output shape is not (samples, channels)", None)]
    refine = c["kind"] == "refine"
    ts = M.tol_scale(c.get("dtype", "float32"))
    rough = impl_rough(cms, c["thr"], mods, c.get("dtype", "float32")) if refine else out
    for s in range(B):
        for ch in range(C):
            m = cms[s][ch]
            (pt, v), (rpt, rv) = out[s][ch], rough[s][ch]
            mx = max(x for row in m for x in row)
            where = f"map (sample {s}, channel {ch})"
            if mx < thr:                                                      # c07_below_threshold
                if not (isnan(pt[0]) and isnan(pt[1]) and v == 0):
                    fails.append((f"{where}: maximum {mx} < threshold {thr} but reported {pt}, {v}", None))
                continue
            if F(v) != mx:                                                    # c07_value_is_max
                fails.append((f"{where}: reported value {v}, maximum is {mx}", None))
                continue
            x0, y0 = rpt
            if isnan(x0) or isnan(y0) or x0 != int(x0) or y0 != int(y0) or not (0 <= x0 < W and 0 <= y0 < H):
                fails.append((f"{where}: rough peak {rpt} is not a cell of the map", None))
                continue
            x0, y0 = int(x0), int(y0)
            if m[y0][x0] != mx:                                               # c07_cell_is_max
                fails.append((f"{where}: reported cell (x={x0}, y={y0}) holds {m[y0][x0]}, the maximum {mx} is "
                              f"elsewhere", SEL_F2 if selector_F2(m) else None))
            if refine:
                p = c["p"]
                r = p // 2          # the cells a p x p patch reads lie within radius p // 2 (odd and even p)
                ok = all(math.isfinite(t) for t in pt) and abs(pt[0] - x0) <= p / 2 and abs(pt[1] - y0) <= p / 2
                if not ok:                                                    # c07_refine_bound
                    fails.append((f"{where}: refined {pt} is more than half a patch (p={p}) from cell {(x0, y0)}",
                                  SEL_F9 if M.selector_F9(m, x0, y0, r) else None))
                    continue
                # (f) the map is symmetric about the reported cell as far as the map goes (cells within radius
                # p // 2): unmoved.  c07_symmetric_unmoved_partial proves it when the patch lies inside the map;
                # when it sticks out the zero padding breaks it (finding F25, c07_symmetric_unmoved_refuted)
                # Inside the map: point symmetry of the cells read (= of the zero-padded window).  Sticking out: a
                # zero-padded window that is still symmetric must be unmoved (c07_zero_padded_symmetric_unmoved_any_patch);
                # a genuine symmetric bump cut by the edge (radially symmetric as far as the map goes) that moves is F25.
                out_of_map = M.patch_sticks_out(m, x0, y0, p)
                moved = abs(pt[0] - x0) > 1e-4 * ts or abs(pt[1] - y0) > 1e-4 * ts
                if moved and not M.selector_F9(m, x0, y0, r):
                    P = M.patch_values(m, x0, y0, r)        # the zero-padded window of cells, radius p // 2
                    n = 2 * r + 1
                    if all(P[i][j] == P[n - 1 - i][n - 1 - j] for i in range(n) for j in range(n)):
                        fails.append((f"{where}: window symmetric about {(x0, y0)} but refined to {pt}", None))
                    elif out_of_map and M.radially_symmetric(m, x0, y0, r):
                        fails.append((f"{where}: bump symmetric about {(x0, y0)} (radius {r}, cut by the edge of the map) "
                                      f"but refined to {pt}", SEL_F25))
    # channel independence: every (sample, channel) alone gives the same answer           c07_channel_independence
    if B > 1 or C > 1:
        for s in range(B):
            for ch in range(C):
                alone = run_impl({**c, "cms": [[cms[s][ch]]]}, mods)[0][0]
                here = out[s][ch]
                okp = all((isnan(a) and isnan(b)) or (math.isfinite(a) and math.isfinite(b) and abs(a - b) <= 1e-4 * ts * (1 + abs(a)))
                          or a == b or (not math.isfinite(a) and not math.isfinite(b))
                          for a, b in zip(alone[0], here[0]))
                if not okp or alone[1] != here[1]:
                    fails.append((f"map (sample {s}, channel {ch}): in the batch {here}, alone {alone}", None))
    return fails


# ---------------------------------------------------------------- correspondence
def compare(c, model, out, fixed):
    skipped = 0
    if len(model) != len(out) or any(len(a) != len(b) for a, b in zip(model, out)):
        return "shape differs", 0
    p = c["p"] if c["kind"] == "refine" else 1
    r = p // 2
    ts = M.tol_scale(c.get("dtype", "float32"))
    for s, (ms, os_) in enumerate(zip(model, out)):
        for ch, ((mpt, mv), (pt, v)) in enumerate(zip(ms, os_)):
            if float(core.frac(mv)) != v:
                return f"map ({s},{ch}): value impl {v} model {float(core.frac(mv))}", 0
            if mpt is None:
                if c["kind"] == "refine" and v != 0:
                    skipped += 1     # valid peak, zero patch sum: the model's None stands for "inf, NaN or an arbitrary
                    continue         # huge number" (the float sum of kornia's inexact crop may be ~1e-16, not 0): unchecked
                if not (isnan(pt[0]) and isnan(pt[1])):
                    return f"map ({s},{ch}): impl {pt}, model NaN", 0
                continue
            a = [float(core.frac(mpt[0])), float(core.frac(mpt[1]))]
            if c["kind"] != "refine":
                if a != pt:
                    return f"map ({s},{ch}): impl {pt} model {a}", 0
                continue
            # conditioning of the division by the patch sum around the rough cell (tolerance scaling only)
            m = c["cms"][s][ch]
            mx = max(vv for row in m for vv in row)
            x0 = min(j for j in range(len(m[0])) if any(row[j] == mx for row in m))
            y0 = min(i for i, row in enumerate(m) if (row[x0] == mx if fixed else mx in row))
            sm, ab = M.patch_condition_p(m, x0, y0, p)
            cond = float(ab / abs(sm)) if sm != 0 else 1e9
            for u, w in zip(a, pt):
                tol = ts * (ATOL + RTOL * abs(u) + 2e-5 * cond * (abs(u) + r + 1))
                if not (math.isfinite(w) and abs(u - w) <= tol):
                    return f"map ({s},{ch}): impl {pt} model {a}", 0
    return None, skipped


# ---------------------------------------------------------------- Gaussian bumps (a test, labelled as such)
def gaussian_test(run, mods, n):
    """float32 Gaussian bumps with sub-pixel centres: the refined estimate must move
    from the grid cell toward the true centre and not overshoot (error does not grow).
    The sign statement is a theorem about the exact formula (c07_gaussian_*); this
    measures the float implementation."""
    torch, pf = mods
    rng = run.rng
    fails, worst, near, known = 0, 0.0, 0, 0
    for _ in range(n):
        # all sizes 2..7: centred bump unmoved, offset has the sign of the displacement
        # (c07_gaussian_moves_toward_centre_any_patch), no overshoot, half-patch bound
        p = rng.choice(PATCHES + [2, 4, 6])
        even = p % 2 == 0
        r = p // 2
        H, W = rng.randint(2 * r + 4, 18), rng.randint(2 * r + 4, 18)
        sig = rng.choice([0.5, 0.75, 1.0, 1.5, 2.0, 3.0, 4.0])
        ix, iy = rng.randint(r + 1, W - r - 2), rng.randint(r + 1, H - r - 2)
        if rng.random() < 0.3:      # 0 .. r cells from an edge: the patch sticks out of the map (finding F25)
            if rng.random() < 0.7:
                ix = rng.choice([rng.randint(0, r), W - 1 - rng.randint(0, r)])
            if rng.random() < 0.5:
                iy = rng.choice([rng.randint(0, r), H - 1 - rng.randint(0, r)])
        cx, cy = ix + rng.randint(-8, 8) / 16, iy + rng.randint(-8, 8) / 16
        yy, xx = torch.meshgrid(torch.arange(H, dtype=torch.float32), torch.arange(W, dtype=torch.float32),
                                indexing="ij")
        m = torch.exp(-((xx - cx) ** 2 + (yy - cy) ** 2) / (2 * sig * sig)).reshape(1, 1, H, W)
        rough, _ = pf.find_global_peaks(m, threshold=0.05, refinement=None)
        ref, _ = pf.find_global_peaks(m, threshold=0.05, refinement="integral", integral_patch_size=p)
        gx, gy = int(rough[0, 0, 0].item()), int(rough[0, 0, 1].item())
        out_of_map = gx < r or gy < r or gx + r >= W or gy + r >= H       # selector F25 at the rough cell
        near += out_of_map
        for a, ctr in enumerate((cx, cy)):
            g, f = rough[0, 0, a].item(), ref[0, 0, a].item()
            d, off = ctr - g, f - g
            overshoot = abs(d - off) > abs(d) + 1e-4      # all sizes (the exact formula never overshoots: off/d <= 1)
            bad = (abs(d) >= 1 / 16 and off * d <= 0) or overshoot or abs(off) > p / 2 + 1e-4
            if abs(d) >= 1 / 16 and not out_of_map:
                worst = max(worst, off / d)
            if bad and out_of_map:
                known += 1
            elif bad:
                fails += 1
            if bad:
                run.violation("failing-input", {"case": {"kind": "gaussian", "H": H, "W": W, "sigma": sig,
                                                         "centre": [cx, cy], "p": p},
                                                "oracle": f"axis {a}: true offset {d}, refinement moved by {off}"},
                              selector=SEL_F25 if out_of_map else None)
    run.count("gaussian_bumps_tested", n)
    run.count("gaussian_bumps_with_patch_out_of_map", near)
    run.notes.append(f"test (not proof): {n} float32 Gaussian bumps, sub-pixel centres k/16, sigma 0.5..4, p in 2..7: "
                     f"{fails} failures of 'offset has the sign of the displacement, does not overshoot' with the patch "
                     f"inside the map; {near} bumps had the patch sticking out of the map (F25), {known} axis failures there "
                     f"(known finding); largest offset/displacement ratio {worst:.4f}")


# ---------------------------------------------------------------- public entry points (layers)
GRID_MAXIMA = [F(7, 8), F(5, 32), F(1, 16), F(1, 4), F(0), F(-1, 32)]


def layer_grid():
    """A fixed batch (2 samples x 3 channels, maxima 7/8, 5/32, 1/16, 1/4, 0, -1/32 on a weak
    background) through every entry point x threshold (omitted, 0, equal to a maximum, between,
    above, negative) x refinement (omitted, None, integral, other) — the same on every seed."""
    H, W = 5, 6
    spots = [(1, 2), (4, 5), (0, 0), (2, 3), (3, 1), (4, 0)]
    maps = []
    for k, (mx, (y, x)) in enumerate(zip(GRID_MAXIMA, spots)):
        if mx > 0:       # weak positive background, strictly below every positive maximum
            m = [[F((i * W + j + k) % 2, 128) for j in range(W)] for i in range(H)]
        else:            # strictly below a zero / negative maximum
            m = [[mx - F(1, 32) - F((i * W + j + k) % 3, 64) for j in range(W)] for i in range(H)]
        m[y][x] = mx
        maps.append(m)
    cms = [maps[0:3], maps[3:6]]
    out = []
    for entry in ("find_instance_peaks", "single_instance", "function_kw"):
        for thr in (None, "0", "5/32", "3/16", "1/4", "1", "-1/8"):
            for ref, p in (("omitted", None), ("none", 3), ("integral", None), ("integral", 4), ("local", 3)):
                c = {"kind": "layer", "entry": entry, "cms": cms, "family": "option_grid", "dtype": "float32",
                     "opts": {"thr": thr, "refinement": ref, "p": p}}
                if entry != "function_kw":
                    i = len(out)
                    c["opts"].update({"stride": (1, 2, 4)[i % 3], "scale": (None, "1", "1/2", "2")[i % 4],
                                      "return_confmaps": i % 5 == 0,
                                      "max_stride": (1, 2)[i % 2] if entry == "find_instance_peaks" else 1})
                    c["net"] = "stub" if c["opts"]["max_stride"] != 1 or i % 3 == 0 else "identity"
                    c["effs"] = [("1", "1/2", "2")[i % 3], ("1", "3/4")[i % 2]]
                out.append(c)
    return out


def check_layers(run, fixed, thorough):
    """FindInstancePeaks / SingleInstanceInferenceModel / find_global_peaks(**kwargs): tie to
    Layer.run and the property's oracle at the configured options."""
    lmods = L.load_mods()
    cases = layer_grid()
    n_grid = len(cases)
    n = n_grid + (1500 if thorough else 260)
    while len(cases) < n:
        cases.append(L.gen_case(run.rng, thorough))
    cases = [L.finish_case(c, lmods) for c in cases]
    model = core.coq_eval_sharded(L.PREAMBLE, [L.term(c, fixed, lmods) for c in cases], L.RUN, L.RENDER,
                                  shard=100, jobs=12)
    disagree, skipped, dist = 0, 0, {}
    for c, m in zip(cases, model):
        e = L.effective(c, lmods)
        o = c["opts"]
        for key in ("entry:" + c["entry"], "thr:" + ("omitted" if o["thr"] is None else ("zero" if F(o["thr"]) == 0 else "other")),
                    "refinement:" + o["refinement"], "p:" + str(o["p"]), "net:" + c.get("net", "-"),
                    "input_scale:" + str(o.get("scale", "-")), "stride:" + str(o.get("stride", "-"))):
            dist[key] = dist.get(key, 0) + 1
        flat = [mm for smp in c["cms"] for mm in smp]
        nvalid = sum(1 for mm in flat if max(v for row in mm for v in row) >= e["thr_cmp"])
        dist["valid_channels"] = dist.get("valid_channels", 0) + nvalid
        dist["invalid_channels"] = dist.get("invalid_channels", 0) + len(flat) - nvalid
        dist["channels_with_max_in_0_to_0.2"] = dist.get("channels_with_max_in_0_to_0.2", 0) + sum(
            1 for mm in flat if 0 <= max(v for row in mm for v in row) < F(1, 5))
        run.case(L.case_json(c), nontrivial=(nvalid >= 1 and len(flat[0]) * len(flat[0][0]) >= 2))
        extra = {}
        try:
            out = L.run_impl(c, lmods, extra=extra)
            bad = L.oracle(c, out, lmods, extra)
        except Exception as ex:
            run.violation("failing-input", {"case": L.case_json(c), "impl_error": f"{type(ex).__name__}: {ex}"})
            continue
        diff, sk = L.compare(c, m, out, fixed, lmods)
        skipped += sk
        for reason, sel in bad:
            run.violation("failing-input", {"case": L.case_json(c), "oracle": reason, "correspondence": diff,
                                            "observed": out}, selector=sel)
        if diff:
            disagree += 1
            run.proof_broken.append(f"correspondence C07 layer model vs implementation: {diff}; case "
                                    f"{json.dumps(L.case_json(c))[:700]}")
    run.obligation("correspondence: Layer.run (Coq, vm_compute) == FindInstancePeaks.forward / "
                   "SingleInstanceInferenceModel.forward / find_global_peaks(**kwargs) (/repo) on every case",
                   disagree == 0, f"{disagree} disagreements")
    run.coverage["layer_stream"] = {"cases": len(cases), "option_grid_cases": n_grid, "input_distribution": dist,
                                    "disagreements": disagree, "refined_peaks_skipped_zero_patch_sum": skipped}
    for c in cases[n_grid:n_grid + 2]:
        run.sample(L.case_json(c))
    run.trusted.append("the stub / identity network stands for the trained model: the layers are checked on the maps "
                       "it returns (hand-made), not on what a trained network would produce")


def sel_queries(c, fixed, rng):
    """Cells (m, y, x, p) at which the Coq selectors that are premises of the (e), (f), (g) theorems are evaluated:
    the rough cell of every map with the case's patch size, and a random cell with a random size."""
    qs = []
    for smp in c["cms"]:
        for m in smp:
            x0, y0 = L.rough_cell(m, fixed)
            qs.append((m, y0, x0, c.get("p") or rng.choice([2, 3, 4, 5, 6, 7])))
            qs.append((m, rng.randrange(len(m)), rng.randrange(len(m[0])), rng.choice([2, 3, 4, 5, 6, 7])))
    return qs


def sel_lit(qs):
    return core.clist(qs, lambda q: f"({M.cmap_lit(q[0])}, ({q[1]}%nat, {q[2]}%nat, {q[3]}%nat))")


# ---------------------------------------------------------------- check
def load_corpus():
    d = core.CORPUS / "C07"
    js = [json.load(open(f)) for f in sorted(d.glob("*.json"))] if d.exists() else []
    return [case_from_json(j) for j in js if j.get("kind") != "layer"]


def detect_fixed_F2(mods):
    out = impl_rough([[F2_WITNESS]], F(1, 2), mods)[0][0][0]
    return out == [0.0, 1.0], out


def check_box(run):
    """C07/PropsBox.v: the statement proved with the Interval tactic.  Besides the
    classical-reals axioms it depends on the standard library's axiomatised primitive
    63-bit integers (Bignums inside Interval); anything else is refused."""
    rc, out = core.coq_make(targets=["theories/C07/PropsBox.vo"])
    run.obligation("make C07/PropsBox.vo (statement proved with interval arithmetic)", rc == 0, out[-800:] if rc else "")
    if rc != 0:
        return
    res = core.check_props(BOX_FILE)
    if res["rc"] != 0 or res.get("unprinted"):
        run.obligation(f"compile {res['file']}", False, res["log_tail"] or str(res.get("unprinted")))
        return
    nprim = 0
    for n in res["printed"]:
        axs = res["axioms"].get(n, [])
        std = [a for a in axs if a in core.STDLIB_AXIOMS or a.split(".")[-1] in core.STDLIB_AXIOMS]
        prim = [a for a in axs if a.startswith(PRIM_PREFIXES)]
        other = [a for a in axs if a not in std and a not in prim]
        run.obligation(f"theorem {n} (axioms: classical reals + primitive 63-bit integers only)", not other,
                       "; ".join(other))
        run.axioms.update(std)
        nprim = max(nprim, len(prim))
    run.coverage.setdefault("prop_files", []).append({k: res[k] for k in ("file", "rc", "printed", "wall_s")})
    run.trusted.append(f"c07_gaussian_error_does_not_grow_partial and ..._all_sigma_partial (PropsBox.v) are proved with the Interval tactic and "
                       f"additionally depends on {nprim} standard-library declarations of Coq's primitive 63-bit "
                       f"integers (Uint63.*_spec axioms and PrimInt63.* primitives, used by Bignums inside Interval)")


def check(run: core.Run) -> int:
    run.build_and_prove(PROP_FILES)
    check_box(run)
    core.impl_env_setup()
    import torch
    from sleap_nn.inference import peak_finding as pf
    mods = (torch, pf)
    thorough = run.tier == "thorough"
    fixed, wit = detect_fixed_F2(mods)
    run.notes.append(f"F2 witness [[0,1],[1,0]] -> impl reports (x,y)={wit}: the code has the "
                     f"{'repaired (y within the chosen column)' if fixed else 'original (independent argmax)'} behaviour; "
                     f"model evaluated with fixed_F2={fixed}")
    n = 4000 if thorough else 700
    cases = load_corpus()
    n_corpus = len(cases)
    while len(cases) < n:
        cases.append(gen_case(run.rng, thorough))
    if thorough:       # ALL 3x3 maps over {0,1,2}, nine per batch
        maps = list(M.all_3x3_maps())
        thrs = [F(-1), F(0), F(1, 2), F(1), F(3, 2), F(2), F(5, 2)]
        for i in range(0, len(maps), 9):
            blk = maps[i:i + 9]
            cms = [blk[0:3], blk[3:6], blk[6:9]]
            cases.append({"kind": "rough", "cms": cms, "thr": thrs[(i // 9) % len(thrs)], "family": "exhaustive_3x3"})
            cases.append({"kind": "refine", "cms": cms, "thr": thrs[(i // 9 + 3) % len(thrs)],
                          "p": (3, 2, 4)[(i // 9) % 3], "family": "exhaustive_3x3"})
    terms = [term(c, fixed) for c in cases]
    sel_terms = ["GSelF2 " + core.clist([m for smp in c["cms"] for m in smp], M.cmap_lit) for c in cases]
    queries = [sel_queries(c, fixed, run.rng) for c in cases]
    f9_terms = ["GSelF9 " + sel_lit(qs) for qs in queries]
    f25_terms = ["GSelF25 " + sel_lit(qs) for qs in queries]
    model = core.coq_eval_sharded(PREAMBLE, terms + sel_terms + f9_terms + f25_terms, RUN, RENDER, shard=100, jobs=12)
    n_c = len(cases)
    model, sels, f9s, f25s = model[:n_c], model[n_c:2 * n_c], model[2 * n_c:3 * n_c], model[3 * n_c:]
    disagree, sel_disagree, skipped, dist = 0, 0, 0, {}
    sel9_disagree = sel25_disagree = n_f9 = n_f25 = 0
    for c, qs, a9, a25 in zip(cases, queries, f9s, f25s):
        py9 = [M.selector_F9(m, x, y, p // 2) for (m, y, x, p) in qs]
        py25 = [M.patch_sticks_out(m, x, y, p) for (m, y, x, p) in qs]
        n_f9 += sum(py9)
        n_f25 += sum(py25)
        if a9 != py9:
            sel9_disagree += 1
            run.proof_broken.append(f"selector_F9_p (Coq) != oracle selector_F9 on case {json.dumps(case_json(c))[:400]}")
        if a25 != py25:
            sel25_disagree += 1
            run.proof_broken.append(f"selector_F25 (Coq) != oracle patch_sticks_out on case {json.dumps(case_json(c))[:400]}")
    run.obligation("selector_F9_p (Coq, premise of the (e) theorems) == the oracle's selector_F9 at the rough cell and a "
                   "random cell of every generated map", sel9_disagree == 0, f"{sel9_disagree} disagreements")
    run.obligation("selector_F25 (Coq, premise of the (f)/(g) theorems) == the oracle's patch_sticks_out at the same cells",
                   sel25_disagree == 0, f"{sel25_disagree} disagreements")
    dist["selector_queries"] = sum(len(q) for q in queries)
    dist["selector_F9_true"], dist["selector_F25_true"] = n_f9, n_f25
    for c, m, sel in zip(cases, model, sels):
        for key in (c["kind"], "family:" + c.get("family", "-"), f"p={c.get('p', '-')}",
                    f"B{len(c['cms'])}C{len(c['cms'][0])}", "dtype:" + c.get("dtype", "-")):
            dist[key] = dist.get(key, 0) + 1
        flat = [mm for smp in c["cms"] for mm in smp]
        pysel = [selector_F2(mm) for mm in flat]
        dist["maps_in_F2_tie_class"] = dist.get("maps_in_F2_tie_class", 0) + sum(pysel)
        nvalid = sum(1 for ms in m for (pt, v) in ms if pt is not None)
        dist["valid_channels"] = dist.get("valid_channels", 0) + nvalid
        dist["invalid_channels"] = dist.get("invalid_channels", 0) + len(flat) - nvalid
        run.case(case_json(c), nontrivial=(nvalid >= 1 and len(flat[0]) * len(flat[0][0]) >= 2))
        if sel != pysel:
            sel_disagree += 1
            run.proof_broken.append(f"selector_F2 (Coq) != oracle selector on case {json.dumps(case_json(c))[:400]}")
        try:
            out = run_impl(c, mods)
        except Exception as e:
            run.violation("failing-input", {"case": case_json(c), "impl_error": f"{type(e).__name__}: {e}"})
            continue
        bad = oracle(c, out, mods)
        diff, sk = compare(c, m, out, fixed)
        skipped += sk
        if diff:
            disagree += 1
        for reason, sel in bad:
            run.violation("failing-input", {"case": case_json(c), "oracle": reason, "correspondence": diff,
                                            "observed": out}, selector=sel)
        if diff:
            run.proof_broken.append(f"correspondence C07 model vs implementation: {diff}; case "
                                    f"{json.dumps(case_json(c))[:700]}")
    run.obligation("correspondence: Global.run (Coq, vm_compute) == find_global_peaks_rough / find_global_peaks "
                   "(/repo) on every case", disagree == 0, f"{disagree} disagreements")
    run.obligation("selector_F2 (Coq) == the oracle's selector on every generated map", sel_disagree == 0,
                   f"{sel_disagree} disagreements")
    check_layers(run, fixed, thorough)
    gaussian_test(run, mods, 1500 if thorough else 150)
    run.coverage.update({
        "input_distribution": dist, "disagreements": disagree, "fixed_F2_detected": fixed,
        "refined_peaks_skipped_zero_patch_sum": skipped, "corpus_cases": n_corpus,
        "rule": "case = (entry point, batch of maps, threshold, patch size); non-trivial = at least one channel at or "
                "above the threshold and the map has >= 2 cells; distinct by full case content",
        "tolerance": {"atol": ATOL, "rtol": RTOL, "note": "rough coordinates, values and NaN pattern exact; refined "
                      "coordinates within atol+rtol|a| widened by the conditioning of the division by the patch sum"},
    })
    for c in cases[n_corpus:n_corpus + 3]:
        run.sample(case_json(c))
    run.trusted += [
        "torch.max(dim) returns the first index among tied maxima (modelled; tied by the correspondence run)",
        "kornia crop_and_resize modelled as exact pixels (odd patch sizes) / mean of the 2x2 surrounding cells at half-pixel "
        "positions (even patch sizes), 0 outside the map (see C06; tied on every run)",
        "the Gaussian clause is proved for the exact real-valued formula; float32 Gaussian bumps are only measured",
    ]
    # NaN cells are outside the property's domain ("the maximum" of such a map is undefined); logged only
    o = canon(pf.find_global_peaks_rough(torch.tensor([[[[0., float("nan")], [2., 0.]]]]), threshold=0.5))[0][0]
    run.notes.append(f"observation (outside the domain): a map holding a NaN cell: torch.max propagates NaN, so the NaN cell "
                     f"is reported with value NaN and is never masked by the threshold: [[0,nan],[2,0]] -> {o}")
    run.assumptions += ["map values finite (no NaN/inf); rectangular batches with B,C,H,W >= 1; float32 / float64 / float16 "
                        "inputs (float16 with a singleton axis makes kornia raise in the refinement: kept out, see C06)",
                        "`thr` in the model, the theorems and the oracle is the threshold AS THE CODE COMPARES IT "
                        "(`max_values < threshold` is evaluated in the map's dtype): the caller's Python float rounded to "
                        "float32 / float16 / float64 (c06_maps.thr_in_dtype); float32(0.7) < 0.7, float16(0.2) < 0.2",
                        "a model point None with a non-zero value (zero patch sum) stands for 'inf, NaN or an arbitrary huge "
                        "number' (kornia's crop is inexact: the float sum may be ~1e-16) and is not compared (counted as "
                        "refined_peaks_skipped_zero_patch_sum)",
                        "integral_patch_size >= 2, odd or even (size 1 is a single cell: the Gaussian clause cannot hold "
                        "for any implementation and kornia raises on the degenerate box)"]
    return run.finish()


def replay(run: core.Run, path: str) -> int:
    core.impl_env_setup()
    import torch
    from sleap_nn.inference import peak_finding as pf
    mods = (torch, pf)
    rep = json.load(open(path))
    if rep["case"].get("kind") == "gaussian":
        print(json.dumps({"oracle": rep.get("oracle"), "note": "re-run ./check C07 with the recorded seed"}))
        return 1
    if rep["case"].get("kind") == "layer":
        lmods = L.load_mods()
        c = L.case_from_json(rep["case"])
        extra = {}
        out = L.run_impl(c, lmods, extra=extra)
        bad = L.oracle(c, out, lmods, extra)
        print(json.dumps({"oracle": bad, "observed": out}, default=str))
        return 1 if bad else 0
    c = case_from_json(rep["case"])
    out = run_impl(c, mods)
    bad = oracle(c, out, mods)
    print(json.dumps({"oracle": bad, "observed": out}, default=str))
    return 1 if bad else 0
