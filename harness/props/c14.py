"""C14 — every valid model configuration yields outputs of the contracted shape;
evaluation-mode outputs are deterministic, independent of earlier calls and of
the other frames in the batch.

Model: coq/theories/C14/Shapes.v (shape calculus over (C,H,W); constructors and
forward methods of architectures/{common,encoder_decoder,unet,convnext,swint,
heads,model}.py; the pooling layer's first-call mutation as explicit state).
Theorems: coq/theories/C14/Props.v.

Tie (every run): the REAL `Model` is built for generated configurations
 * on torch's "meta" device (the real constructors and forward methods run, torch
   propagates shapes and raises the same channel/size errors, no arithmetic), so
   that even the 1536-channel presets cost milliseconds, and
 * on the CPU with real weights for a subset (shapes must equal the meta run;
   numeric determinism / call-history / batch independence are measured there),
and compared with the Coq model (vm_compute inside coqc): construction success,
every Conv2d/ConvTranspose2d's (in, out, kernel, stride) in registration order,
`backbone.dec.current_strides`, and for a *sequence* of calls on one instance the
per-head output shapes or "raises".  The stateful pooling layer and the UNet
encoder are also compared stand-alone on odd sizes (where the state matters).

Also compared on every run: the predicates valid_config / in_domain / selectors (Coq == Python) on
every generated call and on deliberately *invalid* configurations (one field spoiled; classification
only, the implementation is not run on them), and Shapes.target_shape against the shapes the repo's
target generators produce, on sizes that are multiples of the stride and on sizes that are not.

Variants: /repo HEAD (current tree) has the head-rule repair 14997bd and the repairs F17 5fcfc16, F18
9a2daa4, F41 f15d414; detect_fixed / detect_fx find out by replaying corpus witnesses and the matching
model variant is evaluated.  Open findings: F42 and F44 (selectors below; their failures print
KNOWN-FINDING while the `known:` lines exist, anything else is a VIOLATION).

Oracle (independent of the Coq model): for a valid configuration and an input
whose sides are multiples of the configured max_stride, `Model.forward` must
return one output per head of shape (B, parts | 2*edges | 1, H/os, W/os), equal
to the shape of the targets the repo's own generators produce
(generate_confmaps / generate_multiconfmaps / generate_pafs).
"""
from __future__ import annotations

import copy
import json
import math
from fractions import Fraction as F

from .. import core

PROP_FILES = [core.THEORIES / "C14" / "Props.v"]
PREAMBLE = ("From SV Require Import C14.Shapes.\nFrom Coq Require Import List ZArith QArith.\n"
            "Import ListNotations.\nOpen Scope Z_scope.\n")
RENDER = "rresult"

MODEL_TYPES = ["single_instance", "centered_instance", "centroid", "bottomup"]
MT_COQ = {"single_instance": "MSingle", "centered_instance": "MCentered", "centroid": "MCentroid",
          "bottomup": "MBottomUp"}
CONVNEXT_TYPES = {"tiny": 0, "small": 1, "base": 2, "large": 3}
SWINT_TYPES = {"tiny": 0, "small": 1, "base": 2}
SWINT_ARCH = {"tiny": (96, [2, 2, 6, 2], [3, 6, 12, 24]), "small": (96, [2, 2, 18, 2], [3, 6, 12, 24]),
              "base": (128, [2, 2, 18, 2], [4, 8, 16, 32])}
CONVNEXT_ARCH = {"tiny": ([3, 3, 9, 3], [96, 192, 384, 768]), "small": ([3, 3, 27, 3], [96, 192, 384, 768]),
                 "base": ([3, 3, 27, 3], [128, 256, 512, 1024]), "large": ([3, 3, 27, 3], [192, 384, 768, 1536])}
SELECTORS = ["unet_no_middle_block", "unet_convs_per_block_lt_2", "head_stride_ge_max_stride",
             "patch_stride_lt_min_output_stride", "configured_max_stride_lt_effective",
             "head_in_channels_rounding", "head_stride_gt_effective_max_stride"]


# ------------------------------------------------------------------ generation
def pow2s(lo, hi):
    return [2 ** k for k in range(lo, hi + 1)]


def gen_heads(rng, n_levels, eff_max, prefer_b_le=None, cap_top=None, p_top=0.06):
    """model type, parts, edges, backbone output stride, head strides (valid: powers of two,
    backbone stride <= every head stride <= max(configured max stride, effective max stride)).
    `cap_top` (log2) > n_levels: the configured max_stride exceeds what the encoder reaches
    (ConvNeXt / Swin-T); head strides are then drawn up to it as well (finding F44)."""
    mt = rng.choice(MODEL_TYPES)
    parts, edges = rng.randint(1, 5), rng.randint(1, 4)
    top = n_levels                          # 2**top == effective max stride
    hi = max(top, cap_top or 0)             # 2**hi == the largest valid head stride
    r = rng.random()
    b = top if r < p_top else rng.randint(0, max(0, top - 1))
    if prefer_b_le is not None and rng.random() < 0.7:
        b = rng.randint(0, prefer_b_le)
    if hi > top and rng.random() < 0.04:
        b = rng.randint(top, hi)            # backbone output stride itself above the encoder's reach
    bos = 2 ** b
    def head_stride():
        t = rng.random()
        if t < 0.6:
            return bos
        if t < 0.6 + p_top:
            return max(eff_max, bos)
        if hi > top and t < 0.6 + p_top + 0.08:
            return 2 ** rng.randint(max(b, top + 1), hi)
        return 2 ** rng.randint(b, max(b, top - 1))
    os_c = head_stride()
    os_p = head_stride() if mt == "bottomup" else os_c
    if rng.random() < 0.8 and min(os_c, os_p) != bos:          # normal form: backbone stride == finest head
        if rng.random() < 0.5 or mt != "bottomup":
            os_c = bos
        else:
            os_p = bos
    return mt, parts, edges, bos, os_c, os_p


def gen_inputs(rng, max_stride, eff, extra_bad):
    """A sequence of 1-3 calls; sides are multiples of the configured max_stride;
    sometimes one call with a side that is not (correspondence only)."""
    cap = max(1, 192 // max_stride)
    n = rng.choice([1, 2, 2, 3, 4])
    seq = [[max_stride * rng.randint(1, min(3, cap)), max_stride * rng.randint(1, min(3, cap))] for _ in range(n)]
    if n >= 3 and rng.random() < 0.5:
        seq[-1] = list(seq[0])                     # come back to the first size after other sizes
    if extra_bad and rng.random() < 0.3:
        h = max_stride * rng.randint(1, 2) + rng.choice([1, max(1, max_stride // 2), max_stride - 1])
        seq.insert(rng.randrange(len(seq) + 1), [h, max_stride * rng.randint(1, 2)])
    return seq


NON_DYADIC_RATES = [1.1, 1.15, 1.2, 1.3, 1.4, 1.6, 1.7, 1.75, 1.9]


def gen_unet(rng, light=False):
    n = rng.randint(1, 4 if light else 6)
    max_stride = 2 ** n
    r = rng.random()
    rate = F(3, 2) if r < 0.38 else F(2) if r < 0.76 else F(1) if r < 0.82 else F(5, 4) if r < 0.88 else \
        F(rng.choice(NON_DYADIC_RATES))     # the exact value of the double: the model computes with that rational
    filters = rng.choice([2, 3, 4, 6, 8] if light else [2, 3, 4, 6, 8, 12, 16, 16, 24, 24, 32, 32, 64, 64, 100])
    s = rng.random()
    stem = None if s < 0.5 else 2 ** rng.randint(0 if s > 0.95 else 1, n)
    cpb = rng.choice([1, 2, 2, 2, 2, 3, 3])
    cfg = {"in_channels": rng.choice([1, 3]), "kernel_size": rng.choice([1, 3, 3, 5, 7]), "filters": filters,
           "filters_rate": str(rate), "rate_as_float": rng.random() < 0.5 or rate.denominator > 8,
           "max_stride": max_stride,
           "convs_per_block": cpb, "stacks": rng.choice([1, 1, 2, 3]), "stem_stride": stem,
           "middle_block": rng.random() < 0.85, "up_interpolate": rng.random() < 0.5}
    mt, parts, edges, bos, os_c, os_p = gen_heads(rng, n, max_stride)
    cfg["output_stride"] = bos
    return {"kind": "model", "bb": "unet", "cfg": cfg, "mt": mt, "parts": parts, "edges": edges,
            "os_c": os_c, "os_p": os_p, "inputs": gen_inputs(rng, max_stride, max_stride, True)}


def gen_tv(rng, bb, light=False):
    sps = rng.choice([2, 2, 4])
    eff = 8 * sps
    if light or rng.random() < 0.35:
        c0 = rng.choice([4, 8, 8, 12, 16])
        depths = [rng.randint(1, 2) for _ in range(4)]
        if bb == "convnext":
            mtype, arch = "custom", {"depths": depths, "channels": [c0 * 2 ** i for i in range(4)]}
        else:
            mtype, arch = "custom", {"embed": c0, "depths": depths, "num_heads": [1, 2, 2, 4]}
    else:
        mtype, arch = rng.choice(sorted(CONVNEXT_TYPES if bb == "convnext" else SWINT_TYPES)), None
    # documented: "always 16"; the encoder reaches eff = 8 * stem_patch_stride.  Configured values below
    # (F42), equal to and above (F44 when a head uses it) the effective one are all drawn.
    r = rng.random()
    max_stride = eff if r < 0.45 else 16 if r < 0.7 else 32 if r < 0.9 else 64 if r < 0.96 else 8
    cfg = {"in_channels": rng.choice([1, 3]), "model_type": mtype, "arch": arch, "kernel_size": rng.choice([3, 3, 1, 5]),
           "filters_rate": "2", "rate_as_float": rng.random() < 0.5, "convs_per_block": 2,
           "up_interpolate": rng.random() < 0.5, "stem_patch_stride": sps, "max_stride": max_stride}
    if bb == "convnext":
        cfg["stem_patch_kernel"] = 4
    else:
        cfg["patch_size"] = [4, 4]
        cfg["window_size"] = [7, 7]
    mt, parts, edges, bos, os_c, os_p = gen_heads(rng, int(math.log2(eff)), eff, prefer_b_le=int(math.log2(sps)),
                                                  cap_top=int(math.log2(max_stride)), p_top=0.12)
    cfg["output_stride"] = bos
    return {"kind": "model", "bb": bb, "cfg": cfg, "mt": mt, "parts": parts, "edges": edges,
            "os_c": os_c, "os_p": os_p, "inputs": gen_inputs(rng, max_stride, eff, True)}


def gen_invalid(rng):
    """A configuration that is NOT valid (one field of a valid one spoiled): only its classification
    (Shapes.valid_config / in_domain == the harness's Python predicates) is compared -- the implementation
    is not run on it (kernel 0 / no channels pass on the meta device and raise on the CPU)."""
    bb = rng.choice(["unet", "unet", "convnext", "swint"])
    c = gen_unet(rng) if bb == "unet" else gen_tv(rng, bb, light=rng.random() < 0.6)
    cfg = c["cfg"]
    muts = ["kernel0", "inch0", "parts0", "edges0", "ms_np2", "os_np2", "os_gt_head", "head_gt_max", "head_np2"]
    muts += ["cpb0", "filters0", "rate_lt1", "ms1", "stem_gt", "stem_np2"] if bb == "unet" else \
        ["rate32", "sps", "stemk", "arch_ratio", "arch_len", "c0_mod4"] + (["nh"] if bb == "swint" else [])
    m = rng.choice(muts)
    if m == "kernel0":
        cfg["kernel_size"] = rng.choice([0, -1])
    elif m == "inch0":
        cfg["in_channels"] = rng.choice([0, -3])
    elif m == "parts0":
        c["parts"] = rng.choice([0, -2])
    elif m == "edges0":
        c["mt"], c["edges"], c["os_p"] = "bottomup", 0, c["os_c"]
    elif m == "ms_np2":
        cfg["max_stride"] = rng.choice([12, 24, 48])
    elif m == "os_np2":
        cfg["output_stride"] = 3
    elif m == "os_gt_head":
        cfg["output_stride"] = 2 * min(head_strides(c))
    elif m == "head_gt_max":
        c["os_c"] = 2 * max(cfg["max_stride"], eff_max_stride(c))
    elif m == "head_np2":
        c["os_c"] = rng.choice([3, 6, 12])
    elif m == "cpb0":
        cfg["convs_per_block"] = 0
    elif m == "filters0":
        cfg["filters"] = 0
    elif m == "rate_lt1":
        cfg["filters_rate"], cfg["rate_as_float"] = "1/2", True
    elif m == "ms1":
        cfg["max_stride"] = 1
    elif m == "stem_gt":
        cfg["stem_stride"] = 2 * cfg["max_stride"]
    elif m == "stem_np2":
        cfg["stem_stride"] = 3
    elif m == "rate32":
        cfg["filters_rate"], cfg["rate_as_float"] = "3/2", True
    elif m == "sps":
        cfg["stem_patch_stride"] = rng.choice([1, 3, 8])
    elif m == "stemk":
        if bb == "convnext":
            cfg["stem_patch_kernel"] = rng.choice([2, 3, 7])
        else:
            cfg["patch_size"] = [2, 2]
    else:
        cfg["model_type"] = "custom"
        if bb == "convnext":
            arch = {"depths": [1, 2, 1, 1], "channels": [8, 16, 32, 64]}
            if m == "arch_ratio":
                arch["channels"][rng.randint(1, 3)] += 8
            elif m == "arch_len":
                arch = {"depths": [1, 2, 1], "channels": [8, 16, 32]}
            else:
                arch["channels"] = [6, 12, 24, 48]
        else:
            arch = {"embed": 8, "depths": [1, 2, 1, 1], "num_heads": [1, 2, 2, 4]}
            if m == "arch_ratio" or m == "nh":
                arch["num_heads"] = [1, 2, 3, 4]
            elif m == "arch_len":
                arch = {"embed": 8, "depths": [1, 2, 1], "num_heads": [1, 2, 2]}
            else:
                arch["embed"] = 6
        cfg["arch"] = arch
    c["inputs"] = [[64, 64], [48, 36]]
    c["classify_only"] = m
    return c


def grid_unet():
    """The finite grid of Props.c14_unet_grid, one case per (filters, rate, max_stride,
    backbone stride, second head stride): bottom-up heads at (backbone stride, t)."""
    out = []
    for filters in (16, 24, 32, 64):
        for rate in (F(3, 2), F(2)):
            for n in range(1, 7):
                for b in range(0, n):
                    for t in range(b, n):
                        ms = 2 ** n
                        cfg = {"in_channels": 1, "kernel_size": 3, "filters": filters, "filters_rate": str(rate),
                               "rate_as_float": True, "max_stride": ms, "convs_per_block": 2, "stacks": 1,
                               "stem_stride": None, "middle_block": True, "up_interpolate": (n + b + t) % 2 == 0,
                               "output_stride": 2 ** b}
                        out.append({"kind": "model", "bb": "unet", "cfg": cfg, "mt": "bottomup", "parts": 3,
                                    "edges": 2, "os_c": 2 ** b, "os_p": 2 ** t, "inputs": [[ms, 2 * ms]]})
    return out


# ------------------------------------------------------------------ Coq terms
def cq(s):
    f = F(s)
    return f"({f.numerator}#{f.denominator})%Q"


def cfg_term(c):
    cfg, bb = c["cfg"], c["bb"]
    b = core.cbool
    if bb == "unet":
        stem = "None" if cfg["stem_stride"] is None else f"(Some {cfg['stem_stride']})"
        return ("(CfgUNet {| u_in_channels := %d; u_kernel := %d; u_filters := %d; u_rate := %s; u_max_stride := %d; "
                "u_stem_stride := %s; u_middle := %s; u_up_interp := %s; u_convs_per_block := %d; "
                "u_output_stride := %d |})" % (
                    cfg["in_channels"], cfg["kernel_size"], cfg["filters"], cq(cfg["filters_rate"]), cfg["max_stride"],
                    stem, b(cfg["middle_block"]), b(cfg["up_interpolate"]), cfg["convs_per_block"],
                    cfg["output_stride"]))
    zl = lambda l: core.clist(l, str)
    if bb == "convnext":
        mtn = CONVNEXT_TYPES.get(cfg["model_type"], 9)
        arch = "None" if cfg["arch"] is None else f"(Some ({zl(cfg['arch']['depths'])}, {zl(cfg['arch']['channels'])}))"
        return ("(CfgConvNext {| c_model_type := %d%%nat; c_arch := %s; c_in_channels := %d; c_kernel := %d; "
                "c_stem_kernel := %d; c_stem_stride := %d; c_rate := %s; c_up_interp := %s; c_output_stride := %d; "
                "c_max_stride := %d |})" % (
                    mtn, arch, cfg["in_channels"], cfg["kernel_size"], cfg["stem_patch_kernel"],
                    cfg["stem_patch_stride"], cq(cfg["filters_rate"]), b(cfg["up_interpolate"]),
                    cfg["output_stride"], cfg["max_stride"]))
    mtn = SWINT_TYPES.get(cfg["model_type"], 9)
    arch = "None" if cfg["arch"] is None else \
        f"(Some ({cfg['arch']['embed']}, {zl(cfg['arch']['depths'])}, {zl(cfg['arch']['num_heads'])}))"
    return ("(CfgSwinT {| s_model_type := %d%%nat; s_arch := %s; s_in_channels := %d; s_kernel := %d; s_patch := %d; "
            "s_stem_stride := %d; s_rate := %s; s_up_interp := %s; s_output_stride := %d; s_max_stride := %d |})" % (
                mtn, arch, cfg["in_channels"], cfg["kernel_size"], cfg["patch_size"][0], cfg["stem_patch_stride"],
                cq(cfg["filters_rate"]), b(cfg["up_interpolate"]), cfg["output_stride"], cfg["max_stride"]))


def pairs(l):
    return core.clist(l, lambda hw: f"({hw[0]}, {hw[1]})")


FX = {"fx17": False, "fx18": False, "fx41": False, "fx42": False}     # set by detect_fx(): which repairs the code has


def fx_term():
    b = core.cbool
    return ("{| fx17 := %s; fx18 := %s; fx41 := %s; fx42 := %s |}" % (b(FX["fx17"]), b(FX["fx18"]), b(FX["fx41"]), b(FX["fx42"])))


def term(c, fixed):
    if c["kind"] == "pool":
        return f"CPool {pairs(c['sizes'])}"
    if c["kind"] == "encoder":
        inner = cfg_term(c)
        assert inner.startswith("(CfgUNet ")
        return f"CEncoder {fx_term()} {inner[len('(CfgUNet '):-1]} {pairs(c['inputs'])}"
    z = lambda n: f"({n})" if n < 0 else str(n)
    return (f"CModel {core.cbool(fixed)} {fx_term()} {cfg_term(c)} {MT_COQ[c['mt']]} {z(c['parts'])} {z(c['edges'])} "
            f"{z(c['os_c'])} {z(c['os_p'])} {pairs(c['inputs'])}")


# ------------------------------------------------------------------ implementation
def rate_value(cfg):
    f = F(cfg["filters_rate"])
    if f.denominator == 1 and not cfg.get("rate_as_float"):
        return int(f)
    return float(f)


def float_sites_agree(c):
    """The model evaluates int(filters * rate**k), x // rate in exact rationals (rate = the exact value
    of the double); the code in floats.  True iff every such site of this configuration gives the same
    integer both ways (always, for dyadic rates with small numerators).  Configurations where a float
    product rounds across an integer are outside the model's arithmetic: correspondence is skipped for
    them (counted), the oracle still runs."""
    if c["bb"] != "unet":
        return True
    cfg = c["cfg"]
    r, q, filt = rate_value(cfg), F(cfg["filters_rate"]), cfg["filters"]
    n = int(math.log2(cfg["max_stride"])) if cfg["max_stride"] >= 1 else 0
    for k in range(-(n + 2), n + 2):
        try:
            a = int(filt * (r ** k))
        except (OverflowError, ZeroDivisionError):
            return False
        if a != _trunc(F(filt) * q ** k):
            return False
        if int(a // r) != math.floor(F(a) / q):
            return False
    return True


def backbone_conf(c, OmegaConf):
    cfg = dict(c["cfg"])
    cfg["filters_rate"] = rate_value(cfg)
    cfg.pop("rate_as_float", None)
    return OmegaConf.create(cfg)


def head_conf(c, OmegaConf):
    pn = [str(i) for i in range(c["parts"])]
    mt = c["mt"]
    if mt == "single_instance":
        d = {"confmaps": {"part_names": pn, "sigma": 5.0, "output_stride": c["os_c"]}}
    elif mt == "centered_instance":
        d = {"confmaps": {"part_names": pn, "anchor_part": None, "sigma": 5.0, "output_stride": c["os_c"]}}
    elif mt == "centroid":
        d = {"confmaps": {"anchor_part": None, "sigma": 5.0, "output_stride": c["os_c"]}}
    else:
        d = {"confmaps": {"part_names": pn, "sigma": 5.0, "output_stride": c["os_c"], "loss_weight": 1.0},
             "pafs": {"edges": [[str(i), str(i + 1)] for i in range(c["edges"])], "sigma": 15.0,
                      "output_stride": c["os_p"], "loss_weight": 1.0}}
        # the order in which a bottom-up configuration lists its two heads is the user's choice (YAML key
        # order): half of the cases list `pafs` first; which head gets which stride must not depend on it
        if (c["parts"] + c["edges"] + c["os_p"] + len(c.get("inputs", []))) % 2:
            d = {"pafs": d["pafs"], "confmaps": d["confmaps"]}
    return OmegaConf.create(d)


def build_impl(c, mods, device):
    torch, OmegaConf, Model = mods["torch"], mods["OmegaConf"], mods["Model"]
    bconf, hconf = backbone_conf(c, OmegaConf), head_conf(c, OmegaConf)
    if device == "meta":
        with torch.device("meta"):
            m = Model.from_config(c["bb"], bconf, hconf, c["cfg"]["in_channels"], c["mt"])
        # torch's meta kernel for transposed convolution omits the in_channels check the CPU
        # kernel makes ("expected input ... to have N channels"); re-instate it for meta runs.
        def chk(mod, args):
            if args[0].shape[1] != mod.in_channels:
                raise RuntimeError(f"Given transposed=1, expected input to have {mod.in_channels} channels, "
                                   f"but got {args[0].shape[1]} channels instead")
        for mod in m.modules():
            if isinstance(mod, torch.nn.ConvTranspose2d):
                mod.register_forward_pre_hook(chk)
    else:
        m = Model.from_config(c["bb"], bconf, hconf, c["cfg"]["in_channels"], c["mt"])
    return m.eval()


def is_light(c):
    cfg = c["cfg"]
    if c["bb"] == "unet":
        top = cfg["filters"] * F(cfg["filters_rate"]) ** int(math.log2(cfg["max_stride"]))
        return top <= 160 and cfg["max_stride"] <= 32
    return cfg["model_type"] == "custom" and cfg["arch"] is not None


def conv_list(m, torch):
    out = []
    for _, mod in m.named_modules():
        if isinstance(mod, (torch.nn.Conv2d, torch.nn.ConvTranspose2d)):
            out.append([[int(mod.in_channels), int(mod.out_channels)], [int(mod.kernel_size[0]), int(mod.stride[0])]])
    return out


def run_impl_model(c, mods, device="meta"):
    """-> dict(built, convs, strides, calls, err); calls: per input None | [[C,H,W] per head]."""
    torch = mods["torch"]
    try:
        m = build_impl(c, mods, device)
    except Exception as e:                                   # construction raises
        return {"built": False, "convs": [], "strides": [], "calls": [], "err": f"init {type(e).__name__}: {e}"[:200]}
    res = {"built": True, "convs": conv_list(m, torch), "strides": [int(s) for s in m.backbone.dec.current_strides],
           "calls": [], "err": None, "errs": []}
    names = [h.name for h in m.heads]
    for (H, W) in c["inputs"]:
        x = torch.zeros((1, c["cfg"]["in_channels"], H, W), device=device)
        try:
            with torch.no_grad():
                o = m(x)
            if sorted(o.keys()) != sorted(names) or any(v.shape[0] != 1 or v.dim() != 4 for v in o.values()):
                res["calls"].append("bad-structure %s" % {k: tuple(v.shape) for k, v in o.items()})
            else:
                res["calls"].append([[int(d) for d in o[nm].shape[1:]] for nm in names])
            res["errs"].append(None)
        except Exception as e:
            res["calls"].append(None)
            res["errs"].append(f"{type(e).__name__}: {e}"[:160])
    return res


def run_impl_pool(c, mods):
    torch = mods["torch"]
    from sleap_nn.architectures.common import MaxPool2dWithSamePadding
    layer = MaxPool2dWithSamePadding(kernel_size=2, stride=2, padding="same")
    calls = []
    for (h, w) in c["sizes"]:
        try:
            y = layer(torch.zeros((1, 1, h, w)))
            calls.append([[int(d) for d in y.shape[1:]]])
        except Exception:
            calls.append(None)
    return {"built": True, "convs": [], "strides": [], "calls": calls}


def run_impl_encoder(c, mods):
    torch, OmegaConf = mods["torch"], mods["OmegaConf"]
    from sleap_nn.architectures.unet import UNet
    try:
        with torch.device("meta"):
            net = UNet.from_config(backbone_conf(c, OmegaConf)).eval()
    except Exception:
        return {"built": False, "convs": [], "strides": [], "calls": []}
    calls = []
    for (h, w) in c["inputs"]:
        try:
            with torch.no_grad():
                x, feats = net.enc(torch.zeros((1, c["cfg"]["in_channels"], h, w), device="meta"))
            calls.append([[int(d) for d in t.shape[1:]] for t in [x] + list(feats)])
        except Exception:
            calls.append(None)
    return {"built": True, "convs": [], "strides": [], "calls": calls}


# ------------------------------------------------------------------ the property, executable
def eff_max_stride(c):
    cfg = c["cfg"]
    if c["bb"] == "unet":
        return cfg["max_stride"]
    if c["bb"] == "convnext":
        stages = 4 if cfg["model_type"] in CONVNEXT_TYPES or cfg["arch"] is None else len(cfg["arch"]["channels"])
    else:
        stages = 4 if cfg["model_type"] in SWINT_TYPES or cfg["arch"] is None else len(cfg["arch"]["depths"])
    return cfg["stem_patch_stride"] * 2 ** (stages - 1)


def head_strides(c):
    return [c["os_c"], c["os_p"]] if c["mt"] == "bottomup" else [c["os_c"]]


def head_channels(c):
    return {"single_instance": [c["parts"]], "centered_instance": [c["parts"]], "centroid": [1],
            "bottomup": [c["parts"], 2 * c["edges"]]}[c["mt"]]


def is_pow2(x):
    return isinstance(x, int) and x >= 1 and x & (x - 1) == 0


def valid_config(c):
    """Accepted by the repo's config classes and inside the documented ranges (the
    property's 'valid combination'): strides are powers of two, backbone output stride
    <= every head stride <= max stride, stem stride <= max stride; for the
    torchvision-derived backbones the channel ratio of the encoder (2) is the filters_rate."""
    cfg = c["cfg"]
    hs = head_strides(c)
    # sizes the constructors need positive (Shapes.positive_sizes): kernel_size 0, in_channels <= 0 or a
    # head without channels make torch raise on the CPU (the meta device does not notice kernel 0 / 0 channels)
    if not (cfg["kernel_size"] > 0 and cfg["in_channels"] > 0 and c["parts"] > 0
            and (c["mt"] != "bottomup" or c["edges"] > 0)):
        return False
    if not all(is_pow2(s) for s in hs + [cfg["output_stride"], cfg["max_stride"]]):
        return False
    if cfg["output_stride"] > min(hs) or max(hs) > max(cfg["max_stride"], eff_max_stride(c)):
        return False
    if c["bb"] == "unet":
        st = cfg["stem_stride"]
        if st is not None and not (is_pow2(st) and st <= cfg["max_stride"]):
            return False
        return cfg["max_stride"] >= 2 and cfg["convs_per_block"] >= 1 and cfg["filters"] >= 1 \
            and F(cfg["filters_rate"]) >= 1
    if not (F(cfg["filters_rate"]) == 2 and cfg["stem_patch_stride"] in (2, 4)):
        return False
    if c["bb"] == "convnext":
        if cfg["stem_patch_kernel"] != 4:
            return False
        ds, ch = CONVNEXT_ARCH[cfg["model_type"]] if cfg["model_type"] in CONVNEXT_ARCH else \
            (CONVNEXT_ARCH["tiny"] if cfg["arch"] is None else (cfg["arch"]["depths"], cfg["arch"]["channels"]))
        return len(ds) == 4 and len(ch) == 4 and ch[0] > 0 and ch[0] % 4 == 0 and \
            ch[1:] == [2 * ch[0], 4 * ch[0], 8 * ch[0]]
    if cfg["patch_size"] != [4, 4]:
        return False
    E, ds, nh = SWINT_ARCH[cfg["model_type"]] if cfg["model_type"] in SWINT_ARCH else \
        (SWINT_ARCH["tiny"] if cfg["arch"] is None else (cfg["arch"]["embed"], cfg["arch"]["depths"], cfg["arch"]["num_heads"]))
    return len(ds) == 4 and len(nh) == 4 and E > 0 and E % 4 == 0 and \
        all((E * 2 ** i) % nh[i] == 0 for i in range(4))


def model_max_stride(c):
    """The max stride of the assembled model: the configured one; with the fx42 repair the
    ConvNeXt / Swin-T wrappers report max(configured, stem_patch_stride * 2**down_blocks)."""
    ms = c["cfg"]["max_stride"]
    if FX["fx42"] and c["bb"] != "unet":
        ms = max(ms, eff_max_stride(c))
    return ms


def in_domain(c, H, W):
    ms = model_max_stride(c)
    return H > 0 and W > 0 and H % ms == 0 and W % ms == 0


def _trunc(q):
    return math.floor(q) if q >= 0 else math.ceil(q)


def _round_half_even(q):
    f = math.floor(q)
    d = q - f
    if d < F(1, 2):
        return f
    if d > F(1, 2):
        return f + 1
    return f if f % 2 == 0 else f + 1


def unet_head_in_mismatch(c):
    """F43 selector: exact-arithmetic replay of Model.__init__'s head in_channels against the
    channel count of the decoder block serving the head."""
    cfg = c["cfg"]
    r, filt = F(cfg["filters_rate"]), cfg["filters"]
    n = int(math.log2(cfg["max_stride"]))
    b = int(math.log2(cfg["output_stride"]))
    if not 0 <= b < n or min(head_strides(c)) < cfg["output_stride"]:
        return False
    u = n - b
    f = lambda k: _trunc(filt * r ** k)
    base = _round_half_even(F(f(n)) / r ** u)
    min_os = min(head_strides(c) + [cfg["output_stride"]])
    for s in head_strides(c):
        t = int(math.log2(s))
        if not b <= t < n:
            continue
        inc = base if s == min_os else _trunc(base * r ** (t - b))
        if inc != f(t):
            return True
    return False


SELECTOR_ORDER = ["unet_no_middle_block", "unet_convs_per_block_lt_2", "patch_stride_lt_min_output_stride",
                  "head_stride_ge_max_stride", "configured_max_stride_lt_effective", "head_in_channels_rounding",
                  "head_stride_gt_effective_max_stride"]
#                  = Shapes.sel_vector:  F17, F18, F20, F41, F42, F43, F44


def selector_vector(c, H, W):
    """The seven finding selectors (same order as Shapes.sel_vector), each evaluated
    independently of the others and of the Coq model.  F17, F18, F20, F41, F43 are fixed in /repo
    (historic: a detected repair withdraws the excuse); F42 and F44 are open."""
    cfg, bb = c["cfg"], c["bb"]
    eff = eff_max_stride(c)
    return [
        bb == "unet" and not cfg["middle_block"],
        bb == "unet" and cfg["convs_per_block"] < 2,
        bb != "unet" and cfg["stem_patch_stride"] < min(head_strides(c) + [cfg["output_stride"]]),
        any(s >= eff for s in head_strides(c)),
        bb != "unet" and cfg["max_stride"] < eff and not (H % eff == 0 and W % eff == 0),
        bb == "unet" and unet_head_in_mismatch(c),
        bb != "unet" and any(s > eff for s in head_strides(c)),
    ]


HEAD_RULE_REPAIRED = {"on": False}      # set by check()/replay() from detect_fixed(): F20 and F43 are then no excuse


def selector_of(c, H, W):
    """The known-finding selector a failing (configuration, input) falls under, or None.
    With the repaired head in_channels rule (F20/F43 fixed in the code under test) those two
    selectors are not offered: a failure is attributed to one of the remaining ones or to none."""
    repaired = set()
    vec = selector_vector(c, H, W)
    if vec[6]:          # F44 fails whatever the flags are: attribute it before its historic superset F41
        return SELECTOR_ORDER[6]
    if HEAD_RULE_REPAIRED["on"]:
        repaired |= {"patch_stride_lt_min_output_stride", "head_in_channels_rounding"}
    for k, name in (("fx17", "unet_no_middle_block"), ("fx18", "unet_convs_per_block_lt_2"),
                    ("fx41", "head_stride_ge_max_stride"), ("fx42", "configured_max_stride_lt_effective")):
        if FX[k]:
            repaired.add(name)
    for name, on in zip(SELECTOR_ORDER, vec):
        if on and name not in repaired:
            return name
    return None


def target_shapes(c, H, W, mods):
    """Shapes (C, h, w) of the training targets the repo's data pipeline generates for
    this head configuration on an H x W image."""
    torch = mods["torch"]
    from sleap_nn.data import confidence_maps as cm, edge_maps as em
    n = max(2, c["parts"])
    inst = torch.ones((1, 1, n, 2))
    mt = c["mt"]
    if mt in ("single_instance", "centered_instance"):
        t = cm.generate_confmaps(inst[:, :, :c["parts"]].clone(), (H, W), 1.5, c["os_c"])
        return [list(t.shape[-3:])]
    if mt == "centroid":
        t = cm.generate_multiconfmaps(inst[:, :, 0].clone(), (H, W), 1, 1.5, c["os_c"], True)
        return [list(t.shape[-3:])]
    t1 = cm.generate_multiconfmaps(inst[:, :, :c["parts"]].clone(), (H, W), 1, 1.5, c["os_c"], False)
    nn_ = c["edges"] + 1
    inst2 = torch.ones((1, 1, nn_, 2))
    ei = torch.tensor([[i, i + 1] for i in range(c["edges"])])
    t2 = em.generate_pafs(inst2, (H, W), 15.0, c["os_p"], ei, True)
    return [list(t1.shape[-3:]), list(t2.shape[-3:])]


def contracted(c, H, W):
    return [[ch, H // s, W // s] for ch, s in zip(head_channels(c), head_strides(c))]


def oracle_call(c, H, W, impl_call, built, mods, tcache):
    """None if the property holds for this call, else a reason."""
    want = contracted(c, H, W)
    if not built:
        return "model construction raises"
    if impl_call is None:
        return "Model.forward raises"
    if impl_call != want:
        return f"output shapes {impl_call} != contracted {want}"
    key = (c["mt"], c["parts"], c["edges"], c["os_c"], c["os_p"], H, W)
    if key not in tcache:
        tcache[key] = target_shapes(c, H, W, mods)
    if tcache[key] != impl_call:
        return f"output shapes {impl_call} != data-pipeline target shapes {tcache[key]}"
    return None


# ------------------------------------------------------------------ numeric: determinism, history, batch
def numeric_check(c, mods, seed):
    """Real weights on the CPU, eval mode.  Returns (reason|None, info)."""
    torch = mods["torch"]
    torch.manual_seed(seed)
    m = build_impl(c, mods, "cpu")
    m_fresh = copy.deepcopy(m)                 # never called before: pooling layers still hold "same"
    ms = c["cfg"]["max_stride"]
    eff = eff_max_stride(c)
    step = max(ms, eff)
    g = torch.Generator().manual_seed(seed + 1)
    ch = c["cfg"]["in_channels"]
    x1 = torch.rand((2, ch, step, 2 * step), generator=g)
    x1[1] = x1[1] * (0.02 if seed % 2 else 40.0)         # mixed-intensity batch: a dim / a bright frame beside a normal one
    x2 = torch.rand((1, ch, 2 * step, step), generator=g)
    x3 = torch.rand((3, ch, 2 * step, 2 * step), generator=g) * 7.0
    info = {}
    m_fresh2 = copy.deepcopy(m)
    m_fresh3 = copy.deepcopy(m)
    with torch.no_grad():
        a = m(x1)
        b = m(x2)
        m.train()                                         # a training-mode call in between (no optimiser step)
        m(x3)
        m.eval()
        c3 = m(x3)
        a2 = m(x1)
        bf = m_fresh(x2)
        c3f = m_fresh2(x3)                                # first call of a fresh instance on the third size
        m_fresh3(x3)
        af = m_fresh3(x1)                                 # fresh instance that saw the LARGER size first
        singles = [m(x1[k:k + 1]) for k in range(2)]
        swapped = m(torch.flip(x1, dims=[0]))
        other = x1.clone()
        other[0] = torch.rand(x1[0].shape, generator=g) * 3.0
        mate = m(other)                                   # frame 1 beside a different batch-mate
    for k in a:
        if not torch.equal(a[k], a2[k]):
            return f"{k}: two calls on the same input differ (max {float((a[k] - a2[k]).abs().max())})", info
        if not torch.equal(b[k], bf[k]):
            return f"{k}: output depends on an earlier call with another input size " \
                   f"(max {float((b[k] - bf[k]).abs().max())})", info
        if not torch.equal(c3[k], c3f[k]):
            return f"{k}: output depends on earlier calls (other sizes, a train() call) " \
                   f"(max {float((c3[k] - c3f[k]).abs().max())})", info
        if not torch.equal(a[k], af[k]):
            return f"{k}: output depends on the size of the first call of the instance " \
                   f"(max {float((a[k] - af[k]).abs().max())})", info
        dm = float((a[k][1] - mate[k][1]).abs().max())
        if dm > 2e-5 + 3e-4 * float(a[k][1].abs().max()):
            return f"{k}: frame 1 changes with its batch-mate (diff {dm})", info
        if not bool(torch.isfinite(a[k]).all()):
            return f"{k}: non-finite output", info
        for i in range(2):
            d = float((a[k][i:i + 1] - singles[i][k]).abs().max())
            d2 = float((a[k][i] - swapped[k][1 - i]).abs().max())
            info["max_batch_diff"] = max(info.get("max_batch_diff", 0.0), d, d2)
            tol = 2e-5 + 3e-4 * float(a[k][i].abs().max())
            if d > tol or d2 > tol:
                return f"{k}: frame {i} depends on the rest of the batch (diff {max(d, d2)})", info
        shp = [int(v) for v in a[k].shape[1:]]
        info.setdefault("shapes", []).append(shp)
    if [list(v.shape[1:]) for v in c3.values()] != contracted(c, 2 * step, 2 * step):
        return f"cpu output shapes on the third size != contracted {contracted(c, 2 * step, 2 * step)}", info
    want = contracted(c, step, 2 * step)
    if info["shapes"] != want:
        return f"cpu output shapes {info['shapes']} != contracted {want}", info
    return None, info


# ------------------------------------------------------------------ comparison
def canon_model(j):
    built, (convs, strides, calls) = j
    return {"built": built, "convs": convs, "strides": strides, "calls": calls}


def compare(mres, ires):
    if mres["built"] != ires["built"]:
        return f"construction: model {'ok' if mres['built'] else 'raises'}, impl {'ok' if ires['built'] else 'raises'}" \
               f" ({ires.get('err')})"
    if not mres["built"]:
        return None
    if ires["convs"] and mres["convs"] != ires["convs"]:
        k = next((i for i, (a, b) in enumerate(zip(mres["convs"], ires["convs"])) if a != b),
                 min(len(mres["convs"]), len(ires["convs"])))
        return f"conv layer #{k}: model {mres['convs'][k:k + 1]} impl {ires['convs'][k:k + 1]} " \
               f"(counts {len(mres['convs'])}/{len(ires['convs'])})"
    if ires["strides"] != [] and mres["strides"] != ires["strides"]:
        return f"current_strides: model {mres['strides']} impl {ires['strides']}"
    if mres["calls"] != ires["calls"]:
        k = next(i for i, (a, b) in enumerate(zip(mres["calls"], ires["calls"])) if a != b)
        return f"call #{k}: model {mres['calls'][k]} impl {ires['calls'][k]}"
    return None


def case_key(c):
    return json.dumps(c, sort_keys=True)


def load_corpus():
    d = core.CORPUS / "C14"
    return [json.load(open(f)) for f in sorted(d.glob("*.json"))] if d.exists() else []


def detect_fixed(mods):
    """Which head in_channels rule does the code have?  Run the F43 witness: the pinned tree
    (before 14997bd) computes 181 for a 182-channel block; the current tree reads the block."""
    w = {"kind": "model", "bb": "unet", "mt": "bottomup", "parts": 3, "edges": 2, "os_c": 16, "os_p": 32,
         "inputs": [], "cfg": {"in_channels": 1, "kernel_size": 3, "filters": 24, "filters_rate": "3/2",
                               "rate_as_float": True, "max_stride": 64, "convs_per_block": 2, "stacks": 1,
                               "stem_stride": None, "middle_block": True, "up_interpolate": True,
                               "output_stride": 16}}
    r = run_impl_model(w, mods)
    return bool(r["built"] and r["convs"] and r["convs"][-1][0][0] == 182)


def detect_fx(mods):
    """Which of the repairs F17 (5fcfc16), F18 (9a2daa4), F41 (f15d414) -- all in /repo HEAD -- and F42
    (proposed only) does the code under test have?  Replays the four corpus witnesses; a witness that
    meets the contract switches the model to the repaired variant (Shapes.fixes) and withdraws the
    selector as an excuse, so a regression is reported as a VIOLATION."""
    fx = {"fx17": False, "fx18": False, "fx41": False, "fx42": False}
    by = {"F17": "fx17", "F18": "fx18", "F41": "fx41"}
    d = core.CORPUS / "C14"
    for f in sorted(d.glob("*.json")):
        key = next((v for k, v in by.items() if f.name.startswith(k + "_")), None)
        w = json.load(open(f))
        if key:
            r = run_impl_model(w, mods)
            ok = r["built"] and all(call == contracted(w, H, W) for call, (H, W) in zip(r["calls"], w["inputs"]))
            fx[key] = bool(ok and w["inputs"])
        elif f.name.startswith("F42_"):
            try:
                m = build_impl(w, mods, "meta")
                fx["fx42"] = int(getattr(m.backbone, "max_stride", 0)) >= eff_max_stride(w) > w["cfg"]["max_stride"]
            except Exception:
                fx["fx42"] = False
    return fx


def import_mods():
    core.impl_env_setup()
    import warnings
    warnings.filterwarnings("ignore")
    import torch
    from omegaconf import OmegaConf
    from sleap_nn.architectures.model import Model
    return {"torch": torch, "OmegaConf": OmegaConf, "Model": Model}


def check(run: core.Run) -> int:
    run.build_and_prove(PROP_FILES)
    mods = import_mods()
    torch = mods["torch"]
    thorough = run.tier == "thorough"
    rng = run.rng
    fixed = detect_fixed(mods)
    HEAD_RULE_REPAIRED["on"] = fixed
    FX.update(detect_fx(mods))
    run.notes.append("repairs detected in the code under test (corpus witnesses replayed; F17/F18/F41 are in /repo HEAD, F42 is proposed only): " +
                     ", ".join(f"{k}={'yes' if v else 'no'}" for k, v in sorted(FX.items())))
    run.notes.append(f"head in_channels rule detected in the code: {'repaired (reads the decoder block)' if fixed else 'pinned (recomputed from max_channels)'}")

    cases = [dict(c) for c in load_corpus()]
    n_corpus = len(cases)
    n_unet, n_tv = (900, 150) if thorough else (70, 22)
    for _ in range(n_unet):
        cases.append(gen_unet(rng))
    for _ in range(n_tv):
        cases.append(gen_tv(rng, "convnext"))
        cases.append(gen_tv(rng, "swint"))
    if thorough:
        cases += grid_unet()
    else:
        g = grid_unet()
        cases += [g[i] for i in sorted(rng.sample(range(len(g)), 30))]
    # the stateful layer and the encoder alone, odd sizes included
    for _ in range(60 if thorough else 12):
        cases.append({"kind": "pool", "sizes": [[rng.randint(1, 9), rng.randint(1, 9)] for _ in range(rng.randint(1, 4))]})
    for _ in range(120 if thorough else 16):
        u = gen_unet(rng)
        u["cfg"]["convs_per_block"] = max(2, u["cfg"]["convs_per_block"])
        ms = u["cfg"]["max_stride"]
        cases.append({"kind": "encoder", "bb": "unet", "cfg": u["cfg"], "mt": u["mt"], "parts": 1, "edges": 1,
                      "os_c": 1, "os_p": 1,
                      "inputs": [[rng.randint(1, 3 * ms), rng.randint(1, 3 * ms)] for _ in range(rng.randint(1, 3))]})

    model = core.coq_eval_sharded(PREAMBLE, [term(c, fixed) for c in cases], "run", RENDER,
                                  shard=120 if thorough else 40, jobs=12)
    invalid = [gen_invalid(rng) for _ in range(200 if thorough else 40)]     # classification only
    mcases = [c for c in cases if c["kind"] == "model" and c["inputs"]] + invalid
    classes = core.coq_eval_sharded(PREAMBLE, [term(c, fixed) for c in mcases], "classify_targets", "rclassify_targets",
                                    shard=200 if thorough else 60, jobs=12)
    sel_diff, tgt_diff, n_tgt, n_tgt_ceil, n_invalid_seen = [], [], 0, 0, 0
    tcache0 = {}
    for c, cl in zip(mcases, classes):
        for (H, W), ((v, (dom, sels)), tshapes) in zip(c["inputs"], cl):
            mine = (valid_config(c), in_domain(c, H, W), selector_vector(c, H, W) if valid_config(c) else None)
            # selectors are only meaningful (and only compared) on valid configurations
            if (v, dom) != mine[:2] or (v and sels != mine[2]):
                sel_diff.append(f"input {H}x{W}: coq {(v, dom, sels)} python {mine} case {case_key(c)[:400]}")
            n_invalid_seen += (not v)
            if v and mine[0]:
                # Shapes.target_shape == the shapes of the targets the repo's generators produce, on every
                # generated size (multiples of the stride or not: ceil, not floor)
                key = (c["mt"], c["parts"], c["edges"], c["os_c"], c["os_p"], H, W)
                if key not in tcache0:
                    tcache0[key] = target_shapes(c, H, W, mods)
                n_tgt += 1
                n_tgt_ceil += any(H % s or W % s for s in head_strides(c))
                if [list(t) for t in tshapes] != tcache0[key]:
                    tgt_diff.append(f"input {H}x{W}: Shapes.target_shape {tshapes} generate_* {tcache0[key]} case {case_key(c)[:300]}")
    run.obligation("validity / domain / selector predicates: Shapes.{valid_config,in_domain,sel_vector} (Coq) == harness (Python) "
                   "on every generated call, invalid configurations (one field spoiled) included", not sel_diff, "; ".join(sel_diff[:3]))
    run.obligation("target shapes: Shapes.target_shape (Coq) == shapes of generate_confmaps / generate_multiconfmaps / generate_pafs "
                   "on every generated (valid head configuration, input size), sizes that are not multiples of the stride included",
                   not tgt_diff, "; ".join(tgt_diff[:3]))
    for d_ in (sel_diff + tgt_diff)[:5]:
        run.proof_broken.append("C14 predicates / target shapes: " + d_)
    run.coverage["target_shape_comparisons"] = {"calls": n_tgt, "with_a_side_not_multiple_of_a_head_stride": n_tgt_ceil}
    run.coverage["invalid_configurations_classified"] = {"generated": len(invalid), "calls_classified_invalid": n_invalid_seen,
                                                         "kinds": sorted({c["classify_only"] for c in invalid})}
    disagree = 0
    dist = {}
    tcache = {}
    oracle_fail = 0
    in_domain_calls = 0
    passing_for_numeric = []
    cpu_runs, meta_cpu_diff = 0, []
    float_skipped = []
    for idx, (c, mj) in enumerate(zip(cases, model)):
        mres = canon_model(mj)
        kind = c["kind"]
        dist[kind if kind != "model" else c["bb"]] = dist.get(kind if kind != "model" else c["bb"], 0) + 1
        if kind == "pool":
            ires = run_impl_pool(c, mods)
        elif kind == "encoder":
            ires = run_impl_encoder(c, mods)
        else:
            ires = run_impl_model(c, mods)
            if is_light(c) and all(h * w <= 128 * 128 for h, w in c["inputs"]):
                cres = run_impl_model(c, mods, device="cpu")        # real kernels: must agree with the meta run
                cpu_runs += 1
                if (cres["built"], cres["calls"], cres["convs"]) != (ires["built"], ires["calls"], ires["convs"]):
                    meta_cpu_diff.append(f"meta {ires['calls']} cpu {cres['calls']} case {case_key(c)[:500]}")
                    ires = cres
        diff = compare(mres, ires)
        if diff and kind in ("model", "encoder") and not float_sites_agree(c):
            float_skipped.append(f"{diff} :: rate {rate_value(c['cfg'])!r} filters {c['cfg']['filters']}")
            diff = None                  # outside the model's exact-rational idealisation (see float_sites_agree)
        if kind in ("model", "encoder") and F(c["cfg"]["filters_rate"]).denominator > 8:
            dist["non_dyadic_rate"] = dist.get("non_dyadic_rate", 0) + 1
        nontrivial = kind != "model" or (len(c["inputs"]) >= 1)
        run.case(c, nontrivial)
        failing_here = False
        if kind == "model" and valid_config(c):
            dist["valid_configs"] = dist.get("valid_configs", 0) + 1
            all_ok = True
            for k, (H, W) in enumerate(c["inputs"]):
                if not in_domain(c, H, W):
                    dist["calls_outside_domain"] = dist.get("calls_outside_domain", 0) + 1
                    continue                            # outside the property's domain: correspondence only
                in_domain_calls += 1
                call = ires["calls"][k] if ires["built"] else None
                bad = oracle_call(c, H, W, call, ires["built"], mods, tcache)
                if bad:
                    all_ok = False
                    oracle_fail += 1
                    sel = selector_of(c, H, W)
                    dist["fail:" + str(sel)] = dist.get("fail:" + str(sel), 0) + 1
                    failing_here = run.violation(
                        "failing-input", {"case": c, "call": k, "input": [H, W], "oracle": bad,
                                          "impl_error": (ires.get("errs") or [ires.get("err")])[k if ires["built"] else 0],
                                          "correspondence": diff}, selector=sel) or failing_here
            if all_ok and ires["built"] and c["inputs"] and idx >= n_corpus:
                passing_for_numeric.append(c)
        if diff:
            disagree += 1
            if not failing_here:
                run.proof_broken.append(f"correspondence C14 model vs implementation: {diff}; case {case_key(c)[:700]}")
    run.obligation("correspondence: Shapes.run (Coq, vm_compute) == real Model / MaxPool2dWithSamePadding / UNet encoder "
                   "(construction, conv channels, current_strides, per-call output shapes or raises) on every case",
                   disagree == 0, f"{disagree} disagreements")

    run.obligation("meta-device runs agree with CPU runs (construction, conv channels, output shapes / raises) on every light case",
                   not meta_cpu_diff, "; ".join(meta_cpu_diff[:3]))
    run.coverage["cpu_structural_runs"] = cpu_runs
    run.coverage["float_vs_exact_rate_arithmetic"] = {
        "rule": "non-dyadic filters_rate (1.1, 1.15, ...): the Coq term carries the exact rational value of the double; "
                "cases where int(filters*rate**k) or x//rate differ between float and exact evaluation at some site are "
                "outside the model (correspondence skipped, oracle still evaluated)",
        "skipped": len(float_skipped), "examples": float_skipped[:3]}
    # CPU runs with real weights: shapes again + determinism / history / batch independence
    light = [c for c in passing_for_numeric if is_light(c)]
    want_n = {"unet": 40, "convnext": 12, "swint": 12} if thorough else {"unet": 8, "convnext": 3, "swint": 3}
    extra = []
    for bb in ("convnext", "swint"):                    # make sure light variants of both exist
        k = 0
        while sum(1 for c in light + extra if c["bb"] == bb) < want_n[bb] and k < 400:
            k += 1
            c = gen_tv(rng, bb, light=True)
            if valid_config(c) and selector_of(c, 64, 64) is None and c["cfg"]["max_stride"] >= eff_max_stride(c):
                extra.append(c)
    if thorough:
        extra.append({"kind": "model", "bb": "convnext", "mt": "bottomup", "parts": 2, "edges": 1, "os_c": 2, "os_p": 4,
                      "inputs": [], "cfg": {"in_channels": 1, "model_type": "tiny", "arch": None, "kernel_size": 3,
                                            "filters_rate": "2", "convs_per_block": 2, "up_interpolate": True,
                                            "stem_patch_kernel": 4, "stem_patch_stride": 2, "max_stride": 16,
                                            "output_stride": 2}})
        extra.append({"kind": "model", "bb": "swint", "mt": "centroid", "parts": 2, "edges": 1, "os_c": 2, "os_p": 2,
                      "inputs": [], "cfg": {"in_channels": 1, "model_type": "tiny", "arch": None, "kernel_size": 3,
                                            "filters_rate": "2", "convs_per_block": 2, "up_interpolate": False,
                                            "patch_size": [4, 4], "window_size": [7, 7], "stem_patch_stride": 2,
                                            "max_stride": 16, "output_stride": 2}})
    numeric_n = 0
    max_batch_diff = 0.0
    taken = {"unet": 0, "convnext": 0, "swint": 0}
    for c in light + extra:
        if taken[c["bb"]] >= want_n[c["bb"]] + (1 if thorough else 0):
            continue
        taken[c["bb"]] += 1
        numeric_n += 1
        try:
            bad, info = numeric_check(c, mods, seed=run.seed * 7919 + numeric_n)
        except Exception as e:
            bad, info = f"raises {type(e).__name__}: {e}"[:300], {}
        max_batch_diff = max(max_batch_diff, info.get("max_batch_diff", 0.0))
        if bad:
            run.violation("failing-input", {"case": c, "numeric": bad, "seed": run.seed * 7919 + numeric_n})
    run.coverage.update({
        "input_distribution": dist, "disagreements": disagree, "in_domain_calls": in_domain_calls,
        "oracle_failures_all_under_selectors": oracle_fail, "numeric_models": numeric_n,
        "numeric_models_by_backbone": taken, "max_batch_vs_single_abs_diff": max_batch_diff,
        "rule": "case = (backbone config, head config, sequence of input sizes); distinct by full content; "
                "non-trivial = at least one forward call (or a pooling / encoder call sequence)",
        "tolerance": {"shapes, channels, strides": "exact", "same input twice / fresh instance": "bit-for-bit",
                      "batch vs single frame": "atol 2e-5 + rtol 3e-4 (CPU kernels may differ with batch size)"},
    })
    for c in cases[n_corpus:n_corpus + 3]:
        run.sample(c)
    run.trusted += [
        "torch meta-device shape propagation and error checks agree with the CPU kernels (re-checked on the CPU subset every run)",
        "torch/torchvision layers in eval(): deterministic, no cross-sample coupling (oracle contract; measured on the CPU subset)",
        "float evaluation of int(filters*rate**k), // agrees with exact rational arithmetic (rate = exact value of the double) on the "
        "generated configurations, non-dyadic rates such as 1.15 included (compared every run; sites where a float product rounds "
        "across an integer are detected by the harness and excluded: coverage.float_vs_exact_rate_arithmetic)",
        "meta == CPU holds on VALID configurations only: for kernel_size 0 or a head with 0 channels the meta run passes while the CPU "
        "kernels raise; such configurations are not valid (Shapes.positive_sizes) and the implementation is not run on them",
    ]
    run.assumptions += ["valid configuration = accepted by config/model_config.py classes and documented ranges: strides powers "
                        "of two, backbone output_stride <= head strides <= max_stride, UNet filters_rate >= 1, "
                        "ConvNeXt/Swin-T filters_rate = 2 (their encoders double channels), stem_patch_stride in {2,4}, stem kernel / patch 4, "
                        "exactly four stages whose widths double (the config classes accept other values: outside the property as checked); "
                        "kernel_size, in_channels, number of parts / edges positive; head strides <= max(configured max_stride, the stride the "
                        "encoder reaches) -- a ConvNeXt / Swin-T head above the encoder's reach is valid and fails: finding F44",
                        "inputs: sides are positive multiples of the configured max_stride"]
    return run.finish()


def replay(run: core.Run, path: str) -> int:
    mods = import_mods()
    HEAD_RULE_REPAIRED["on"] = detect_fixed(mods)
    FX.update(detect_fx(mods))
    rep = json.load(open(path))
    c = rep["case"]
    if "numeric" in rep:
        bad, info = numeric_check(c, mods, rep.get("seed", 0))
        print(json.dumps({"numeric": bad, "info": info}))
        return 1 if bad else 0
    ires = run_impl_model(c, mods)
    bads = []
    for k, (H, W) in enumerate(c["inputs"]):
        if not in_domain(c, H, W):
            continue
        bad = oracle_call(c, H, W, ires["calls"][k] if ires["built"] else None, ires["built"], mods, {})
        if bad:
            bads.append({"input": [H, W], "oracle": bad, "selector": selector_of(c, H, W)})
    print(json.dumps({"oracle": bads, "impl": {k: ires.get(k) for k in ("built", "err", "errs", "calls")}}))
    return 1 if bads else 0
