"""C17 — every tree skeleton gets a complete, parent-before-child edge order.

Model: coq/theories/C17/Toposort.v; theorems: coq/theories/C17/Props.v.
Tie: correspondence of `toposort` (vm_compute) with
sleap_nn.inference.paf_grouping.toposort_edges and PAFScorer.sorted_edge_inds
on *all* rooted labelled trees with 2..N nodes under *all* edge listings
(exhaustive), plus a stream of non-tree digraphs and a stream of POLYTREES
(undirected trees with an edge written towards a node that already has a
parent: model fidelity outside the property's domain; both model and code
return an incomplete order there, theorem `toposort_polytree_incomplete`).
Oracle: the property statement evaluated on the implementation's own output.
The Coq side evaluates `Walk.run_topo` = (toposort es, is_tree es, order_ok es
<implementation's output>): `is_tree` must agree with the Python recogniser
`is_out_tree` on every case (true on every generated tree: the hypothesis of the
theorems holds for the tested cases, `is_tree_spec`; false on every polytree),
and `order_ok` must be true on the implementation's output whenever `is_tree`
is (`order_ok_spec`), also for digraph-stream cases that happen to be trees.

Second half (model coq/theories/C17/Walk.v, helper harness/c17_walk.py): the
order USED FOR GROUPING.  Batches of 1-4 samples (parts undetected, matches
below min_line_scores, empty frames) go through long-lived `PAFScorer`s
(`group_instances` with synthetic matches, `predict` with drawn part affinity
fields); the key order of the `connections` mapping that
`assign_connections_to_instances` receives is recorded per sample and compared
with `walk_batch` (Coq), judged by `walk_ok` (Coq) and by the Python oracle
(every edge type with connections exactly once, parent edge first when it has
a match in the sample, final instances == connected components of the accepted
matches); a sample of batches is run a second time at the end.
"""
from __future__ import annotations

import itertools
import json

from .. import core
from .. import c17_walk as cw

PROP_FILES = [core.THEORIES / "C17" / "Props.v"]
PREAMBLE = "From SV Require Import C17.Toposort C17.Walk.\nFrom Coq Require Import List.\nImport ListNotations.\n"
PREAMBLE_WALK = ("From SV Require Import C17.Toposort C17.Walk.\nFrom Coq Require Import List.\n"
                 "Import ListNotations.\n")


def rooted_trees(n):
    """All labelled rooted trees on nodes 0..n-1 as parent arrays (acyclic)."""
    for root in range(n):
        others = [v for v in range(n) if v != root]
        for parents in itertools.product(range(n), repeat=n - 1):
            par = dict(zip(others, parents))
            if any(par[v] == v for v in others):
                continue
            ok = True
            for v in others:
                seen, x = set(), v
                while x != root:
                    if x in seen:
                        ok = False
                        break
                    seen.add(x)
                    x = par[x]
                if not ok:
                    break
            if ok:
                yield root, [(par[v], v) for v in others]


def is_out_tree(edges):
    """Rooted out-tree written as an edge list (the domain of the property): non-empty, every node has at most
    one incoming edge, exactly one node has none, and every node reaches it by climbing parents."""
    if not edges:
        return False
    par = {}
    for u, v in edges:
        if v in par or u == v:
            return False
        par[v] = u
    roots = {u for u, _ in edges if u not in par}
    if len(roots) != 1:
        return False
    for v in par:
        x, steps = v, 0
        while x in par:
            x, steps = par[x], steps + 1
            if steps > len(edges):
                return False
    return True


def is_undirected_tree(edges):
    nodes = {x for e in edges for x in e}
    if len(edges) != len(nodes) - 1 or len({frozenset(e) for e in edges}) != len(edges):
        return False
    comp = {x: x for x in nodes}

    def find(x):
        while comp[x] != x:
            x = comp[x]
        return x
    for u, v in edges:
        a, b = find(u), find(v)
        if a == b:
            return False
        comp[a] = b
    return True


def polytrees(rng, quick):
    """Out-of-domain stream: rooted trees with 1-2 edges reversed so that some node gets two incoming edges
    (still a tree as an undirected graph, accepted by sleap-io and PAFScorer).  All such single reversals of all
    rooted labelled trees on 3..4 nodes under all listings, plus sampled 5..7-node ones (sparse labels)."""
    out = []
    for n in (3, 4):
        for root, es in rooted_trees(n):
            for k, (u, v) in enumerate(es):
                if u == root:
                    continue                      # reversing an edge out of the root only re-roots the tree
                flipped = es[:k] + [(v, u)] + es[k + 1:]
                for perm in itertools.permutations(flipped):
                    out.append(list(perm))
    for _ in range(300 if quick else 3000):
        n = rng.randint(5, 7)
        order = rng.sample(range(12), n)
        es = [(order[rng.randrange(i)], order[i]) for i in range(1, n)]
        for k in rng.sample(range(len(es)), rng.choice([1, 1, 2])):
            es[k] = (es[k][1], es[k][0])
        rng.shuffle(es)
        if not is_out_tree(es):
            out.append(es)
    assert all(is_undirected_tree(es) and not is_out_tree(es) for es in out)
    return out


def oracle(edges, out):
    """The property, evaluated on an output: every edge exactly once, and an edge
    is listed only after the edge leading into its source node."""
    n = len(edges)
    if sorted(out) != list(range(n)):
        return "not every edge exactly once"
    dsts = {v for _, v in edges}
    seen = set()
    for i in out:
        u, v = edges[i]
        if u in dsts and u not in seen:
            return f"edge {i}={edges[i]} listed before the edge into its source"
        seen.add(v)
    return None


def term(edges):
    return "[" + "; ".join(f"({u},{v})" for u, v in edges) + "]"


def check(run: core.Run) -> int:
    run.build_and_prove(PROP_FILES)
    core.impl_env_setup()
    from sleap_nn.inference.paf_grouping import toposort_edges, EdgeType, PAFScorer

    rng = run.rng
    maxn = 5 if run.tier == "quick" else 6
    cases = []          # (kind, edges)
    for n in range(2, maxn + 1):
        for _, es in rooted_trees(n):
            for perm in itertools.permutations(es):
                cases.append(("tree", list(perm)))
    n_exh = len(cases)
    # relabelled trees with sparse node ids, 7 nodes (sampled)
    n7 = 2000 if run.tier == "quick" else 20000
    for _ in range(n7):
        n = 7
        labels = rng.sample(range(12), n)
        order = labels[:]
        rng.shuffle(order)
        es = [(order[rng.randrange(i)], order[i]) for i in range(1, n)]
        rng.shuffle(es)
        cases.append(("tree7", es))
    # non-tree digraphs: model fidelity outside the property's domain
    for _ in range(300 if run.tier == "quick" else 3000):
        m = rng.randint(1, 6)
        es = [(rng.randrange(5), rng.randrange(5)) for _ in range(m)]
        es = [(u, v) for u, v in es if u != v] or [(0, 1)]
        cases.append(("digraph", es))
    # polytrees: outside the domain too (the witness of `toposort_polytree_incomplete` first)
    n_before_poly = len(cases)
    for es in [[(0, 1), (2, 1)], [(1, 0), (1, 2), (3, 2)]] + polytrees(rng, run.tier == "quick"):
        cases.append(("polytree", es))
    OUTSIDE = ("digraph", "polytree")

    # implementation
    impl = []
    for kind, es in cases:
        ets = [EdgeType(u, v) for u, v in es]
        try:
            with core.time_limit(5):            # termination is part of the claim: a looping sort must not hang the check
                impl.append(list(toposort_edges(ets)))
        except core.ImplTimeout:
            impl.append({"raises": "DoesNotTerminate"})
        except Exception as e:  # networkx raises on cyclic input
            impl.append({"raises": type(e).__name__})
    # PAFScorer.__attrs_post_init__ on a subsample: edge_inds / edge_types / sorted_edge_inds / n_nodes / n_edges,
    # through both constructors (__init__ and from_config with OmegaConf lists, the one BottomUpPredictor uses),
    # dense and sparse node numberings (part names that occur in no edge), the oracle applied to the attribute itself
    from omegaconf import OmegaConf
    n_scorer = 0
    sub = rng.sample(cases[:n_exh], 200) + rng.sample(cases[n_exh:n_exh + n7], 200)
    for q, (kind, es) in enumerate(sub):
        nn = max(max(e) for e in es) + 1 + (q % 3 == 2)          # sometimes one more part than the edges mention
        names = [f"p{i}" for i in range(nn)]
        named = [(names[u], names[v]) for u, v in es]
        try:
            with core.time_limit(10):
                if q % 2:
                    cfg = OmegaConf.create({"confmaps": {"part_names": names},
                                            "pafs": {"edges": [list(e) for e in named], "output_stride": 2}})
                    sc = PAFScorer.from_config(cfg)
                else:
                    sc = PAFScorer(part_names=names, edges=named, pafs_stride=2)
                got = list(sc.sorted_edge_inds)
                want = list(toposort_edges([EdgeType(u, v) for u, v in es]))
        except core.ImplTimeout:
            run.violation("failing-input", {"what": "building a PAFScorer for a tree skeleton does not terminate within 10 s",
                                            "via": "from_config" if q % 2 else "init", "edges": es})
            continue
        n_scorer += 1
        attrs_ok = ([(e.src_node_ind, e.dst_node_ind) for e in sc.edge_types] == es
                    and [tuple(e) for e in sc.edge_inds] == es and sc.n_nodes == nn and sc.n_edges == len(es))
        bad = oracle(es, got)
        if got != want or not attrs_ok or bad:
            run.violation("failing-input", {"what": "PAFScorer.sorted_edge_inds / edge_types differ from toposort_edges "
                                                    "on the skeleton as written", "via": "from_config" if q % 2 else "init",
                                            "edges": es, "got": got, "want": want, "oracle": bad,
                                            "edge_inds": [list(e) for e in sc.edge_inds]})
    # model
    def topo_term(es, ii):
        return "(" + term(es) + ", " + ("None" if isinstance(ii, dict) else
                                        "Some [" + "; ".join(str(int(i)) for i in ii) + "]") + ")"
    model3 = core.coq_eval_sharded(PREAMBLE, [topo_term(es, ii) for (_, es), ii in zip(cases, impl)], "run_topo",
                                   "rpair (ropt (rlist rnat)) (rpair rbool rbool)", shard=1500)
    model = [m[0] for m in model3]
    # the Coq checkers on the evaluated path: is_tree decides the hypothesis of the theorems (is_tree_spec),
    # order_ok is the property on the implementation's output (order_ok_spec)
    dom_bad, chk_bad, poly_incomplete = [], [], 0
    for (kind, es), (_, (mtree, mok)), ii in zip(cases, model3, impl):
        want_tree = is_out_tree(es)
        if mtree != want_tree or (kind in ("tree", "tree7") and not mtree) or (kind == "polytree" and mtree):
            dom_bad.append(f"{kind} {es}: is_tree (Coq) {mtree}, is_out_tree (Python) {want_tree}")
        py_ok = (not isinstance(ii, dict)) and oracle(es, ii) is None
        if mtree and mok != py_ok:
            chk_bad.append(f"{kind} {es}: order_ok (Coq) {mok} vs Python oracle {py_ok} on impl output {ii}")
        if mtree and kind in OUTSIDE and not py_ok:      # a digraph-stream case that IS a tree: inside the property
            run.violation("failing-input", {"edges": es, "impl": ii, "oracle":
                                            "implementation raised on a tree" if isinstance(ii, dict) else oracle(es, ii)})
        if kind == "polytree" and not isinstance(ii, dict) and len(ii) < len(es):
            poly_incomplete += 1
    run.obligation("domain: is_tree (Coq, vm_compute) is true on every generated tree, false on every polytree and "
                   "agrees with the Python recogniser on every case (the theorems' hypothesis holds for the tested trees)",
                   not dom_bad, "; ".join(dom_bad[:3]))
    run.obligation("checker: order_ok (Coq, vm_compute) on the implementation's output == the Python oracle on every "
                   "in-domain case", not chk_bad, "; ".join(chk_bad[:3]))
    disagreements = 0
    oracle_fail = 0
    for (kind, es), mi, ii in zip(cases, model, impl):
        run.case(es, nontrivial=(kind not in OUTSIDE and len(es) >= 2))
        if isinstance(ii, dict):
            same = mi is None
        else:
            same = (mi == ii)
        if not same:
            disagreements += 1
            if disagreements <= 3:
                run.log(f"model/impl disagree on {es}: model {mi} impl {ii}")
            bad = None if isinstance(ii, dict) else oracle(es, ii) if kind not in OUTSIDE else None
            if kind not in OUTSIDE and (isinstance(ii, dict) or bad):
                run.violation("failing-input", {"edges": es, "model": mi, "impl": ii,
                                                "oracle": bad or "implementation raised on a tree"})
            else:
                run.proof_broken.append(f"correspondence toposort vs toposort_edges on {es}: model {mi} impl {ii}")
        elif kind not in OUTSIDE:
            bad = "implementation raised on a tree" if isinstance(ii, dict) else oracle(es, ii)
            if bad:
                oracle_fail += 1
                run.violation("failing-input", {"edges": es, "impl": ii, "oracle": bad})
    run.obligation("correspondence: toposort (Coq, vm_compute) == toposort_edges (/repo) on every case",
                   disagreements == 0, f"{disagreements} disagreements")
    for kind, es in (cases[0], cases[n_exh // 2], cases[n_exh + 1], cases[n_before_poly - 1],
                     cases[n_before_poly], cases[-1]):
        run.sample({"kind": kind, "edges": es})
    walk_stats = walk_stream(run, rng)
    run.coverage.update({
        "exhaustive": True,
        "exhaustive_scope": f"all rooted labelled trees on 2..{maxn} nodes x all edge listings = {n_exh} cases",
        "sampled_7node_trees": n7, "non_tree_digraphs": n_before_poly - n_exh - n7,
        "polytrees_out_of_domain": len(cases) - n_before_poly, "polytrees_with_incomplete_order": poly_incomplete,
        "digraph_stream_cases_that_are_trees": sum(1 for (k, es) in cases[n_exh + n7:n_before_poly] if is_out_tree(es)),
        "pafscorer_checked": n_scorer, "disagreements": disagreements, "oracle_failures": oracle_fail,
        "order_used_for_grouping": walk_stats,
        "rule": "case = edge list; non-trivial = a tree with >= 2 edges; distinct by the edge list itself",
    })
    run.trusted += ["networkx DiGraph insertion order / topological_sort / bfs_edges are modelled (Toposort.v) "
                    "and compared exhaustively, not verified",
                    "the recorder wrapped around paf_grouping.assign_connections_to_instances / group_instances_batch "
                    "(module globals) sees the mapping grouping iterates over; Python dict iteration order = key "
                    "insertion order (modelled by dict_set in Walk.v)"]
    return run.finish()


def walk_stream(run: core.Run, rng) -> dict:
    """The order used for grouping: see the module docstring and harness/c17_walk.py."""
    import numpy as np
    import torch
    import sleap_nn.inference.paf_grouping as pg

    quick = run.tier == "quick"
    cases = cw.gen_cases(rng, rooted_trees, quick)
    kept = []                       # (case index, batch index, scorer, first result)
    per_case = []                   # [(present, observed, oracle ok)] per case, all batches flattened
    obs_problems, n_fail, n_samples, n_batches = [], 0, 0, 0
    stats = {"group_cases": 0, "predict_cases": 0, "samples_with_absent_nonleaf_edge": 0, "multi_sample_batches": 0}

    def report(c, bi, b, why, walk, note=None):
        nonlocal n_fail
        n_fail += 1
        run.violation("failing-input", {
            "what": "the edge order used for grouping (PAFScorer.group_instances / predict on a batch)",
            "oracle": why, "batch": bi, "sample": b, "note": note,
            "walked_edge_indices": None if walk is None else cw.walked_present(c, walk), "case": c})

    for ci, c in enumerate(cases):
        scorer = cw.make_scorer(c, pg)
        stats[c["stream"] + "_cases"] += 1
        items = []
        es = [tuple(e) for e in c["edges"]]
        nonleaf = {k for k, (_, v) in enumerate(es) if any(u == v for u, _ in es)}
        for bi, batch in enumerate(c["batches"]):
            res = cw.run_batch(c, batch, scorer, pg, torch, np)
            kept.append((ci, bi, scorer, res))
            n_batches += 1
            stats["multi_sample_batches"] += len(batch) > 1
            any_match = False
            for kind, b, sin, walk, why in cw.judge_batch(c, batch, res):
                if kind == "obs":
                    obs_problems.append(why)
                    continue
                if kind == "fail":
                    report(c, bi, b, why, walk)
                if sin is not None and walk is not None:
                    n_samples += 1
                    present = sorted({m[0] for m in cw.accepted(sin["matches"], c["mls"])})
                    any_match = any_match or bool(present)
                    stats["samples_with_absent_nonleaf_edge"] += bool(present) and bool(nonleaf - set(present))
                    items.append((present, cw.walked_present(c, walk), kind == "ok"))
            run.case({"walk": c["edges"], "n": c["n_nodes"], "batch": batch}, nontrivial=len(batch) > 1 and any_match)
        per_case.append(items)

    # the Coq model on the same samples: walk_batch == observed order, walk_ok accepts the observed order
    idx = [ci for ci, items in enumerate(per_case) if items and all(None not in o for _, o, _ in items)]
    terms = [cw.model_term(cases[ci], [(p, o) for p, o, _ in per_case[ci]]) for ci in idx]
    model = core.coq_eval_sharded(PREAMBLE_WALK, terms, "run_walk",
                                  "rpair (ropt (rlist (rlist rnat))) (rlist rbool)", shard=300)
    dis = 0
    for ci, (mw, mok) in zip(idx, model):
        for si, (present, obs, ok) in enumerate(per_case[ci]):
            want = None if mw is None else mw[si]
            if want != obs or (ok and not mok[si]):
                dis += 1
                if dis <= 3:
                    run.log(f"walk: model/impl disagree on {cases[ci]['edges']} present {present}: "
                            f"model {want} walk_ok {mok[si]} impl {obs}")
                if ok:          # the property holds on this sample, yet the model says something else
                    run.proof_broken.append(f"correspondence walk_batch vs the order walked by grouping on "
                                            f"{cases[ci]['edges']} present {present}: model {want} impl {obs}")
    run.obligation("correspondence: walk_batch (Coq, vm_compute) == key order with connections handed to "
                   "assign_connections_to_instances, walk_ok accepts it, every sample of every batch",
                   dis == 0, f"{dis} disagreements")
    run.obligation("observation: assign_connections_to_instances / group_instances_batch entered once per sample / "
                   "batch", not obs_problems, "; ".join(obs_problems[:3]))

    # second run of a sample of batches on the SAME scorer objects, after everything else ran
    again = rng.sample(range(len(kept)), min(len(kept), 150 if quick else 600))
    changed = 0
    for q in again:
        ci, bi, scorer, first = kept[q]
        c, batch = cases[ci], cases[ci]["batches"][bi]
        res = cw.run_batch(c, batch, scorer, pg, torch, np)
        same = all(json.dumps(res.get(k), sort_keys=True) == json.dumps(first.get(k), sort_keys=True)
                   for k in ("err", "walks", "out"))
        if not same:
            changed += 1
            bad = [v for v in cw.judge_batch(c, batch, res) if v[0] == "fail"]
            for kind, b, sin, walk, why in bad[:1]:
                report(c, bi, b, why, walk, note="second call on the same PAFScorer after other batches")
            if not bad:
                run.proof_broken.append(f"same batch, same PAFScorer, different result on the second call "
                                        f"({c['edges']}, batch {bi})")
    run.obligation("same batch on the same PAFScorer gives the same walked order and instances again", changed == 0,
                   f"{changed} of {len(again)} changed")
    stats.update({"batches": n_batches, "samples": n_samples, "oracle_failures": n_fail, "disagreements": dis,
                  "rerun_batches": len(again), "rerun_changed": changed})
    for c in (cases[0], cases[len(cases) // 3], cases[-1]):
        run.sample({"kind": "walk/" + c["stream"], "edges": c["edges"],
                    "batch_sizes": [len(b) for b in c["batches"]],
                    "styles": [[s["style"] for s in b] for b in c["batches"]]}, limit=9)
    return stats


def replay(run: core.Run, path: str) -> int:
    core.impl_env_setup()
    from sleap_nn.inference.paf_grouping import toposort_edges, EdgeType
    rep = json.load(open(path))
    if "case" in rep:
        import numpy as np
        import torch
        import sleap_nn.inference.paf_grouping as pg
        bad = cw.replay_case(rep["case"], pg, torch, np)
        print(json.dumps({"edges": rep["case"]["edges"], "failures": bad}))
        return 1 if bad else 0
    es = [tuple(e) for e in rep["edges"]]
    out = list(toposort_edges([EdgeType(u, v) for u, v in es]))
    bad = oracle(es, out)
    print(json.dumps({"edges": es, "impl": out, "oracle": bad}))
    return 1 if bad else 0
