"""C12 — a frame's predictions are independent of batch-mates and carry its indices.

Model:    coq/theories/C12/Batch.v (batch-level wrappers over abstract per-sample functions)
Theorems: coq/theories/C12/Props.v
Tie:      the same frames are run through the REAL predictors (TopDownPredictor,
          SingleInstancePredictor, BottomUpPredictor with a real PAFScorer: make_pipeline,
          reader thread, _predict_generator batching, the inference nn.Modules,
          _make_labeled_frames_from_generator) with the ramp-image stub networks of
          harness/c02_stub.py as ONE batch, in PERMUTED order, ONE BY ONE and with another
          batch size.  The Coq model is fed the per-frame detections of the one-by-one
          run and must predict, for every batch composition and max_instances, which
          detections are returned for which (frame_idx, video_idx) in which order; the
          NaN-padded (batch, max_instances) table of CentroidCrop(return_crops=False) is
          compared as well.
          Round 4: coq/theories/C12/Flat.v `frun` — the bottom-up model (CBu: per-sample peak split of
          _generate_cms_peaks = out["peaks"][b] with return_paf_graph, LabeledFrame records after the all-NaN drop
          and the max_instances sort/slice; CBox: box_sample_inds handed to crop_bboxes) and the single-instance
          model (CSi: find_global_peaks flatten / valid_idx / gather / scatter / reshape, records, valid_idx handed
          to crop_bboxes) are evaluated against the real models on every run as well.
Oracle:   the property itself on the implementation's outputs: per-frame outputs equal
          across batch compositions, indices = the frame the pixels came from, empty
          frames yield nothing, max_instances keeps the highest-scoring instances.
"""
from __future__ import annotations

import json
import math
from fractions import Fraction as F

from .. import core
from .. import c02_stub as S
from .. import c12_co as CO
from . import c02 as P2

PROP_FILES = [core.THEORIES / "C12" / "Props.v"]
PREAMBLE = ("From SV Require Import C12.Batch.\nFrom Coq Require Import List Arith QArith.\n"
            "Import ListNotations.\n")
PREAMBLE_S = ("From SV Require Import C12.Batch C12.Scale.\nFrom Coq Require Import List Arith ZArith QArith.\n"
              "Import ListNotations.\n")
TOL = 2e-5


# ------------------------------------------------------------------ generation
def tie_margin(u, os_):
    f = (u / os_ - F(1, 2)) % 1
    return min(f, 1 - f)


def gen_many_small(rng, idx):
    """Bottom-up, many small frames in one batch: the batch dimension exceeds every other dimension
    of the PAF tensor (8 x 8..12 cells, 2 channels) and each frame holds one 2-node animal whose edge
    is longer than the distance-penalty length of a single frame, so any quantity that is (wrongly)
    derived from the batch size changes the line score."""
    H, W = 32, rng.choice([32, 48])
    n_frames = rng.randint(14, 18)
    c = {"kind": "bottomup", "idx": idx, "H": H, "W": W, "os_c": 2, "os_i": 2, "crop": 32, "ms": rng.choice([1, 8, 16]),
         "refinement": rng.choice([None, "integral"]), "max_instances": None, "n_nodes": 2, "paf_os": 4,
         "batch_mid": rng.randint(2, 4), "n_videos": rng.choice([1, 2]), "family": "many_small_frames"}
    frames = []
    for f in range(n_frames):
        if rng.random() < 0.15:
            frames.append([])
            continue
        for _ in range(200):
            cx = F(W, 2) + F(rng.randrange(-16, 17), 8)
            cy = F(H, 2) + F(rng.randrange(-32, 33), 8)
            half = F(rng.choice([9, 10, 11]), 2) + F(rng.choice([1, 3]), 8)        # edge 9.25 .. 11.75 px
            kps = [(cx - half, cy + F(rng.choice([-5, 5]), 8)), (cx + half, cy + F(rng.choice([-3, 3]), 8) + 1)]
            if all(tie_margin(x, 2) >= F(1, 8) and tie_margin(y, 2) >= F(1, 8) for x, y in kps):
                break
        frames.append([{"kps": kps, "cent": (cx, cy)}])
    if all(len(a) == 0 for a in frames):
        return gen_many_small(rng, idx)
    c["frames"] = frames
    order = list(range(n_frames))
    rng.shuffle(order)
    c["perm"] = order
    return c


def gen_mixed_sizes(rng, kind):
    """(max_height, max_width) and 2-3 videos of DIFFERENT frame sizes for one labels file; the first two have
    eff_scales that differ by >= 15 %.  Bottom-up: frames never larger than the maximum (eff_scale >= 1)."""
    for _ in range(2000):
        n = rng.choice([2, 2, 3])
        sizes = [(rng.choice([96, 104, 112, 128, 144, 160]), rng.choice([96, 104, 112, 128, 144, 160])) for _ in range(n)]
        if len(set(sizes)) != n:
            continue
        v = rng.choice(["max", "max_plus", "free"]) if kind != "bottomup" else rng.choice(["max", "max_plus"])
        if v == "max":
            mh, mw = max(h for h, _ in sizes), max(w for _, w in sizes)
        elif v == "max_plus":
            mh, mw = max(h for h, _ in sizes) + rng.choice([0, 8, 19]), max(w for _, w in sizes) + rng.choice([0, 13, 32])
        else:
            mh, mw = rng.randint(88, 176), rng.randint(88, 176)
        if not all(P2.config_ok(h, w, mh, mw, [F(1)]) for h, w in sizes):
            continue
        effs = [P2.sizematch(h, w, mh, mw)["eff"] for h, w in sizes]
        if abs(effs[0] / effs[1] - 1) < F(15, 100) or min(effs) < F(3, 5) or max(effs) > F(17, 10):
            continue
        return mh, mw, sizes
    raise RuntimeError("generator could not choose mixed video sizes")


def content_maps(h, w, mh, mw):
    """per axis: original coordinate -> pixel coordinate of the size-matched image (scale 1, as every C12 case)"""
    if mh is None and mw is None:
        return (F(1), F(0)), (F(1), F(0))
    g = P2.sizematch(h, w, mh, mw)
    if not g["resized"]:
        return (F(1), F(0)), (F(1), F(0))
    return P2.resize_map(w, g["tw"]), P2.resize_map(h, g["th"])


def fsize(c, fid):
    if "sizes" in c:
        h, w = c["sizes"][c["vid"][fid]]
        return int(h), int(w)
    return c["H"], c["W"]


def gen_case(rng, idx, kind, mixed=False):
    if kind == "bottomup" and rng.random() < 0.2 and not mixed:
        return gen_many_small(rng, idx)
    n_frames = rng.randint(2, 5)
    if mixed:
        mh, mw, sizes = gen_mixed_sizes(rng, kind)
        H, W = sizes[0]
        vid = [0, 1] + [rng.randrange(len(sizes)) for _ in range(n_frames - 2)]
        crop = rng.choice([48, 64, [48, 64], [64, 48]])
    else:
        H = rng.choice([96, 112, 128, 144])
        W = rng.choice([96, 112, 128, 160])
        mh = mw = None
        sizes, vid = [(H, W)], [0] * n_frames
        crop = rng.choice([32, 32, [32, 48], [48, 32], 48])          # int = square, else [height, width]
    os_c = rng.choice([2, 4])
    c = {"kind": kind, "idx": idx, "H": H, "W": W, "os_c": os_c, "os_i": 2, "crop": crop,
         "ms": rng.choice([1, 8, 16]), "refinement": rng.choice([None, "integral"]),
         "max_instances": rng.choice([None, 1, 2, 3]) if kind != "single" else None,
         "n_nodes": rng.randint(1, 3) if kind != "bottomup" else rng.randint(2, 3),
         "batch_mid": rng.randint(2, 4), "n_videos": rng.choice([1, 2, 2])}
    if mixed:
        c.update({"mh": mh, "mw": mw, "sizes": [list(x) for x in sizes], "vid": vid, "n_videos": len(sizes),
                  "family": "mixed_video_sizes"})
    if kind == "bottomup":
        c["os_c"] = 2
        c["paf_os"] = rng.choice([2, 4])
    cells = [(i, j) for i in range(2) for j in range(2)]
    frames = []
    for f in range(n_frames):
        H, W = sizes[vid[f]]
        mx, my = content_maps(H, W, mh, mw)          # where the content sits in the image the network is given
        eff = float(mx[0])
        off = min(9, int(13 / max(eff, 1e-9)))        # keypoints stay inside the crop after size matching

        def gp(x, y, os_):
            return tie_margin(P2.app(mx, x), os_) >= F(1, 8) and tie_margin(P2.app(my, y), os_) >= F(1, 8)

        n_an = rng.choice([0, 1, 2, 3, 4]) if kind != "single" else rng.choice([0, 1, 1, 1])
        if mixed and f < 2:
            n_an = max(1, n_an)                       # the two frames that share a batch and differ in eff_scale
        animals = []
        for (ci, cj) in rng.sample(cells, n_an):
            for _ in range(200):
                cx = F(rng.randrange(64 * (cj * W // 2 + 20), 64 * ((cj + 1) * W // 2 - 20)), 64)
                cy = F(rng.randrange(64 * (ci * H // 2 + 20), 64 * ((ci + 1) * H // 2 - 20)), 64)
                if gp(cx, cy, c["os_c"]):
                    break
            kps = []
            if kind == "bottomup":
                # a chain: nodes ~7 px apart along x, inside the quadrant, every coordinate off the half-cell lattice
                for _ in range(200):
                    kps = []
                    for k in range(c["n_nodes"]):
                        x = cx + (k - 1) * 7 + F(rng.choice([1, 2, 3, 5, 6, 7]), 8)
                        y = cy + F(rng.choice([-11, -5, 5, 11]), 8) + k
                        kps.append((x, y))
                    if all(gp(x, y, 2) for x, y in kps):
                        break
                if rng.random() < 0.15:
                    kps[-1] = None
            else:
                for k in range(c["n_nodes"]):
                    if rng.random() < 0.2 and not (mixed and f < 2 and not any(kps)):
                        kps.append(None)
                        continue
                    for _ in range(100):
                        x = cx + F(rng.randrange(-8 * off, 8 * off + 1), 8)
                        y = cy + F(rng.randrange(-8 * off, 8 * off + 1), 8)
                        if kind != "single" or gp(x, y, 2):
                            break
                    kps.append((x, y))
            animals.append({"kps": kps, "cent": (cx, cy)})
        frames.append(animals)
    if all(len(a) == 0 for a in frames):
        H, W = sizes[vid[0]]
        frames[0] = frames[0] or [{"kps": [(F(W, 2) + F(1, 8), F(H, 2) + F(3, 8))] * c["n_nodes"],
                                   "cent": (F(W, 2) + F(1, 8), F(H, 2) + F(3, 8))}]
    c["frames"] = frames
    order = list(range(n_frames))
    rng.shuffle(order)
    c["perm"] = order
    return c


def case_json(c):
    j = {k: v for k, v in c.items() if k != "frames"}
    j["frames"] = [[{"cent": [str(a["cent"][0]), str(a["cent"][1])],
                     "kps": [None if p is None else [str(p[0]), str(p[1])] for p in a["kps"]]}
                    for a in fr] for fr in c["frames"]]
    return j


def case_from_json(j):
    c = dict(j)
    c["frames"] = [[{"cent": (F(a["cent"][0]), F(a["cent"][1])),
                     "kps": [None if p is None else (F(p[0]), F(p[1])) for p in a["kps"]]}
                    for a in fr] for fr in j["frames"]]
    return c


# ------------------------------------------------------------------ running the implementation
def build_scene(c):
    edges = [(k, k + 1) for k in range(c["n_nodes"] - 1)] if c["kind"] == "bottomup" else None
    sc = S.Scene(c["n_nodes"], edges=edges)
    for f, animals in enumerate(c["frames"]):
        h, w = fsize(c, f)
        sc.add(f, h, w, animals)
    return sc


def run_once(c, mods, sc, order, batch, max_instances):
    """The frames `order` (frame ids) through the real predictor of c['kind'] (LabelsReader; cases with `sizes`: a
    labels file of several videos of DIFFERENT frame sizes, size-matched to max_height/max_width).
    Returns {"records": [(fid_by_index, [inst...])] in output order, "pixel_fids": [...]}."""
    video, labels, where = S.make_sources(sc, order, c["n_videos"], [c["vid"][f] for f in order] if "sizes" in c else None)
    mh, mw = c.get("mh"), c.get("mw")
    if c["kind"] == "topdown":
        cfg = dict(os_c=c["os_c"], os_i=c["os_i"], scale_c=1.0, scale_i=1.0, ms_c=c["ms"], ms_i=c["ms"],
                   max_h=mh, max_w=mw, crop=c["crop"], batch=batch, refinement=c["refinement"],
                   max_instances=max_instances)
        pred, st_c, st_i = S.build_topdown_predictor(mods, sc, cfg)
        logs = st_i.log
    elif c["kind"] == "single":
        cfg = dict(os=2, scale=1.0, max_stride=c["ms"], max_h=mh, max_w=mw, batch=batch,
                   refinement=c["refinement"])
        pred, st = S.build_single_predictor(mods, sc, cfg)
        logs = st.log
    else:
        cfg = dict(os=2, paf_os=c["paf_os"], scale=1.0, max_stride=c["ms"], max_h=mh, max_w=mw, batch=batch,
                   refinement=c["refinement"], max_instances=max_instances)
        pred, st = S.build_bottomup_predictor(mods, sc, cfg)
        logs = st.log
    # crop_bboxes as called by find_global_peaks / find_local_peaks (the name is looked up in peak_finding at call time;
    # topdown.py holds its own binding and is not affected): which entries of the (samples*channels) maps are cropped
    calls = []
    if c["kind"] != "topdown":
        from sleap_nn.inference import peak_finding as PF
        if c["kind"] == "bottomup":
            pred.inference_model.return_paf_graph = True      # out["peaks"], out["peak_channel_inds"] per sample
        orig_crop = PF.crop_bboxes

        def rec_crop(images, bboxes, sample_inds):
            calls.append((len(logs), int(images.shape[0]), [int(i) for i in sample_inds.tolist()]))
            return orig_crop(images, bboxes, sample_inds)

        PF.crop_bboxes = rec_crop
        try:
            frames, raw, flags = S.run_predictor(pred, "LabelsReader", video, labels)
        finally:
            PF.crop_bboxes = orig_crop
    else:
        frames, raw, flags = S.run_predictor(pred, "LabelsReader", video, labels)
    back = {w: f for f, w in zip(order, where)}
    records = []
    for vi, fi, insts in frames:
        records.append((back.get((vi, fi), ("?", vi, fi)), (vi, fi), insts))
    # which frame's PIXELS each output record was computed from (read back by the stub)
    pix = []
    if c["kind"] == "topdown":
        k = 0
        for ex in raw:
            n = len(ex["pred_instance_peaks"])
            fids = {r["fid"] for r in logs[k:k + n]}
            k += n
            pix.append(fids)
    else:
        k = 0
        for ex in raw:
            n = len(ex["frame_idx"])
            for r in logs[k:k + n]:
                pix.append({r["fid"]})
            k += n
    # the (frame_idx, video_idx, eff_scale, orig_size) entries of every dictionary the inference model returned
    entries = []
    for ex in raw:
        import numpy as np
        osz = np.asarray(ex["orig_size"], dtype=np.float64).reshape(-1, 2)
        entries.append([(int(f), int(v), float(e), int(hw[0]), int(hw[1]))
                        for f, v, e, hw in zip(np.asarray(ex["frame_idx"]).ravel(), np.asarray(ex["video_idx"]).ravel(),
                                               np.asarray(ex["eff_scale"]).ravel(), osz)])
    out = {"records": records, "pixel_fids": pix, "where": dict(zip(order, where)), "n_raw": len(raw), "entries": entries,
           "back": back, "crop_calls": calls}
    # per returned dictionary: [(frame_idx, video_idx)] and, bottom-up, the per-sample peak split of _generate_cms_peaks
    out["dicts"] = []
    for ex in raw:
        import numpy as np
        d = {"keys": [(int(v), int(f)) for f, v in zip(np.asarray(ex["frame_idx"]).ravel(), np.asarray(ex["video_idx"]).ravel())]}
        if c["kind"] == "bottomup":
            d["peaks"] = [(np.asarray(pk, dtype=np.float64).reshape(-1, 2), np.asarray(ch).ravel().astype(int))
                          for pk, ch in zip(ex["peaks"], ex["peak_channel_inds"])]
        out["dicts"].append(d)
    return out


def canon(insts):
    """Order-insensitive canonical form of one frame's instances."""
    import numpy as np
    out = []
    for pts, vals, score in insts:
        out.append((tuple(np.nan_to_num(pts, nan=-1.0).ravel().tolist()), tuple(np.nan_to_num(vals, nan=-1.0).tolist()),
                    float(score)))
    return sorted(out)


def same_insts(a, b):
    import numpy as np
    if len(a) != len(b):
        return False
    for (p1, v1, s1), (p2, v2, s2) in zip(a, b):
        if not (np.allclose(p1, p2, atol=TOL, rtol=1e-5) and np.allclose(v1, v2, atol=TOL) and abs(s1 - s2) <= TOL):
            return False
    return True


def per_frame(run_out):
    d = {}
    for fid, _, insts in run_out["records"]:
        d.setdefault(fid, []).extend(insts)
    return {f: canon(i) for f, i in d.items() if i}


# ------------------------------------------------------------------ the property, executable
def oracle(c, runs, f62=None):
    """runs: dict name -> run_once output.  Returns list of reasons.  Failures that fall under the exact selector of
    finding F62 (single-instance model: an empty frame yields one all-NaN instance) are appended to `f62` instead
    (when a list is given)."""
    fails = []
    n = len(c["frames"])
    ref = per_frame(runs["ref"])          # one by one, max_instances None
    base = per_frame(runs["single"])      # one by one, with max_instances
    for name in ("batch", "perm", "mid"):
        got = per_frame(runs[name])
        for fid in range(n):
            a, b = got.get(fid, []), base.get(fid, [])
            if not same_insts(a, b):
                fails.append(f"frame {fid}: run '{name}' gives {len(a)} instances {[x[0][:4] for x in a][:3]} but the frame "
                             f"alone gives {len(b)} {[x[0][:4] for x in b][:3]}")
    for name, r in runs.items():
        # indices: every record's (video_idx, frame_idx) is the frame whose pixels were used
        if len(r["pixel_fids"]) == len(r["records"]) or c["kind"] == "topdown":
            recs = [x for x in r["records"]]
            if c["kind"] == "topdown":
                # several records may share one raw dict only if the code merged frames; compare in order
                seen = []
                for fid, ix, insts in recs:
                    if not seen or seen[-1][0] != fid:
                        seen.append([fid, 0])
                    seen[-1][1] += len(insts)
                if len(seen) != len(r["pixel_fids"]):
                    fails.append(f"run '{name}': {len(seen)} output frames but {len(r['pixel_fids'])} raw records")
                else:
                    for (fid, _), pf in zip(seen, r["pixel_fids"]):
                        if pf != {fid}:
                            fails.append(f"run '{name}': record labelled as frame {fid} was computed from the pixels of {sorted(pf, key=str)}")
            else:
                for (fid, ix, insts), pf in zip(recs, r["pixel_fids"]):
                    if pf != {fid}:
                        fails.append(f"run '{name}': record labelled {ix} (frame {fid}) was computed from the pixels of {sorted(pf, key=str)}")
        # empty frames yield no instance
        got = per_frame(r)
        for fid, animals in enumerate(c["frames"]):
            if not animals and got.get(fid):        # nothing in the frame: the networks' maps are all zero
                msg = f"run '{name}': empty frame {fid} yields {len(got[fid])} instances"
                # finding F62 (exact selector): single-instance model, the frame's only instance has every node NaN
                if (c["kind"] == "single" and len(got[fid]) == 1 and all(v == -1.0 for v in got[fid][0][0])
                        and f62 is not None):
                    f62.append(msg + " (one PredictedInstance whose nodes are all NaN)")
                else:
                    fails.append(msg)
    # max_instances keeps the highest-scoring ones
    k = c.get("max_instances")
    if k is not None:
        for fid in range(n):
            full, kept = ref.get(fid, []), base.get(fid, [])
            if len(kept) != min(k, len(full)):
                fails.append(f"frame {fid}: max_instances={k} kept {len(kept)} of {len(full)}")
                continue
            rest = list(full)
            for inst in kept:
                m = next((x for x in rest if same_insts([x], [inst])), None)
                if m is None:
                    fails.append(f"frame {fid}: max_instances={k} returns an instance the unlimited run does not have")
                    break
                rest.remove(m)
            else:
                if rest and kept and min(x[2] for x in kept) < max(x[2] for x in rest) - TOL:
                    fails.append(f"frame {fid}: max_instances={k} kept score {min(x[2] for x in kept):.4f} "
                                 f"but dropped {max(x[2] for x in rest):.4f}")
    else:
        for fid in range(n):
            if not same_insts(ref.get(fid, []), base.get(fid, [])):
                fails.append(f"frame {fid}: two one-by-one runs differ")
    if c["kind"] == "topdown":
        # in-domain sanity: well separated animals in general position are all found
        for fid, animals in enumerate(c["frames"]):
            if len(ref.get(fid, [])) != len(animals):
                fails.append(f"frame {fid}: {len(ref.get(fid, []))} instances for {len(animals)} animals (one by one)")
    return fails


# ------------------------------------------------------------------ Coq terms
def cnat(n):
    return f"{int(n)}%nat"


def ids_of(insts, ref_insts):
    """Identify each returned instance with the index of the same instance in the
    reference (one-by-one, unlimited) run of that frame."""
    ids = []
    for inst in insts:
        j = next((j for j, r in enumerate(ref_insts) if same_insts(canon([inst]), canon([r]))), None)
        ids.append(j)
    return ids


def stream_term(c, run_out, order, batch, mi, ref_by_fid):
    fs = []
    for fid in order:
        vi, fi = run_out["where"][fid]
        peaks = [f"({cnat(j)}, {core.cq(F(float(inst[2])))})" for j, inst in enumerate(ref_by_fid.get(fid, []))]
        fs.append(f"({cnat(fi)}, {cnat(vi)}, [{'; '.join(peaks)}])")
    mi_t = "None" if mi is None else f"(Some {cnat(mi)})"
    return f"CStream {mi_t} {cnat(batch)} [{'; '.join(fs)}]"


def eff_term(c, run_out, order, batch):
    """Scale.srun: the batches _predict_generator assembles from the frames `order` of the labels file"""
    def oz(v):
        return "None" if v is None else f"(Some {core.cz(v)})"
    fs = []
    for fid in order:
        vi, fi = run_out["where"][fid]
        h, w = fsize(c, fid)
        fs.append(f"({cnat(fi)}, {cnat(vi)}, ({core.cz(h)}, {core.cz(w)}))")
    return f"CEff {oz(c.get('mh'))} {oz(c.get('mw'))} {cnat(batch)} [{'; '.join(fs)}]"


def cmp_entries(c, name, model_batches, impl_entries):
    """model: per batch [[fi, vi, [n, d], H, W]]; impl: per returned dictionary [(fi, vi, eff, H, W)].
    Single-instance / bottom-up: one dictionary per batch, compared batch by batch (composition and order);
    top-down: one dictionary per frame with detections (an entry per crop): each must be an entry of the model."""
    out = []
    mb = [[(e[0], e[1], e[2][0] / e[2][1], e[3], e[4]) for e in b] for b in model_batches]

    def same(a, b):
        return a[0] == b[0] and a[1] == b[1] and abs(a[2] - b[2]) <= 1e-6 * max(1.0, abs(b[2])) and a[3:] == b[3:]

    if c["kind"] == "topdown":
        flat = [e for b in mb for e in b]
        for ex in impl_entries:
            for e in ex:
                if not any(same(e, m) for m in flat):
                    out.append(f"run '{name}': dictionary entry (frame_idx, video_idx, eff_scale, orig_size) = {e} is not an entry "
                               f"of the model's batches {flat}")
                    return out
        return out
    if len(mb) != len(impl_entries):
        return [f"run '{name}': {len(impl_entries)} dictionaries, model assembles {len(mb)} batches"]
    for k, (m, ex) in enumerate(zip(mb, impl_entries)):
        if len(m) != len(ex) or not all(same(a, b) for a, b in zip(ex, m)):
            return [f"run '{name}' batch {k}: entries (frame_idx, video_idx, eff_scale, orig_size) {ex}, model {m}"]
    return out



# ------------------------------------------------------------------ Flat.frun terms (bottom-up / single instance)
SEL_F62 = "single_instance_empty_frame_nan_instance"
PREAMBLE_F = ("From SV Require Import C12.Batch C12.Flat.\nFrom Coq Require Import List Arith QArith.\n"
              "Import ListNotations.\n")


def cbool(b):
    return "true" if b else "false"


def chunked(order, batch):
    return [order[i:i + batch] for i in range(0, len(order), batch)]


def bu_reference(c, runs):
    """per frame id: (peaks (n, 2), channels (n,)) of the one-by-one unlimited run, and its instances"""
    ref_peaks = {}
    for d in runs["ref"]["dicts"]:
        for key, pk in zip(d["keys"], d["peaks"]):
            ref_peaks[runs["ref"]["back"][key]] = pk
    ref_insts = {}
    for fid, _, insts in runs["ref"]["records"]:
        ref_insts.setdefault(fid, []).extend(insts)
    return ref_peaks, ref_insts


def bu_terms(c, runs, name, order, batch, mi, ref_peaks, ref_insts):
    fs = []
    for fid in order:
        vi, fi = runs[name]["where"][fid]
        n_pk = len(ref_peaks[fid][0])
        assert n_pk < 32
        pk = "; ".join(cnat(fid * 32 + j) for j in range(n_pk))
        ins = "; ".join(f"({cnat(j)}, {core.cq(F(float(i[2])))})" for j, i in enumerate(ref_insts.get(fid, [])))
        fs.append(f"({cnat(fi)}, {cnat(vi)}, ([{pk}], [{ins}]))")
    mi_t = "None" if mi is None else f"(Some {cnat(mi)})"
    terms = [f"CBu {mi_t} {cnat(batch)} [{'; '.join(fs)}]"]
    for ch in chunked(order, batch):          # box_sample_inds of find_local_peaks, one term per assembled batch
        terms.append(f"CBox {cnat(c['n_nodes'])} [" + "; ".join(
            "[" + "; ".join(cnat(int(x)) for x in ref_peaks[fid][1]) + "]" for fid in ch) + "]")
    return terms


def calls_by_batch(run_out):
    """crop_bboxes calls keyed by the index of the dictionary (batch) they were made for: the stub network has logged
    all samples of batches 0..k when batch k's peaks are refined"""
    cum, tot = {}, 0
    for k, d in enumerate(run_out["dicts"]):
        tot += len(d["keys"])
        cum[tot] = k
    out = {}
    for n_log, n_img, inds in run_out["crop_calls"]:
        out.setdefault(cum.get(n_log, ("?", n_log)), []).append((n_img, inds))
    return out


def bu_compare(c, run_out, name, models, ref_peaks, ref_insts, tie):
    """models: [RBu of the stream, RBox per batch ...].  Returns list of differences."""
    import numpy as np
    diffs = []
    m_stream, m_boxes = models[0], models[1:]
    recs = list(run_out["records"])
    calls = calls_by_batch(run_out)
    if len(m_stream) != len(run_out["dicts"]):
        return [f"run '{name}': {len(run_out['dicts'])} dictionaries, model assembles {len(m_stream)} batches"]
    pos = 0
    for k, (mb, d) in enumerate(zip(m_stream, run_out["dicts"])):
        got = []
        for key, (pk, ch) in zip(d["keys"], d["peaks"]):
            fid = run_out["back"].get(key)
            rp, rc = ref_peaks.get(fid, (np.zeros((0, 2)), np.zeros((0,), dtype=int)))
            pids = []
            for xy, cc in zip(pk, ch):
                j = next((j for j in range(len(rp)) if rc[j] == cc and np.allclose(rp[j], xy, atol=1e-4, rtol=0)), None)
                pids.append(-1 if j is None else fid * 32 + j)
            rec = recs[pos] if pos < len(recs) else (None, None, [])
            pos += 1
            iids = ids_of(rec[2], ref_insts.get(fid, [])) if rec[1] == key else ["record of another frame"]
            got.append([key[1], key[0], pids, [(-1 if i is None else i) for i in iids]])
        want = [list(x) for x in mb]
        if tie:          # equal scores: the order after the sort is the stable one, but the floats may tie differently
            got = [[g[0], g[1], g[2], sorted(g[3])] for g in got]
            want = [[w[0], w[1], w[2], sorted(w[3])] for w in want]
        if got != want:
            diffs.append(f"run '{name}' batch {k}: impl (frame_idx, video_idx, peak ids, instance ids) {got} model {want}")
            break
        box = m_boxes[k] if k < len(m_boxes) else None
        cl = calls.get(k, [])
        if c["refinement"] == "integral" and box:
            if len(cl) != 1 or cl[0][1] != list(box) or cl[0][0] != len(d["keys"]) * c["n_nodes"]:
                diffs.append(f"run '{name}' batch {k}: crop_bboxes calls (maps, sample_inds) {cl}, model box_sample_inds {box}")
                break
        elif cl:
            diffs.append(f"run '{name}' batch {k}: crop_bboxes called {cl} but the model expects no refinement crop")
            break
    return diffs


def si_reference(c, runs):
    """per frame id: the (nodes, 2) points of the one-by-one run (None when the frame has no record)"""
    ref = {}
    for fid, _, insts in runs["ref"]["records"]:
        if insts:
            ref[fid] = insts[0][0]
    return ref


def si_term(c, runs, name, order, batch, ref_rows, fx):
    import numpy as np
    fs = []
    for fid in order:
        vi, fi = runs[name]["where"][fid]
        row = ref_rows.get(fid)
        chans = "; ".join(f"({cnat(fid * 8 + k)}, {cbool(row is not None and not np.isnan(row[k]).any())})"
                          for k in range(c["n_nodes"]))
        fs.append(f"({cnat(fi)}, {cnat(vi)}, [{chans}])")
    return (f"CSi {cbool(fx)} {cbool(c['refinement'] == 'integral')} {cnat(c['n_nodes'])} {cnat(batch)} "
            f"[{'; '.join(fs)}]")


def si_compare(c, run_out, name, model, ref_rows):
    import numpy as np
    diffs = []
    rf = c["refinement"] == "integral"
    recs = {}
    for fid, key, insts in run_out["records"]:
        recs.setdefault(key, []).append(insts)
    calls = calls_by_batch(run_out)
    if len(model) != len(run_out["dicts"]):
        return [f"run '{name}': {len(run_out['dicts'])} dictionaries, model assembles {len(model)} batches"]

    def tag_of(fid, k, xy):
        cands = [(fid, k)] + [(f2, k2) for f2, r in ref_rows.items() for k2 in range(len(r)) if (f2, k2) != (fid, k)]
        for f2, k2 in cands:
            r = ref_rows.get(f2)
            if r is not None and np.allclose(r[k2], xy, atol=TOL, rtol=1e-5):
                return f2 * 8 + k2
        return -1

    for kb, ((m_valid, m_recs), d) in enumerate(zip(model, run_out["dicts"])):
        got = []
        for key in d["keys"]:
            fid = run_out["back"].get(key)
            for insts in recs.get(key, []):
                rows = []
                for pts, _, _ in insts:
                    row = []
                    for k, xy in enumerate(np.asarray(pts)):
                        if np.isnan(xy).any():
                            row.append(None)
                        else:
                            t = tag_of(fid, k, xy)
                            row.append([t, t if rf else None])
                    rows.append(row)
                got.append([key[1], key[0], rows])
        want = [[r[0], r[1], [[None if e is None else [e[0], e[1]] for e in row] for row in r[2]]] for r in m_recs]
        if got != want:
            diffs.append(f"run '{name}' batch {kb}: impl records (frame_idx, video_idx, [per node (rough tag, patch tag)]) {got} "
                         f"model {want}")
            break
        cl = calls.get(kb, [])
        want_calls = [(len(d["keys"]) * c["n_nodes"], list(m_valid))] if m_valid else []
        if cl != want_calls:
            diffs.append(f"run '{name}' batch {kb}: crop_bboxes calls (maps, sample_inds = valid_idx) {cl}, model {want_calls}")
            break
    return diffs


def f62_witness():
    """a single-instance batch whose middle frame is empty (corpus/C12/F62_single_empty_frame.json)"""
    p = core.CORPUS / "C12" / "F62_single_empty_frame.json"
    j = json.load(open(p))
    return case_from_json(j.get("case", j))


def detect_f62(mods):
    """Which variant the code has: replay the witness through the real SingleInstancePredictor.
    True = repaired (the empty frame gives no instance)."""
    c = f62_witness()
    sc = build_scene(c)
    r = run_once(c, mods, sc, list(range(len(c["frames"]))), len(c["frames"]), None)
    got = per_frame(r)
    empty = [f for f, a in enumerate(c["frames"]) if not a]
    return not any(got.get(f) for f in empty)


def check(run: core.Run) -> int:
    run.build_and_prove(PROP_FILES)
    core.impl_env_setup()
    import numpy as np
    import torch
    from omegaconf import OmegaConf
    from sleap_nn.inference import predictors
    from sleap_nn.inference.topdown import CentroidCrop
    mods = (torch, OmegaConf, predictors)
    thorough = run.tier == "thorough"
    n_td, n_si, n_bu = (1200, 400, 500) if thorough else (50, 15, 20)
    cases, co_cases = [], []
    d = core.CORPUS / "C12"
    if d.exists():
        for f in sorted(d.glob("*.json")):
            j = json.load(open(f))
            j = j.get("case", j)          # a witness may be stored in replay form {"case": {...}}
            if j.get("kind") == "centroid_only":
                co_cases.append(CO.case_from_json(j))
            else:
                cases.append(case_from_json(j))
    # the last part of every stream ("mixed"): a labels file of 2-3 videos of DIFFERENT frame sizes with
    # max_height/max_width size matching, so that one batch holds frames with different eff_scales
    n_mix = {"topdown": 300, "single": 120, "bottomup": 140} if thorough else {"topdown": 12, "single": 5, "bottomup": 6}
    for kind, n in (("topdown", n_td), ("single", n_si), ("bottomup", n_bu)):
        for i in range(n):
            cases.append(gen_case(run.rng, len(cases), kind, mixed=i >= n - n_mix[kind]))

    fixed_f62 = detect_f62(mods)
    run.log(f"single-instance empty frame (F62): code variant = {'repaired' if fixed_f62 else 'unrepaired (one all-NaN instance)'}")
    terms, index = [], []
    sterms, sindex = [], []
    fterms, findex = [], []
    all_runs = []
    dist = {}
    for ci, c in enumerate(cases):
        sc = build_scene(c)
        n = len(c["frames"])
        ids = list(range(n))
        mi = c.get("max_instances")
        runs = {}
        try:
            runs["ref"] = run_once(c, mods, sc, ids, 1, None)
            runs["single"] = run_once(c, mods, sc, ids, 1, mi)
            runs["batch"] = run_once(c, mods, sc, ids, n, mi)
            runs["perm"] = run_once(c, mods, sc, c["perm"], n, mi)
            runs["mid"] = run_once(c, mods, sc, ids, c["batch_mid"], mi)
            err = None
        except Exception as e:      # noqa
            import traceback
            err = f"{type(e).__name__}: {e} :: {traceback.format_exc()[-800:]}"
        all_runs.append((runs, err))
        for k in ("kind", "refinement", "max_instances", "n_videos", "crop", "family"):
            key = f"{k}={c.get(k)}"
            dist[key] = dist.get(key, 0) + 1
        dist[f"frames={n}"] = dist.get(f"frames={n}", 0) + 1
        if not err:
            for name, order, batch in (("single", ids, 1), ("batch", ids, n), ("perm", c["perm"], n),
                                       ("mid", ids, c["batch_mid"])):
                sterms.append(eff_term(c, runs[name], order, batch))
                sindex.append((ci, name))
        if not err and c["kind"] in ("bottomup", "single"):
            # Flat.frun: the bottom-up / single-instance models fed with the one-by-one reference
            try:
                if c["kind"] == "bottomup":
                    rp, ri = bu_reference(c, runs)
                    c["_fref"] = (rp, ri)
                    c["_tie"] = mi is not None and any(abs(a[2] - b[2]) < 1e-6 for v in ri.values()
                                                       for x, a in enumerate(v) for b in v[x + 1:])
                else:
                    c["_fref"] = si_reference(c, runs)
                for name, order, batch in (("single", ids, 1), ("batch", ids, n), ("perm", c["perm"], n),
                                           ("mid", ids, c["batch_mid"])):
                    ts = (bu_terms(c, runs, name, order, batch, mi, rp, ri) if c["kind"] == "bottomup"
                          else [si_term(c, runs, name, order, batch, c["_fref"], fixed_f62)])
                    for t in ts:
                        fterms.append(t)
                        findex.append((ci, name))
            except Exception as e:      # noqa
                c["_fterm_err"] = f"{type(e).__name__}: {e}"
        if err or c["kind"] != "topdown":
            continue
        # model: fed with the reference detections (in output order, with their centroid values)
        ref_by_fid = {}
        for fid, _, insts in runs["ref"]["records"]:
            ref_by_fid.setdefault(fid, []).extend(insts)
        vals = [float(i[2]) for v in ref_by_fid.values() for i in v]
        c["_ref"] = ref_by_fid
        c["_tie"] = any(abs(a - b) < 1e-6 for f in ref_by_fid.values()
                        for x, a in enumerate([i[2] for i in f]) for b in [i[2] for i in f][x + 1:])
        for name, order, batch in (("single", ids, 1), ("batch", ids, n), ("perm", c["perm"], n),
                                   ("mid", ids, c["batch_mid"])):
            terms.append(stream_term(c, runs[name], order, batch, mi, ref_by_fid))
            index.append((ci, name))
        # the NaN-padded table of CentroidCrop(return_crops=False) on the whole batch
        if "sizes" in c:
            continue                          # frames of different sizes cannot be stacked without the predictor's size matching
        try:
            imgs = torch.stack([torch.from_numpy(S.make_frame(c["H"], c["W"], f)).permute(2, 0, 1).float() / 255.0
                                for f in ids]).unsqueeze(1)
            stub = S.make_stub(torch, "centroid", sc, c["os_c"])
            layer = CentroidCrop(torch_model=stub, output_stride=c["os_c"], peak_threshold=0.2, max_instances=mi,
                                 refinement=c["refinement"], return_crops=False, input_scale=1.0, max_stride=c["ms"])
            out = layer({"image": imgs, "frame_idx": torch.arange(n), "video_idx": torch.zeros(n),
                         "orig_size": torch.tensor([[c["H"], c["W"]]] * n).float(), "eff_scale": torch.ones(n)})
            c["_table"] = out["centroid_vals"].numpy()
            mi_t = "None" if mi is None else f"(Some {cnat(mi)})"
            fr = ["[" + "; ".join(f"({cnat(j)}, {core.cq(F(float(i[2])))})" for j, i in enumerate(ref_by_fid.get(f, []))) + "]"
                  for f in ids]
            terms.append(f"CRows {mi_t} [{'; '.join(fr)}]")
            index.append((ci, "rows"))
        except Exception as e:      # noqa
            c["_table_err"] = f"{type(e).__name__}: {e}"

    model = core.coq_eval_sharded(PREAMBLE, terms, "run", "rresult", shard=60, jobs=12) if terms else []
    by_case = {}
    for ix, m in zip(index, model):
        by_case.setdefault(ix[0], []).append((ix[1], m))
    smodel = core.coq_eval_sharded(PREAMBLE_S, sterms, "srun", "rsres", shard=80, jobs=12) if sterms else []
    s_by_case = {}
    for ix, m in zip(sindex, smodel):
        s_by_case.setdefault(ix[0], []).append((ix[1], m))

    fmodel = core.coq_eval_sharded(PREAMBLE_F, fterms, "frun", "rfresult", shard=80, jobs=12) if fterms else []
    f_by_case = {}
    for ix, m in zip(findex, fmodel):
        f_by_case.setdefault(ix[0], {}).setdefault(ix[1], []).append(m)
    flat_disagreements = {"bottomup": 0, "single": 0}
    flat_compared = {"bottomup": 0, "single": 0}
    f62_cases = 0
    n_logged = 0
    disagreements = 0
    scale_disagreements = 0
    ties = 0
    for ci, c in enumerate(cases):
        runs, err = all_runs[ci]
        nan_free = sum(len(a) for a in c["frames"])
        cj = case_json({k: v for k, v in c.items() if not k.startswith("_")})
        run.case(cj, nontrivial=nan_free >= 1)
        if err:
            run.violation("failing-input", {"case": cj, "impl_error": err})
            continue
        f62 = []
        fails = oracle(c, runs, f62)
        diffs = []
        fdiffs = []
        if c.get("_fterm_err"):
            fdiffs.append("building the model term failed: " + c["_fterm_err"])
        for name, ms in f_by_case.get(ci, {}).items():
            try:
                if c["kind"] == "bottomup":
                    fdiffs += bu_compare(c, runs[name], name, ms, c["_fref"][0], c["_fref"][1], c.get("_tie"))
                else:
                    fdiffs += si_compare(c, runs[name], name, ms[0], c["_fref"])
            except Exception as e:      # noqa
                fdiffs.append(f"run '{name}': comparison raised {type(e).__name__}: {e}")
            flat_compared[c["kind"]] += 1
        if fdiffs:
            flat_disagreements[c["kind"]] += 1
        n_ref = sum(len(i) for _, _, i in runs["ref"]["records"])
        run.count(f"instances_returned_one_by_one_{c['kind']}", n_ref)
        run.count(f"animals_labelled_{c['kind']}", nan_free)
        if c.get("_tie"):
            ties += 1
        for name, m in by_case.get(ci, []):
            if c.get("_tie"):
                continue                      # equal centroid values: torch.topk's choice is unspecified
            if name == "rows":
                table = c["_table"]
                ref = c["_ref"]
                if m is None:
                    if not np.isnan(table).all():
                        diffs.append("model: no detections in the batch, implementation returns a table with values")
                    continue
                if len(m) != table.shape[0] or any(len(r) != table.shape[1] for r in m):
                    diffs.append(f"padded table shape {table.shape} vs model {len(m)}x{len(m[0]) if m else 0}")
                    continue
                for fid, (mrow, trow) in enumerate(zip(m, table)):
                    for j, tv in zip(mrow, trow):
                        want = None if j is None else float(ref[fid][j][2])
                        if (want is None) != bool(np.isnan(tv)) or (want is not None and abs(want - tv) > TOL):
                            diffs.append(f"padded table row {fid}: impl {trow.tolist()} model ids {mrow}")
                            break
                continue
            got = []
            for fid, (vi, fi), insts in runs[name]["records"]:
                ids_ = ids_of(insts, c["_ref"].get(fid, [])) if not isinstance(fid, tuple) else None
                if got and got[-1][0] == fi and got[-1][1] == vi:
                    got[-1][2].extend(ids_)
                else:
                    got.append([fi, vi, list(ids_ or [])])
            if got != [list(x) for x in m]:
                diffs.append(f"run '{name}': impl {got} model {m}")
        if c.get("_table_err"):
            diffs.append("CentroidCrop(return_crops=False) raised " + c["_table_err"])
        sdiffs = []
        for name, m in s_by_case.get(ci, []):
            sdiffs += cmp_entries(c, name, m, runs[name]["entries"])
        if diffs:
            disagreements += 1            # Batch.run (top-down stream / padded table)
        if sdiffs:
            scale_disagreements += 1
            diffs += sdiffs[:2]
        diffs += fdiffs[:2]
        if diffs:
            n_logged += 1
            if n_logged <= 4:
                run.log(f"model/impl disagree on case {c['idx']}: {[d[:600] for d in diffs[:2]]}")
        if f62:
            f62_cases += 1
            run.violation("failing-input", {"case": cj, "oracle": f62[:6]}, selector=SEL_F62)
        if fails:
            run.violation("failing-input", {"case": cj, "oracle": fails[:6], "correspondence": diffs[:3]})
        elif diffs:
            run.proof_broken.append(f"correspondence C12 model vs implementation, case {json.dumps(cj)[:800]}: {diffs[:2]}")
    n_co, n_co_mix = (400, 120) if thorough else (16, 6)
    for i in range(n_co):
        co_cases.append(CO.gen_case(run.rng, len(cases) + len(co_cases), mixed=i >= n_co - n_co_mix))
    # centroids that are detected but not labelled ("phantoms"): frames with more matched centroids than instance rows
    n_ph, n_ph_mix = (300, 90) if thorough else (16, 5)
    for i in range(n_ph):
        co_cases.append(CO.gen_case(run.rng, len(cases) + len(co_cases), mixed=i >= n_ph - n_ph_mix, phantoms=True))
    co_dis, co_stats = CO.evaluate(run, co_cases, mods, PREAMBLE)
    run.obligation("correspondence: Batch.run CGtM (centroid_only_stream, Coq; fed with the one-by-one centroids and each "
                   "centroid's nearest labelled instance of its own frame; frames with more matches than instance rows included) == real "
                   "TopDownPredictor without a centered-instance model (CentroidCrop(return_crops=False) + "
                   "FindInstancePeaksGroundTruth) on every batch composition / order / batch size / max_instances: "
                   "indices, padded centroid rows, padded instance rows", co_dis == 0, f"{co_dis} cases disagree")
    for c in co_cases:
        for k in ("kind", "refinement", "max_instances", "n_videos") + (("family",) if "phantoms" in str(c.get("family")) else ()):
            key = f"{k}={c.get(k)}"
            dist[key] = dist.get(key, 0) + 1
    run.obligation("correspondence: Flat.frun CBu / CBox (Coq, vm_compute: bottomup_frames = _generate_cms_peaks split + per-sample "
                   "grouping + all-NaN drop + max_instances sort/slice, chunked by batch size; box_sample_inds) fed with the one-by-one "
                   "peaks / instances == real BottomUpInferenceModel out['peaks'][b] (return_paf_graph), the LabeledFrame records of "
                   "BottomUpPredictor and the sample_inds find_local_peaks passes to crop_bboxes, every run",
                   flat_disagreements["bottomup"] == 0 and (flat_compared["bottomup"] > 0 or not any(c["kind"] == "bottomup" for c in cases)),
                   f"{flat_disagreements['bottomup']} cases disagree ({flat_compared['bottomup']} runs compared)")
    run.obligation("correspondence: Flat.frun CSi (Coq, vm_compute: single_frames = find_global_peaks flatten / valid_idx / gather / "
                   "scatter / reshape + one record per frame, variant fx detected by replaying the F62 witness) == the records of the "
                   "real SingleInstancePredictor (every node identified with the reference node it equals) and the sample_inds "
                   "(valid_idx) find_global_peaks passes to crop_bboxes, every run",
                   flat_disagreements["single"] == 0 and (flat_compared["single"] > 0 or not any(c["kind"] == "single" for c in cases)),
                   f"{flat_disagreements['single']} cases disagree ({flat_compared['single']} runs compared)")
    run.obligation("correspondence: Scale.srun (Coq, vm_compute: the batches assembled by _predict_generator, lists appended in "
                   "step, apply_sizematcher as in C02.Decode) == the (frame_idx, video_idx, eff_scale, orig_size) entries of the "
                   "dictionaries of the real Single-instance / BottomUp / TopDown predictors, every run (one by one, one batch, "
                   "permuted, other batch size), one-size and mixed-size labels files", scale_disagreements == 0,
                   f"{scale_disagreements} cases disagree")
    run.obligation("correspondence: Batch.run (Coq, vm_compute; fed with the one-by-one detections) == real "
                   "TopDownPredictor on every batch composition / order / batch size / max_instances, and the NaN-padded "
                   "CentroidCrop table", disagreements == 0, f"{disagreements} cases disagree")
    run.coverage.update({
        "flat_model_runs_compared": flat_compared, "flat_model_disagreements": flat_disagreements,
        "single_instance_variant_F62": "repaired" if fixed_f62 else "unrepaired", "cases_under_selector_F62": f62_cases,
        "input_distribution": dist, "disagreements": disagreements, **co_stats, "cases_with_equal_values_skipped_in_model_compare": ties,
        "runs_per_case": ["one by one unlimited (reference)", "one by one", "one batch", "one batch permuted",
                          "other batch size"],
        "rule": "case = (model type, frames with 0..4 animals, output strides, max stride, refinement, max_instances, "
                "permutation, batch size); non-trivial = at least one animal; distinct by full case content",
        "tolerance": {"atol": TOL},
    })
    for c in cases[:3]:
        run.sample(case_json({k: v for k, v in c.items() if not k.startswith("_")}))
    run.trusted += [
        "per-sample computations (peak finding, cropping, FindInstancePeaks, PAF grouping) are abstract functions in the "
        "model; that the real per-sample code is a function of the sample alone is what the oracle observes "
        "(batch vs one by one), not a theorem",
        "a recording wrapper around sleap_nn.inference.peak_finding.crop_bboxes (installed for the duration of a bottom-up / "
        "single-instance run, forwards to the original) is how the sample_inds of the refinement crops are observed",
        "harness/c02_stub.py ramp stub: the stub reads the frame identity from the pixels it is given, which is how "
        "'computed from the frame whose indices it carries' is observed",
    ]
    run.assumptions += ["animals well separated (one per image quadrant), centroids in general position, distinct centroid "
                        "values (torch.topk on ties is unspecified)",
                        "max_instances >= 1"]
    return run.finish()


def replay(run: core.Run, path: str) -> int:
    core.impl_env_setup()
    import torch
    from omegaconf import OmegaConf
    from sleap_nn.inference import predictors
    mods = (torch, OmegaConf, predictors)
    rep = json.load(open(path))
    if rep["case"].get("kind") == "centroid_only":
        return CO.replay_case(CO.case_from_json(rep["case"]), mods)
    c = case_from_json(rep["case"])
    sc = build_scene(c)
    n = len(c["frames"])
    ids = list(range(n))
    mi = c.get("max_instances")
    runs = {"ref": run_once(c, mods, sc, ids, 1, None), "single": run_once(c, mods, sc, ids, 1, mi),
            "batch": run_once(c, mods, sc, ids, n, mi), "perm": run_once(c, mods, sc, c["perm"], n, mi),
            "mid": run_once(c, mods, sc, ids, c["batch_mid"], mi)}
    fails = oracle(c, runs)
    print(json.dumps({"oracle": fails}, indent=1))
    return 1 if fails else 0
