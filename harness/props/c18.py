"""C18 — interchangeable data-pipeline implementations produce the same samples.

Model: coq/theories/C18/Pipelines.v (every pipeline step once; the three frameworks and the four composed
legacy DataPipe pipelines as compositions in the order the code applies the steps); theorems: C18/Props.v.

Tie (every run):
  1. ORACLE (the property itself, on the implementation only): for generated label sets x configurations
       Mem  custom_datasets.*Dataset (in-memory cache),
       Npc  the same classes with np_chunks=True and a scratch chunk path, plus a second object with
            use_existing_chunks=True reading the same files,
       Str  get_data_chunks.*_data_chunks -> litdata's own serializers (in memory) ->
            streaming_datasets.*StreamingDataset (only litdata's StreamingDataset.__init__/__getitem__ stubbed),
       Lit  (a few cases per run) the same with NOTHING stubbed: litdata.optimize on a scratch directory
            (worker process, .bin chunk files) -> the real *StreamingDataset; obligation Lit == Str,
       DP   providers.LabelsReaderDP -> pipelines.*Pipeline.make_training_pipeline (the composed legacy pipelines)
     are compared pairwise for the same (frame, instance): image/crop up to 8-bit quantisation, confidence
     maps, PAFs, keypoints / centroids, in the property's domain (Mem=Npc always; Mem=Str=Lit except
     centered-instance at scale != 1; DP=Mem where Props.c18_dp_*_pipeline apply: dp_domain).
  2. CORRESPONDENCE: every real sample of every leg (also outside the domains, also SizeMatcher raising) vs the
     Coq model's composition (vm_compute): size, channels, value range, keypoints, centroids, bbox corner,
     num_instances, targets re-generated from the model's target inputs, content map on ramp frames.
  3. each legacy DataPipe block (incl. SizeMatcher, LabelsReaderDP) vs its functional counterpart on random
     examples (list source), and vs the model's dp_/fn_ definitions.
"""
from __future__ import annotations

import contextlib
import json
import math
import shutil
from fractions import Fraction as F
from unittest import mock

from .. import core

PROP_FILES = [core.THEORIES / "C18" / "Props.v"]
PREAMBLE = ("From SV Require Import C18.Pipelines.\nFrom Coq Require Import List ZArith QArith.\n"
            "Import ListNotations.\nOpen Scope Q_scope.\n")
IMG_TOL = 1.0 / 255 + 2e-6        # 8-bit quantisation (ToPILImage truncates) + float32 slack
PT_ATOL, PT_RTOL = 4e-4, 2e-6     # coordinates (float32, a handful of operations on values < 1e3)
MAP_ATOL = 3e-4                   # confidence maps / PAFs generated from such coordinates
TYPES = ["single", "bottomup", "centroid", "centered"]
FWS = ["Mem", "Npc", "Str"]
KEYS = {
    "single": (["image"], ["instances"], ["confidence_maps"]),
    "bottomup": (["image"], ["instances"], ["confidence_maps", "part_affinity_fields"]),
    "centroid": (["image"], ["centroids"], ["centroids_confidence_maps"]),
    "centered": (["instance_image"], ["instance", "centroid"], ["confidence_maps"]),
}


# ------------------------------------------------------------------ duck-typed labels
class DVideo:
    def __init__(self, shape):
        self.shape = tuple(shape)
        self.filename = "duck"

    def close(self):
        pass


class DInst:
    """Picklable (litdata.optimize ships the inputs to worker processes): holds no module reference."""

    def __init__(self, pts, pred, np):
        self._pts = np.array([[float("nan")] * 2 if p is None else [float(p[0]), float(p[1])] for p in pts],
                             dtype="float64").reshape(len(pts), 2)
        self.pred = pred

    def numpy(self):
        return self._pts.copy()

    @property
    def is_empty(self):
        return bool((self._pts != self._pts).all())


class DLF:
    def __init__(self, image, video, frame_idx, instances):
        self.image, self.video, self.frame_idx, self.instances = image, video, frame_idx, instances

    @property
    def user_instances(self):
        return [i for i in self.instances if not i.pred]

    def __iter__(self):
        return iter(self.instances)

    def __len__(self):
        return len(self.instances)


class DSkel:
    def __init__(self, edges):
        self.edge_inds = [tuple(e) for e in edges]


class DLabels:
    def __init__(self, lfs, videos, skel):
        self.labeled_frames, self.videos, self.skeletons = lfs, videos, [skel]

    def __iter__(self):
        return iter(self.labeled_frames)

    def __len__(self):
        return len(self.labeled_frames)

    def __getitem__(self, i):
        return self.labeled_frames[i]


def make_image(np, seed, h, w, c, style):
    if style == "ramp":                 # R = 2x, G = 2y, B = valid-pixel mask (c == 3, h, w <= 128)
        img = np.zeros((h, w, 3), dtype="uint8")
        img[..., 0] = (2 * np.arange(w))[None, :]
        img[..., 1] = (2 * np.arange(h))[:, None]
        img[..., 2] = 255
        return img
    rs = np.random.RandomState(seed)
    if style == "noise":
        return rs.randint(0, 256, (h, w, c)).astype("uint8")
    coarse = rs.randint(0, 256, (-(-h // 8), -(-w // 8), c)).astype("float64")
    img = np.kron(coarse, np.ones((8, 8, 1)))[:h, :w]
    img = 0.7 * img + 0.3 * rs.randint(0, 256, (h, w, c))
    return img.astype("uint8")


def build_labels(L, mods):
    """Fresh objects on every call: the repo mutates lf.instances."""
    np = mods["np"]
    if L["source"] == "asset":
        return mods["sio"].load_slp(str(core.REPO / "tests/assets/minimal_instance.pkg.slp"))
    videos = [DVideo((v["n"], v["h"], v["w"], v["c"])) for v in L["videos"]]
    lfs = []
    for fi, fr in enumerate(L["frames"]):
        v = L["videos"][fr["video"]]
        img = make_image(np, fr["img_seed"], v["h"], v["w"], v["c"], fr["style"])
        insts = [DInst(i["pts"], i["pred"], np) for i in fr["insts"]]
        lfs.append(DLF(img, videos[fr["video"]], fr["frame_idx"], insts))
    return DLabels(lfs, videos, DSkel(L["edges"]))


# ------------------------------------------------------------------ generation
def f32(x, np):
    return F(float(np.float32(float(x))))


def gen_pts(rng, n_nodes, h, w, p_nan):
    cx, cy = rng.uniform(0.15 * w, 0.85 * w), rng.uniform(0.15 * h, 0.85 * h)
    spread = rng.choice([3, 8, 20, 40])
    pts = []
    for _ in range(n_nodes):
        if rng.random() < p_nan:
            pts.append(None)
            continue
        x = min(max(cx + rng.uniform(-spread, spread), 0.5), w - 1.5)
        y = min(max(cy + rng.uniform(-spread, spread), 0.5), h - 1.5)
        pts.append((F(round(x * 8), 8), F(round(y * 8), 8)))
    if all(p is None for p in pts):
        pts[rng.randrange(n_nodes)] = (F(round(cx * 8), 8), F(round(cy * 8), 8))
    return pts


def gen_labels(rng, mtype, thorough):
    n_nodes = rng.choice([2, 2, 3, 4, 5])
    nodes = list(range(n_nodes))
    rng.shuffle(nodes)
    edges = [(nodes[rng.randrange(i)], nodes[i]) for i in range(1, n_nodes)]
    n_videos = rng.choice([1, 1, 2])
    sizes = [48, 56, 64, 71, 80, 96, 97, 112, 128, 150] + ([160, 200] if thorough else [])
    chan = rng.choice([1, 1, 3])
    videos = [{"n": 4, "h": rng.choice(sizes), "w": rng.choice(sizes),
               "c": chan if rng.random() < 0.85 else 4 - chan} for _ in range(n_videos)]
    n_frames = rng.choice([1, 1, 2, 3])
    frames = []
    p_nan = rng.choice([0, 0, 0.2, 0.5])
    for fi in range(n_frames):
        vi = rng.randrange(n_videos) if fi else 0
        v = videos[vi]
        if mtype == "single":
            k = 1 if rng.random() < 0.9 else 2     # two user instances in a single-instance label set: both kept
        else:
            k = rng.choice([1, 2, 2, 3])
        insts = [{"pts": gen_pts(rng, n_nodes, v["h"], v["w"], p_nan), "pred": False} for _ in range(k)]
        if mtype == "single" and rng.random() < 0.12:
            # a predicted instance next to the user instance (what SLEAP leaves after a correction):
            # get_max_instances counts it, the user filter removes it (finding F181)
            insts.insert(rng.randrange(len(insts) + 1),
                         {"pts": gen_pts(rng, n_nodes, v["h"], v["w"], 0), "pred": True})
        if mtype != "single":
            r = rng.random()
            if r < 0.15:        # an all-NaN (empty) instance somewhere
                insts.insert(rng.randrange(len(insts) + 1), {"pts": [None] * n_nodes, "pred": False})
            elif r < 0.3:       # a predicted instance next to user instances (filtered out)
                insts.insert(rng.randrange(len(insts) + 1),
                             {"pts": gen_pts(rng, n_nodes, v["h"], v["w"], 0), "pred": True})
            elif r < 0.36:      # only predicted instances: kept
                for i in insts:
                    i["pred"] = True
        style = rng.choice(["noise", "smooth"])
        if v["c"] == 3 and v["h"] <= 128 and v["w"] <= 128 and rng.random() < 0.5:
            style = "ramp"
        frames.append({"video": vi, "frame_idx": rng.randrange(4), "img_seed": rng.randrange(1 << 30),
                       "style": style, "insts": insts})
    if rng.random() < 0.05:
        # a labelled frame WITHOUT a non-empty instance (no instance at all / only all-NaN instances / user
        # instances all-NaN next to a predicted one): skipped by the datasets, np.stack([]) in process_lf (F182)
        vi = rng.randrange(n_videos)
        v = videos[vi]
        kind = rng.choice(["none", "nan", "nan_user_pred"])
        insts = [] if kind == "none" else [{"pts": [None] * n_nodes, "pred": False}]
        if kind == "nan_user_pred":
            insts.append({"pts": gen_pts(rng, n_nodes, v["h"], v["w"], 0), "pred": True})
        frames.insert(rng.randrange(len(frames) + 1),
                      {"video": vi, "frame_idx": rng.randrange(4), "img_seed": rng.randrange(1 << 30),
                       "style": "noise", "insts": insts})
    return {"source": "duck", "n_nodes": n_nodes, "edges": edges, "videos": videos, "frames": frames}


def asset_labels(mods):
    """Description of tests/assets/minimal_instance.pkg.slp (real sleap-io objects are used to run it)."""
    labels = mods["sio"].load_slp(str(core.REPO / "tests/assets/minimal_instance.pkg.slp"))
    np = mods["np"]
    frames = []
    for lf in labels:
        insts = []
        for inst in lf.instances:
            pts = inst.numpy()
            insts.append({"pts": [None if np.isnan(p).any() else (f32(p[0], np), f32(p[1], np)) for p in pts],
                          "pred": type(inst).__name__ == "PredictedInstance"})
        frames.append({"video": labels.videos.index(lf.video), "frame_idx": int(lf.frame_idx), "img_seed": 0,
                       "style": "asset", "insts": insts})
    videos = [{"n": int(v.shape[0]), "h": int(v.shape[1]), "w": int(v.shape[2]), "c": int(v.shape[3])}
              for v in labels.videos]
    return {"source": "asset", "n_nodes": len(labels.skeletons[0].nodes),
            "edges": [tuple(int(a) for a in e) for e in labels.skeletons[0].edge_inds],
            "videos": videos, "frames": frames}


def round_half_even_exact(q):
    f = math.floor(q)
    r = q - f
    if r < F(1, 2):
        return f
    if r > F(1, 2):
        return f + 1
    return f if f % 2 == 0 else f + 1


def float_hazard(L, cfg):
    """Inputs on which float64 evaluation of round(h*ratio) / int(h*scale) could
    legitimately fall on the other side of the exact rational (excluded, counted)."""
    return any(_float_hazard(L, b) for b in {ds_hw(cfg, False), st_hw(cfg), dp_max_hw(L, cfg)})


def _float_hazard(L, bounds):
    for v in L["videos"]:
        h, w = v["h"], v["w"]
        mh = h if bounds[0] is None else bounds[0]
        mw = w if bounds[1] is None else bounds[1]
        if (h, w) != (mh, mw):
            hr, wr = F(mh, h), F(mw, w)
            eff = wr if hr > wr else hr
            for n in (h, w):
                fr = (n * eff) % 1
                if abs(fr - F(1, 2)) < F(1, 10 ** 6) and fr != F(1, 2):
                    return True
                if fr == F(1, 2):       # exact tie: float of n*(m/k) may be off by one ulp
                    return True
    return False


def gen_cfg(rng, mtype, L, thorough):
    scales = [F(1), F(1, 2)] + ([F(3, 4), F(1, 4), F(3, 2)] if thorough else [F(3, 4)])
    scale = rng.choice(scales[:2] * 3 + scales[2:])
    maxh = max(v["h"] for v in L["videos"])
    maxw = max(v["w"] for v in L["videos"])
    r = rng.random()
    max_none = False
    if r < 0.4:
        maxh += rng.choice([0, 7, 16, 40])
        maxw += rng.choice([0, 5, 16, 40])
    elif r < 0.52:      # a target SMALLER than (some of) the frames: apply_sizematcher scales down
        maxh = max(24, maxh - rng.choice([0, 8, 16, 24]))
        maxw = max(24, maxw - rng.choice([0, 8, 16, 31]))
    elif r < 0.6:       # max_height = max_width = None everywhere: no size matching at all
        max_none = True
    n = L["n_nodes"]
    # data_config.preprocessing.max_height / max_width: unset, equal to the max_hw argument, or DIFFERENT from it
    # (ModelTrainer hands the labels' maximum to the datasets whatever the config says: finding F180)
    arg = (None, None) if max_none else (maxh, maxw)
    lab = (max(v["h"] for v in L["videos"]), max(v["w"] for v in L["videos"]))
    r = rng.random()
    if r < 0.3:
        cfg_hw = (None, None)
    elif r < 0.55:
        cfg_hw = arg
    elif r < 0.65:
        bh = maxh if not max_none else lab[0]
        bw = maxw if not max_none else lab[1]
        if rng.random() < 0.75:
            cfg_hw = (bh + rng.choice([0, 8, 16, 32, 64]), bw + rng.choice([0, 8, 24, 64]))
        else:
            cfg_hw = (max(24, bh - rng.choice([8, 16])), max(24, bw - rng.choice([0, 8, 16])))
    else:
        # PER DIMENSION (round 6): max_height and max_width are resolved separately (`resolve_max` on each), so each
        # config value is drawn on its own: None / = the argument / = the labels' maximum / larger / smaller; at
        # least one of the two is None in most of these cases (exactly one set: the other falls back to max_hw)
        def one(d):
            base = arg[d] if arg[d] is not None else lab[d]
            k = rng.random()
            if k < 0.2:
                return base
            if k < 0.3:
                return lab[d]
            if k < 0.7:
                return base + rng.choice([8, 16, 24, 32, 64])
            return max(24, base - rng.choice([8, 16, 24]))
        k = rng.random()
        cfg_hw = (one(0), None) if k < 0.4 else (None, one(1)) if k < 0.8 else (one(0), one(1))
        # ... and so is the max_hw argument (the datasets' default is (None, None); a None entry = the image's own size)
        if not max_none and rng.random() < 0.15:
            arg = (None, maxw) if rng.random() < 0.5 else (maxh, None)
    crop = rng.choice([24, 32, 40, 48, 64, 33, 50])
    crop_hw = (crop, crop) if rng.random() < 0.8 else (crop, rng.choice([24, 32, 48, 56]))
    return {
        "mtype": mtype, "scale": scale, "max_stride": rng.choice([1, 16, 32, 16, 32, 2, 8]),
        "is_rgb": rng.random() < 0.4 or any(fr["style"] == "ramp" for fr in L["frames"]),
        "user_only": rng.random() < 0.8, "max_hw": arg,
        "cfg_hw": cfg_hw,
        "anchor": rng.choice([None] + list(range(n))), "crop_hw": crop_hw,
        "sigma": rng.choice([F(3, 2), F(5, 2), F(1), F(5)]), "stride": rng.choice([1, 2, 2, 4]),
        "psigma": rng.choice([F(4), F(15), F(5, 2)]), "pstride": rng.choice([2, 4, 4, 8]),
    }


# ------------------------------------------------------------------ running the implementation
def cfg_hw_of(cfg):
    """data_config.preprocessing.max_height / max_width (older corpus cases: a flag `cfg_max_hw`)."""
    if "cfg_hw" in cfg:
        return tuple(cfg["cfg_hw"])
    return tuple(cfg["max_hw"]) if cfg.get("cfg_max_hw") else (None, None)


def st_hw(cfg):
    """the chunk functions: config value if not None else max_hw (Pipelines.st_maxh / st_maxw)"""
    c, a = cfg_hw_of(cfg), tuple(cfg["max_hw"])
    return (c[0] if c[0] is not None else a[0], c[1] if c[1] is not None else a[1])


def ds_hw(cfg, fx180):
    """the dataset classes: the max_hw argument only (Pipelines.ds_maxh / ds_maxw; fx180: like the chunk functions)"""
    return st_hw(cfg) if fx180 else tuple(cfg["max_hw"])


def eff_bounds(b, v):
    return (v["h"] if b[0] is None else b[0], v["w"] if b[1] is None else b[1])


def frame_empty(fr, user_only):
    return not any(any(p is not None for p in i["pts"]) for i in effective_instances(fr, user_only))


def sel_f180(L, cfg, fx):
    """Pipelines.sel_F180 on some frame that yields a sample"""
    uo = cfg.get("user_only", True)
    return any(eff_bounds(ds_hw(cfg, fx["fx180"]), L["videos"][fr["video"]]) != eff_bounds(st_hw(cfg), L["videos"][fr["video"]])
               for fr in L["frames"] if not frame_empty(fr, uo))


def sel_f181(L, cfg, fx):
    """Pipelines.sel_F181 on some frame that yields a sample"""
    if cfg["mtype"] != "single" or fx["fx181"]:
        return False
    uo = cfg.get("user_only", True)
    maxinst = max(len(fr["insts"]) for fr in L["frames"])
    for fr in L["frames"]:
        if frame_empty(fr, uo):
            continue
        num = sum(1 for i in effective_instances(fr, uo) if any(p is not None for p in i["pts"]))
        if maxinst != 1 and maxinst != num:
            return True
    return False


def sel_f182(L, cfg):
    """Pipelines.sel_F182: a labelled frame without a non-empty instance"""
    return any(frame_empty(fr, cfg.get("user_only", True)) for fr in L["frames"])


SELECTORS = {
    "F180": "config_max_hw_overrides_argument_in_chunk_functions_only",
    "F181": "single_instance_dataset_pads_to_max_instances",
    "F182": "chunk_functions_raise_on_frame_without_nonempty_instance",
}


def data_config(cfg, mods):
    mh, mw = cfg_hw_of(cfg)
    return mods["DictConfig"]({
        "user_instances_only": bool(cfg.get("user_only", True)),
        "preprocessing": {"max_height": mh, "max_width": mw, "scale": float(cfg["scale"]),
                          "is_rgb": bool(cfg["is_rgb"])},
        "use_augmentations_train": False, "augmentation_config": None})


def heads(cfg, mods):
    D = mods["DictConfig"]
    conf = D({"sigma": float(cfg["sigma"]), "output_stride": int(cfg["stride"]), "anchor_part": cfg["anchor"]})
    paf = D({"sigma": float(cfg["psigma"]), "output_stride": int(cfg["pstride"])})
    return conf, paf


def run_dataset(L, cfg, mods, npc_path):
    cd = mods["cd"]
    labels = build_labels(L, mods)
    conf, paf = heads(cfg, mods)
    kw = dict(labels=labels, data_config=data_config(cfg, mods), max_stride=cfg["max_stride"],
              scale=float(cfg["scale"]), apply_aug=False, max_hw=tuple(cfg["max_hw"]),
              np_chunks=npc_path is not None, np_chunks_path=npc_path, confmap_head_config=conf)
    t = cfg["mtype"]
    if t == "single":
        ds = cd.SingleInstanceDataset(**kw)
    elif t == "bottomup":
        ds = cd.BottomUpDataset(pafs_head_config=paf, **kw)
    elif t == "centroid":
        ds = cd.CentroidDataset(**kw)
    else:
        ds = cd.CenteredInstanceDataset(crop_hw=tuple(cfg["crop_hw"]), **kw)
    # every index is read three times (forwards, backwards, forwards): the in-memory dataset serves
    # repeated reads from its cache while the chunk dataset reloads from disk, so a sample that
    # depends on the read history shows up as a disagreement between the frameworks.  The reads
    # handed to the comparison alternate between the first and the last pass.
    n = len(ds)
    first = [ds[i] for i in range(n)]
    _ = [ds[i] for i in reversed(range(n))]
    third = [ds[i] for i in range(n)]
    if npc_path is None:
        return third
    # a second dataset object that REUSES the chunk files (use_existing_chunks=True: no _fill_cache,
    # __len__ counts the .npz files): the same framework, so its samples take part in the comparison
    kw2 = dict(kw, labels=build_labels(L, mods), use_existing_chunks=True)
    if t == "single":
        ds2 = cd.SingleInstanceDataset(**kw2)
    elif t == "bottomup":
        ds2 = cd.BottomUpDataset(pafs_head_config=paf, **kw2)
    elif t == "centroid":
        ds2 = cd.CentroidDataset(**kw2)
    else:
        ds2 = cd.CenteredInstanceDataset(crop_hw=tuple(cfg["crop_hw"]), **kw2)
    if len(ds2) != n:
        raise RuntimeError(f"use_existing_chunks dataset has {len(ds2)} samples, the generating dataset {n}")
    return [ds2[i] if i % 3 == 2 else (third[i] if i % 2 else first[i]) for i in range(n)]


def ser_roundtrip(v, mods):
    """What litdata does to one field of a chunk dict (its own serializers, in memory)."""
    S = mods["S"]
    if isinstance(v, mods["PILImage"]):
        s = S.PILSerializer()
    elif isinstance(v, mods["torch"].Tensor):
        s = S.TensorSerializer()
    elif isinstance(v, int):
        s = S.IntegerSerializer()
    else:
        raise TypeError(f"chunk field of type {type(v).__name__}")
    data, _ = s.serialize(v)
    return s.deserialize(data)


def chunk_fn(cfg, dcfg, max_inst, mods):
    """The function ModelTrainer / get_bin_files hands to litdata.optimize (a functools.partial)."""
    import functools
    gc = mods["gc"]
    t, scale, max_hw = cfg["mtype"], float(cfg["scale"]), tuple(cfg["max_hw"])
    uo = bool(cfg.get("user_only", True))
    if t == "single":
        return functools.partial(gc.single_instance_data_chunks, data_config=dcfg, max_hw=max_hw,
                                 user_instances_only=uo, scale=scale)
    if t == "bottomup":
        return functools.partial(gc.bottomup_data_chunks, data_config=dcfg, max_instances=max_inst, max_hw=max_hw,
                                 user_instances_only=uo, scale=scale)
    if t == "centroid":
        return functools.partial(gc.centroid_data_chunks, data_config=dcfg, max_instances=max_inst,
                                 anchor_ind=cfg["anchor"], max_hw=max_hw, user_instances_only=uo, scale=scale)
    return functools.partial(gc.centered_instance_data_chunks, data_config=dcfg, max_instances=max_inst,
                             crop_size=tuple(cfg["crop_hw"]), anchor_ind=cfg["anchor"], max_hw=max_hw,
                             user_instances_only=uo, scale=scale)


def streaming_dataset(cfg, labels, mods, **kw):
    sd = mods["sd"]
    conf, paf = heads(cfg, mods)
    t = cfg["mtype"]
    common = dict(confmap_head=conf, max_stride=cfg["max_stride"], apply_aug=False, augmentation_config=None, **kw)
    if t == "single":
        return sd.SingleInstanceStreamingDataset(**common)
    if t == "bottomup":
        return sd.BottomUpStreamingDataset(pafs_head=paf, edge_inds=labels.skeletons[0].edge_inds, **common)
    if t == "centroid":
        return sd.CentroidStreamingDataset(**common)
    return sd.CenteredInstanceStreamingDataset(crop_hw=tuple(cfg["crop_hw"]), input_scale=float(cfg["scale"]), **common)


def run_streaming(L, cfg, mods):
    ld = mods["ld"]
    labels = build_labels(L, mods)
    fn = chunk_fn(cfg, data_config(cfg, mods), mods["get_max_instances"](labels), mods)
    items = []
    for lf in labels:
        out = fn((lf, labels.videos.index(lf.video)))
        out = list(out) if cfg["mtype"] == "centered" else [out]
        for ch in out:
            items.append({k: ser_roundtrip(v, mods) for k, v in ch.items()})
    with mock.patch.object(ld.StreamingDataset, "__init__", lambda self, *a, **k: None), \
            mock.patch.object(ld.StreamingDataset, "__getitem__", lambda self, i: dict(self._sv_items[i])):
        ds = streaming_dataset(cfg, labels, mods)
        ds._sv_items = items
        return [ds[i] for i in range(len(items))]


def run_streaming_real(L, cfg, mods, out_dir, chunk_size):
    """The litdata framework with NOTHING stubbed: litdata.optimize (a worker process, the real chunk
    writer, `chunk_size` items per .bin file) on a scratch directory, then the real *StreamingDataset
    (litdata's index/reader, __init__ and __getitem__) — as training/get_bin_files.py + ModelTrainer do."""
    ld = mods["ld"]
    labels = build_labels(L, mods)
    fn = chunk_fn(cfg, data_config(cfg, mods), mods["get_max_instances"](labels), mods)
    ld.optimize(fn=fn, inputs=[(lf, labels.videos.index(lf.video)) for lf in labels], output_dir=str(out_dir),
                chunk_size=chunk_size, num_workers=1, verbose=False)
    n_bins = len(list(out_dir.glob("*.bin")))
    ds = streaming_dataset(cfg, labels, mods, input_dir=str(out_dir), shuffle=False)
    return [ds[i] for i in range(len(ds))], n_bins


# ------------------------------------------------------------------ the composed legacy pipelines (pipelines.py)
def dp_max_hw(L, cfg):
    """What SizeMatcher pads to: the config's bounds; both None: the provider's maximum over videos; exactly ONE
    None: that bound is latched by the FIRST image the reader yields (Pipelines.dp_sizematcher_run,
    Props.c18_dp_sizematcher_run_step / _latch: every later image sees Some of the first image's size)."""
    c = cfg_hw_of(cfg)
    if c[0] is None and c[1] is None:
        return max(v["h"] for v in L["videos"]), max(v["w"] for v in L["videos"])
    if c[0] is not None and c[1] is not None:
        return c
    uo = cfg.get("user_only", True)
    first = next((fr for fr in L["frames"] if not (uo and not frame_has_user(fr))), None)
    if first is None:
        return c
    v = L["videos"][first["video"]]
    return (c[0] if c[0] is not None else v["h"], c[1] if c[1] is not None else v["w"])


def run_datapipe(L, cfg, mods):
    """LabelsReaderDP -> *Pipeline.make_training_pipeline (augmentation off).
    -> (examples yielded, the exception that ended the iteration or None)"""
    pl, prov = mods["pipelines"], mods["providers"]
    labels = build_labels(L, mods)
    conf, paf = heads(cfg, mods)
    dcfg = data_config(cfg, mods)
    duck = L["source"] != "asset"
    ctx = mock.patch.object(prov.sio, "Labels", lambda videos, skeletons, labeled_frames:
                            DLabels(labeled_frames, videos, skeletons[0])) if duck else contextlib.nullcontext()
    with ctx:
        provider = prov.LabelsReaderDP(labels, user_instances_only=bool(cfg.get("user_only", True)))
    t = cfg["mtype"]
    if t == "single":
        p = pl.SingleInstanceConfmapsPipeline(dcfg, cfg["max_stride"], conf)
    elif t == "bottomup":
        p = pl.BottomUpPipeline(dcfg, cfg["max_stride"], conf, paf)
    elif t == "centroid":
        p = pl.CentroidConfmapsPipeline(dcfg, cfg["max_stride"], conf)
    else:
        p = pl.TopdownConfmapsPipeline(dcfg, cfg["max_stride"], conf, tuple(cfg["crop_hw"]))
    out, err = [], None
    try:
        for ex in p.make_training_pipeline(provider, use_augmentations=False):
            out.append(dict(ex))
    except Exception as e:  # noqa: BLE001
        err = e
    return out, err


def frame_has_user(fr):
    return any(not i["pred"] for i in fr["insts"])


def dp_domain(L, cfg, fx=None):
    """Where Props.c18_dp_*_pipeline prove the composed legacy pipeline equal to the in-memory dataset:
    every frame is kept by the reader, both size matchers only pad, top-down at scale 1."""
    fx = fx or FX
    if ds_hw(cfg, fx["fx180"])[0] is None:
        return False                     # datasets: no size matching; SizeMatcher: pads to the provider's maximum
    mh, mw = ds_hw(cfg, fx["fx180"])
    if dp_max_hw(L, cfg) != (mh, mw):
        return False
    if sel_f182(L, cfg):
        return False                     # the reader raises on (or drops) a frame the dataset skips
    if cfg["mtype"] == "single" and fx["fx181"] and max(len(fr["insts"]) for fr in L["frames"]) != 1:
        return False                     # repaired dataset: no padding; the reader pads to max_instances
    if cfg.get("user_only", True) and not all(frame_has_user(fr) for fr in L["frames"]):
        return False
    for fr in L["frames"]:
        v = L["videos"][fr["video"]]
        if not (v["h"] <= mh and v["w"] <= mw and (v["h"] == mh or v["w"] == mw)):
            return False
    return cfg["mtype"] != "centered" or cfg["scale"] == 1


FX = {"fx180": False, "fx181": False}     # which repairs the code under test has (set by detect_fx at run time)


DP_KEYS = {
    "single": (["image"], ["instances"], ["confidence_maps"]),
    "bottomup": (["image"], [], ["confidence_maps", "part_affinity_fields"]),
    "centroid": (["image"], [], ["centroids_confidence_maps"]),
    "centered": (["instance_image"], ["instance", "centroid"], ["confidence_maps"]),
}


def dp_oracle(L, cfg, dp, mem, mods):
    """Composed legacy pipeline vs in-memory dataset, same (frame, instance).  None or reason."""
    out, err = dp
    if err is not None:
        return f"the composed DataPipe pipeline raised {type(err).__name__}: {str(err)[:200]}"
    if isinstance(mem, Exception):
        return None
    if len(out) != len(mem):
        return f"{len(out)} examples vs {len(mem)} dataset samples"
    imgs, pts, maps = DP_KEYS[cfg["mtype"]]
    if cfg["mtype"] == "centered":
        # kornia's crop_and_resize interpolates ONCE in the block (one crop) and TWICE in the datasets (sqrt-2
        # over-crop, re-crop at a possibly half-integer offset): same geometry (Props.c18_double_crop, tied by
        # the content-map probe on ramp frames), different pixel values on textured images -> not compared here
        imgs = []
    for i, (a, b) in enumerate(zip(out, mem)):
        for k in ("frame_idx", "video_idx"):
            if int(a[k]) != int(b[k]):
                return f"example {i}: {k} {int(a[k])} vs {int(b[k])}"
        for keys, atol, rtol in ((imgs, 2e-6, 0), (pts, PT_ATOL, PT_RTOL), (maps, MAP_ATOL, 0)):
            for k in keys:
                if k not in a:
                    return f"example {i}: key {k} missing from the DataPipe example"
                r = close(canon(k, a[k], L["n_nodes"], mods), canon(k, b[k], L["n_nodes"], mods), atol, rtol, mods)
                if r:
                    return f"example {i}: {k}: {r}"
    return None


def dp_model_terms(L, cfg, wt):
    """[(frame index, k, term)] for the frames the reader keeps, in order."""
    maxinst = max(len(fr["insts"]) for fr in L["frames"])
    uo = cfg.get("user_only", True)
    ct = cfg_term(cfg, L, wt, max_hw=dp_max_hw(L, cfg))
    plan = []
    for fi, fr in enumerate(L["frames"]):
        if uo and not frame_has_user(fr):
            continue
        if frame_empty(fr, uo):
            # LabelsReaderDP keeps the frame and np.stack([]) raises inside its __iter__ (mirrored here, not in Coq)
            plan.append((fi, None, None))
            break
        ft = frame_term(L, fr, maxinst, uo)
        if cfg["mtype"] == "centered":
            ne = [i for i in effective_instances(fr, uo) if any(p is not None for p in i["pts"])]
            plan += [(fi, k, f"CDPipe (Centered {k}%nat) {ct} {ft}") for k in range(len(ne))]
        else:
            t = {"single": "Single", "bottomup": "BottomUp", "centroid": "Centroid"}[cfg["mtype"]]
            plan.append((fi, None, f"CDPipe {t} {ct} {ft}"))
    return plan


def dp_compare_with_model(L, cfg, dp, plan, ms, mods, stats):
    """Examples of the composed pipeline vs Pipelines.dp_pipeline; [] in the model = SizeMatcher raises there."""
    out, err = dp
    n_ok = 0
    for m in ms:
        if not m:
            break
        n_ok += 1
    raises = n_ok < len(ms)
    if raises and err is None:
        return f"the model says SizeMatcher raises at example {n_ok}; the pipeline yielded {len(out)} examples without error"
    if not raises and err is not None:
        return f"the pipeline raised {type(err).__name__}: {str(err)[:200]}; the model yields {len(ms)} examples"
    if len(out) != n_ok:
        return f"{len(out)} examples before the end, the model {n_ok}"
    for i in range(n_ok):
        fi = plan[i][0]
        why = compare_with_model(cfg["mtype"], "DP", out[i], ms[i][0], L, mods, L["frames"][fi], stats, lenient=True)
        if why:
            return f"example {i}: {why}"
    return None


def run_frameworks(L, cfg, mods, scratch, lit=None):
    """-> {fw: list of sample dicts | Exception}; plus "DP": (examples, exception) of the composed legacy
    pipeline, and, when `lit` (= chunk_size) is given, "Lit": the real litdata round trip on disk."""
    res = {}
    for fw in FWS:
        try:
            if fw == "Mem":
                res[fw] = run_dataset(L, cfg, mods, None)
            elif fw == "Npc":
                d = scratch / "npz"
                shutil.rmtree(d, ignore_errors=True)
                d.mkdir(parents=True)
                res[fw] = run_dataset(L, cfg, mods, str(d))
                shutil.rmtree(d, ignore_errors=True)
            else:
                res[fw] = run_streaming(L, cfg, mods)
        except Exception as e:  # noqa: BLE001
            res[fw] = e
    try:
        res["DP"] = run_datapipe(L, cfg, mods)
    except Exception as e:  # noqa: BLE001
        res["DP"] = ([], e)
    if lit:
        d = scratch / "lit"
        shutil.rmtree(d, ignore_errors=True)
        try:
            res["Lit"], res["Lit_bins"] = run_streaming_real(L, cfg, mods, d, lit)
        except Exception as e:  # noqa: BLE001
            res["Lit"], res["Lit_bins"] = e, 0
        shutil.rmtree(d, ignore_errors=True)
    return res


# ------------------------------------------------------------------ the property, executable
def tens(v, mods):
    torch = mods["torch"]
    return v.float() if isinstance(v, torch.Tensor) else torch.as_tensor(v).float()


def canon(key, v, n_nodes, mods):
    """Unit axes are canonicalised away (DESIGN 6.1: `instance` is (1,1,n,2) in the
    streaming class, (1,n,2) elsewhere)."""
    t = tens(v, mods)
    if key in ("instances", "instance"):
        return t.reshape(-1, n_nodes, 2)
    if key in ("centroids", "centroid"):
        return t.reshape(-1, 2)
    if key in ("image", "instance_image"):
        return t.reshape((-1,) + tuple(t.shape[-2:]))
    return t.reshape((-1,) + tuple(t.shape[-2:]))        # maps: (channels, h, w)


def close(a, b, atol, rtol, mods):
    torch = mods["torch"]
    if tuple(a.shape) != tuple(b.shape):
        return f"shape {tuple(a.shape)} vs {tuple(b.shape)}"
    na, nb = torch.isnan(a), torch.isnan(b)
    if not torch.equal(na, nb):
        return "NaN pattern differs"
    if a.numel() == 0:
        return None
    d = torch.nan_to_num(a - b).abs()
    lim = atol + rtol * torch.nan_to_num(b).abs()
    if bool((d > lim).any()):
        i = int(torch.argmax(d - lim))
        return f"max |diff| {float(d.flatten()[i]):.6g} (limit {float(lim.flatten()[i]):.3g}) at flat index {i}"
    if not bool(torch.isfinite(torch.nan_to_num(a)).all()):
        return "non-finite value"
    return None


def compare_samples(mtype, a, b, n_nodes, mods, quantised):
    """The property's clause for one pair of samples.  None or a reason."""
    imgs, pts, maps = KEYS[mtype]
    for k in ("frame_idx", "video_idx"):
        if int(a[k]) != int(b[k]):
            return f"{k}: {int(a[k])} vs {int(b[k])} (samples are not for the same frame)"
    for k in imgs:
        r = close(canon(k, a[k], n_nodes, mods), canon(k, b[k], n_nodes, mods),
                  IMG_TOL if quantised else 2e-6, 0, mods)
        if r:
            return f"{k}: {r}"
    for k in pts:
        r = close(canon(k, a[k], n_nodes, mods), canon(k, b[k], n_nodes, mods), PT_ATOL, PT_RTOL, mods)
        if r:
            return f"{k}: {r}"
    for k in maps:
        r = close(canon(k, a[k], n_nodes, mods), canon(k, b[k], n_nodes, mods), MAP_ATOL, 0, mods)
        if r:
            return f"{k}: {r}"
    return None


def in_domain(cfg, pair):
    """Where the property demands agreement."""
    if pair == ("Mem", "Npc"):
        return True
    return cfg["mtype"] != "centered" or cfg["scale"] == 1


def oracle(L, cfg, res, mods):
    """-> list of (pair, reason)"""
    bad = []
    for fw in FWS:
        if isinstance(res[fw], Exception):
            bad.append(((fw,), f"{fw} raised {type(res[fw]).__name__}: {res[fw]}"))
    if isinstance(res["Mem"], Exception) or isinstance(res["Npc"], Exception):
        return bad
    if isinstance(res.get("Lit"), Exception):
        bad.append((("Lit",), f"litdata.optimize + *StreamingDataset raised {type(res['Lit']).__name__}: {str(res['Lit'])[:300]}"))
    pairs = [("Mem", "Npc")] + ([("Mem", "Str")] if not isinstance(res["Str"], Exception) else []) + \
            ([("Mem", "Lit")] if isinstance(res.get("Lit"), list) else [])
    for pair in pairs:
        if not in_domain(cfg, pair):
            continue
        A, B = res[pair[0]], res[pair[1]]
        if len(A) != len(B):
            bad.append((pair, f"{len(A)} samples vs {len(B)} samples"))
            continue
        for i, (a, b) in enumerate(zip(A, B)):
            r = compare_samples(cfg["mtype"], a, b, L["n_nodes"], mods, True)
            if r:
                bad.append((pair, f"sample {i}: {r}"))
                break
    if "DP" in res and dp_domain(L, cfg):
        r = dp_oracle(L, cfg, res["DP"], res["Mem"], mods)
        if r:
            bad.append((("DP", "Mem"), r))
    return bad


# ------------------------------------------------------------------ the Coq model
def ckp(p):
    return "None" if p is None else f"(Some ({core.cq(p[0])}, {core.cq(p[1])}))"


def cinsts(insts):
    return core.clist(insts, lambda i: core.clist(i, ckp))


def effective_instances(fr, user_only=True):
    """lf.instances after `if user_instances_only and user_instances: lf.instances = lf.user_instances`."""
    user = [i for i in fr["insts"] if not i["pred"]]
    return user if (user and user_only) else fr["insts"]


def cfg_term(cfg, L, wt, max_hw=None):
    a = "None" if cfg["anchor"] is None else f"(Some {cfg['anchor']}%nat)"
    mh, mw = max_hw if max_hw is not None else cfg["max_hw"]
    return ("{| c_rgb := %s; c_maxh := %s; c_maxw := %s; c_scale := %s; c_ms := %s; c_anchor := %s; "
            "c_croph := %s; c_cropw := %s; c_sigma := %s; c_stride := %d%%nat; c_psigma := %s; c_pstride := %d%%nat; "
            "c_edges := %s; c_wt := %s |}") % (
        core.cbool(cfg["is_rgb"]), core.copt(mh, core.cz), core.copt(mw, core.cz), core.cq(cfg["scale"]),
        core.cz(cfg["max_stride"]), a,
        core.cz(cfg["crop_hw"][0]), core.cz(cfg["crop_hw"][1]), core.cq(cfg["sigma"]), cfg["stride"],
        core.cq(cfg["psigma"]), cfg["pstride"],
        core.clist(L["edges"], lambda e: f"({e[0]}%nat, {e[1]}%nat)"), core.cbool(wt))


def frame_term(L, fr, maxinst, user_only=True):
    v = L["videos"][fr["video"]]
    raw = [i["pts"] for i in effective_instances(fr, user_only)]
    return "{| f_h := %s; f_w := %s; f_c := %s; f_raw := %s; f_maxinst := %d%%nat |}" % (
        core.cz(v["h"]), core.cz(v["w"]), core.cz(v["c"]), cinsts(raw), maxinst)


def sample_plan(L, cfg):
    """[(frame index, k or None)] in the order every framework enumerates its samples."""
    plan = []
    for fi, fr in enumerate(L["frames"]):
        if frame_empty(fr, cfg.get("user_only", True)):
            continue            # skipped by the datasets; the chunk functions raise on it (F182)
        if cfg["mtype"] == "centered":
            ne = [i for i in effective_instances(fr, cfg.get("user_only", True))
                  if any(p is not None for p in i["pts"])]
            plan += [(fi, k) for k in range(len(ne))]
        else:
            plan.append((fi, None))
    return plan


def x_term(cfg, fx):
    c, a = cfg_hw_of(cfg), tuple(cfg["max_hw"])
    return ("{| x_cfgh := %s; x_cfgw := %s; x_argh := %s; x_argw := %s; x_fx180 := %s; x_fx181 := %s |}" % (
        core.copt(c[0], core.cz), core.copt(c[1], core.cz), core.copt(a[0], core.cz), core.copt(a[1], core.cz),
        core.cbool(fx["fx180"]), core.cbool(fx["fx181"])))


def enum_terms(L, cfg):
    """Pipelines.fw_counts for the three frameworks: per frame, how many samples; null = raises"""
    maxinst = max(len(fr["insts"]) for fr in L["frames"])
    kd = {"single": "KSingle", "bottomup": "KBottomUp", "centroid": "KCentroid", "centered": "KCentered"}[cfg["mtype"]]
    frames = core.clist(L["frames"], lambda fr: frame_term(L, fr, maxinst, cfg.get("user_only", True)))
    return [f"ECount {kd} {fw} {frames}" for fw in FWS]


def enum_check(L, cfg, res, counts):
    """the real frameworks' enumeration (which frames, how many samples each, or an exception) vs fw_counts"""
    for fw, cnt in zip(FWS, counts):
        r = res[fw]
        if cnt is None:
            if not isinstance(r, Exception):
                return f"{fw}: the model says the framework raises, the code returned {len(r)} samples"
            if not (isinstance(r, ValueError) and "at least one array" in str(r)):
                return f"{fw}: the model says np.stack([]) raises ValueError, the code raised {type(r).__name__}: {r}"
            continue
        if isinstance(r, Exception):
            return f"{fw}: raised {type(r).__name__}: {r}; the model yields {sum(cnt)} samples"
        want = [(L["frames"][fi]["video"], L["frames"][fi]["frame_idx"]) for fi, n in enumerate(cnt) for _ in range(n)]
        got = [(int(x["video_idx"]), int(x["frame_idx"])) for x in r]
        if want != got:
            return f"{fw}: samples come from (video, frame_idx) {got}, the model's enumeration is {want}"
    return None


def model_terms(L, cfg, wt):
    maxinst = max(len(fr["insts"]) for fr in L["frames"])        # get_max_instances: before any filtering
    ct = cfg_term(cfg, L, wt, max_hw=(None, None))               # the bounds come from x (fw_cfg), per framework
    xt = x_term(cfg, FX)
    terms = []
    for fi, k in sample_plan(L, cfg):
        ft = frame_term(L, L["frames"][fi], maxinst, cfg.get("user_only", True))
        t = {"single": "Single", "bottomup": "BottomUp", "centroid": "Centroid"}.get(cfg["mtype"]) or f"(Centered {k}%nat)"
        for fw in FWS:
            terms.append(f"CPipeX {t} {fw} {xt} {ct} {ft}")
    return terms


def q2f(j):
    return None if j is None else j[0] / j[1]


def pts_tensor(pts, mods):
    nan = float("nan")
    return mods["torch"].tensor([[nan, nan] if p is None else [q2f(p[0]), q2f(p[1])] for p in pts],
                                dtype=mods["torch"].float32).reshape(len(pts), 2)


def probe_content_map(img, geom, v, fw, mods, out_margin=0):
    """Ramp frame (R = 2x, G = 2y, B = 1): every valid output pixel tells which source
    coordinate it shows; compare with the model's content map x_out = ma*x_src + mb.
    -> (reason or None, number of pixels probed)"""
    torch = mods["torch"]
    (c, h, w), gx, gy, _, _ = geom
    if c != 3:
        return None, 0
    ax, bx, ay, by = q2f(gx[0]), q2f(gx[1]), q2f(gy[0]), q2f(gy[1])
    quant = fw not in ("Mem", "DP")
    R, G, B = img[0, 0].double(), img[0, 1].double(), img[0, 2].double()
    xs = (torch.arange(w, dtype=torch.float64) - bx) / ax
    ys = (torch.arange(h, dtype=torch.float64) - by) / ay
    mx, my = 3 * max(1.0, 1.0 / ax), 3 * max(1.0, 1.0 / ay)
    okx = (xs >= mx) & (xs <= v["w"] - 1 - mx)
    oky = (ys >= my) & (ys <= v["h"] - 1 - my)
    if out_margin:      # a RESIZED CROP (composed top-down pipeline at scale != 1): resampling clamps at the crop's own border
        ix, iy = torch.arange(w), torch.arange(h)
        okx &= (ix >= out_margin) & (ix <= w - 1 - out_margin)
        oky &= (iy >= out_margin) & (iy <= h - 1 - out_margin)
    valid = B > (0.995 if quant else 0.99999)
    if out_margin:      # ... and stay that far away from the stride padding that follows the resized crop
        inv = (~valid).float()[None, None]
        valid = valid & ~(torch.nn.functional.max_pool2d(inv, 2 * out_margin + 1, stride=1, padding=out_margin)[0, 0] > 0)
    mask = valid & okx[None, :] & oky[:, None]
    n = int(mask.sum())
    if n == 0:
        return None, 0
    ex = float((R * 255 / 2 - xs[None, :]).abs()[mask].max())
    ey = float((G * 255 / 2 - ys[:, None]).abs()[mask].max())
    tol = 1.0 if quant else 0.08     # antialiased non-integer resampling of a ramp is linear only to ~0.04 px
    if not quant and min(ax, ay) < 1 and ((ax * 8) % 1 or (ay * 8) % 1):
        tol = 0.15                   # size matcher scaling DOWN by a non-dyadic ratio (max_hw < frame): wider antialias kernel
    if max(ex, ey) > tol:
        return (f"content map: pixels show source coordinates off by ({ex:.4g}, {ey:.4g}) px from the model's map "
                f"x: {ax}*x+{bx}, y: {ay}*y+{by} (tolerance {tol})"), n
    return None, n


def compare_with_model(mtype, fw, smp, m, L, mods, fr=None, stats=None, lenient=False):
    """One real sample vs the model's `out` (JSON).  None or reason."""
    torch = mods["torch"]
    n = L["n_nodes"]
    geom, pts, cents, num, tl, cm, paf = m
    (c, h, w), gx, gy, isfloat, nq = geom
    imgs, _, maps = KEYS[mtype]
    img = smp[imgs[0]]
    if tuple(img.shape) != (1, c, h, w):
        return f"{imgs[0]} shape {tuple(img.shape)} vs model {(1, c, h, w)}"
    if not isfloat or img.dtype != torch.float32 or float(img.max()) > 1.0 + 1e-6 or float(img.min()) < -1e-6:
        return f"{imgs[0]}: dtype {img.dtype}, range [{float(img.min())}, {float(img.max())}], model float={isfloat}"
    if nq != (0 if fw in ("Mem", "DP") else 1):
        return f"model counts {nq} 8-bit round trips for {fw}"
    if fr is not None and fr.get("style") == "ramp":
        r, npx = probe_content_map(img, geom, L["videos"][fr["video"]], fw, mods,
                                   out_margin=3 if (fw == "DP" and mtype == "centered") else 0)
        if stats is not None:
            stats["content_map_pixels_probed"] = stats.get("content_map_pixels_probed", 0) + npx
            stats["content_map_samples_probed"] = stats.get("content_map_samples_probed", 0) + (npx > 0)
        if r:
            return r
    pk = "instance" if mtype == "centered" else "instances"
    mpts = torch.stack([pts_tensor(i, mods) for i in pts]) if pts else torch.zeros((0, n, 2))
    if pk in smp or not lenient:           # lenient: KeyFilter of the legacy pipelines drops some keys
        got = canon(pk, smp[pk], n, mods)
        r = close(got, mpts, PT_ATOL, PT_RTOL, mods)
        if r:
            return f"{pk} vs model: {r}"
    if mtype in ("centroid", "centered"):
        ck = "centroid" if mtype == "centered" else "centroids"
        if ck in smp or not lenient:
            r = close(canon(ck, smp[ck], n, mods), pts_tensor(cents, mods), PT_ATOL, PT_RTOL, mods)
            if r:
                return f"{ck} vs model: {r}"
    if ("num_instances" in smp or not lenient) and int(smp["num_instances"]) != num:
        return f"num_instances {int(smp['num_instances'])} vs model {num}"
    if mtype == "centered":
        r = close(tens(smp["instance_bbox"], mods).reshape(4, 2)[0:1], pts_tensor([tl], mods), PT_ATOL, PT_RTOL, mods)
        if r:
            return f"instance_bbox top-left vs model: {r}"
    # targets re-generated from the model's target inputs (points, H, W, sigma, stride)
    cpts, H, W, sg, s = cm
    sg = q2f(sg)
    cmod = mods["cm"]
    pt = torch.stack([pts_tensor(i, mods) for i in cpts]).unsqueeze(0) if cpts else torch.zeros((1, 0, 1, 2))
    if mtype in ("single", "centered"):
        want = cmod.generate_confmaps(pt, (H, W), sg, s)
    else:
        want = cmod.generate_multiconfmaps(pt, (H, W), len(cpts), sg, s, False)
    r = close(tens(smp[maps[0]], mods), want, MAP_ATOL, 0, mods)
    if r:
        return f"{maps[0]} vs targets generated from the model's inputs (H={H}, W={W}, sigma={sg}, stride={s}): {r}"
    if mtype == "bottomup":
        npaf, H, W, psg, ps, edges = paf
        want = mods["em"].generate_pafs(mpts.unsqueeze(0), (H, W), q2f(psg), ps, torch.Tensor(edges), True)
        r = close(tens(smp["part_affinity_fields"], mods), want, MAP_ATOL, 0, mods)
        if r:
            return f"part_affinity_fields vs PAFs generated from the model's inputs: {r}"
    elif paf is not None:
        return "model has PAF inputs for a model type without PAFs"
    return None


# ------------------------------------------------------------------ DataPipe blocks vs functions
def geom_term(h, w, c, isfloat):
    return f"(Build_geom {core.cz(h)} {core.cz(w)} {core.cz(c)} aid aid {core.cbool(isfloat)} 0%nat)"


def rand_insts(rng, m, n, h, w, p_nan, allow_empty=True):
    out = []
    for _ in range(m):
        pts = gen_pts(rng, n, h, w, p_nan)
        if allow_empty and rng.random() < 0.1:
            pts = [None] * n
        out.append(pts)
    return out


def insts_tensor(insts, mods):
    return mods["torch"].stack([pts_tensor([None if p is None else ([p[0].numerator, p[0].denominator],
                                                                     [p[1].numerator, p[1].denominator])
                                            for p in i], mods) for i in insts]).unsqueeze(0)


def gen_block(rng, kind):
    h, w = rng.choice([17, 24, 33, 40, 64]), rng.choice([17, 24, 31, 40, 64])
    b = {"kind": kind, "h": h, "w": w, "c": rng.choice([1, 3]), "seed": rng.randrange(1 << 30)}
    n = rng.choice([1, 2, 3, 4])
    m = rng.choice([1, 2, 3])
    b["n"], b["m"] = n, m
    if kind == "norm":
        b.update(is_rgb=rng.random() < 0.5, isfloat=rng.random() < 0.4)
    elif kind == "resize":
        b.update(scale=rng.choice([F(1), F(1, 2), F(3, 4), F(1, 4), F(2), F(3, 2)]),
                 key=rng.choice(["instances", "instance"]), insts=rand_insts(rng, m, n, h, w, 0.2))
    elif kind == "pad":
        b.update(ms=rng.choice([1, 2, 8, 16, 32]))
    elif kind == "centroid":
        b.update(anchor=rng.choice([None] + list(range(n))), insts=rand_insts(rng, m, n, h, w, rng.choice([0, 0.4, 0.7])))
    elif kind == "crop":
        insts = rand_insts(rng, m, n, h, w, 0.2, allow_empty=False)
        cents = [next(p for p in i if p is not None) for i in insts]
        cents = [(c[0] + F(rng.randrange(-16, 17), 8), c[1] + F(rng.randrange(-16, 17), 8)) for c in cents]
        b.update(insts=insts, cents=cents, num=rng.randint(0, m), crop=(rng.choice([8, 16, 21, 32]), rng.choice([8, 16, 24])))
    elif kind == "sm":
        # SizeMatcher vs apply_sizematcher: equal / one side larger (both only pad: the proven common domain),
        # both sides larger (block pads, function rescales), a side smaller (block raises, function scales down)
        while True:
            mode = rng.choice(["same", "pad_h", "pad_w", "both", "smaller"])
            dh, dw = rng.choice([3, 8, 16, 25]), rng.choice([4, 9, 16, 31])
            mh = h + (dh if mode in ("pad_h", "both") else -min(dh, h - 8) if mode == "smaller" else 0)
            mw = w + (dw if mode in ("pad_w", "both") else -min(dw, w - 8) if mode == "smaller" and rng.random() < 0.5 else 0)
            eff = min(F(mh, h), F(mw, w))
            if all(abs((k * eff) % 1 - F(1, 2)) > F(1, 1000) for k in (h, w)):
                break
        b.update(mh=mh, mw=mw, mode=mode)
    elif kind == "smrun":
        # SizeMatcher as a STATEFUL iteration: 2-3 images of different sizes through ONE block object; a None bound
        # is fixed by the first image (resizing.py: `self.max_height = img_height`), a later larger image raises
        k = rng.choice([2, 3, 3])
        sizes = [(h, w)] + [(rng.choice([h, h, h - 5, h + 6, 24]), rng.choice([w, w, w - 4, w + 7, 31])) for _ in range(k - 1)]
        mode = rng.choice(["none_none", "some_none", "none_some", "some_some"])
        big_h, big_w = max(a for a, _ in sizes), max(b_ for _, b_ in sizes)
        mh = None if mode in ("none_none", "none_some") else rng.choice([big_h, big_h + 9, h])
        mw = None if mode in ("none_none", "some_none") else rng.choice([big_w, big_w + 5, w])
        b.update(sizes=sizes, mh=mh, mw=mw)
    elif kind == "rd":
        nf = rng.choice([1, 2])
        frames = []
        for _ in range(nf):
            k = rng.choice([1, 1, 2, 3])
            insts = [{"pts": gen_pts(rng, n, h, w, 0.2), "pred": rng.random() < 0.3} for _ in range(k)]
            if rng.random() < 0.2:
                insts.insert(rng.randrange(k + 1), {"pts": [None] * n, "pred": False})
            if all(all(p is None for p in i["pts"]) for i in insts if not i["pred"]) and any(not i["pred"] for i in insts):
                insts[0] = {"pts": gen_pts(rng, n, h, w, 0), "pred": False}     # user instances all empty: np.stack raises
            frames.append(insts)
        b.update(frames=frames, user_only=rng.random() < 0.7)
    elif kind in ("cm", "mcm", "ccm", "paf"):
        nodes = list(range(max(n, 2)))
        b["n"] = n = max(n, 2) if kind == "paf" else n
        insts = rand_insts(rng, m, n, h, w, 0.2, allow_empty=(kind != "paf"))
        num = m
        if kind == "paf" and rng.random() < 0.45:
            # an animal whose only candidate in-image node sits on / next to the image border (inside the last
            # pixel strip, exactly on the last pixel, just outside), its other nodes outside the image: the block
            # and the function must make the same keep / drop decision and draw the same field
            j = rng.randrange(m)
            e8 = F(rng.randrange(1, 8), 8)
            x0, y0 = rng.choice([(w - 1 + e8, F(h, 2)), (F(w, 2), h - 1 + e8), (F(w - 1), F(h, 2)), (F(w, 2), F(h - 1)),
                                 (F(w), F(h, 2)), (-e8, F(h, 2)), (F(0), F(h, 2)), (F(w, 2), -e8), (F(w, 2), F(0))])
            out = lambda: (F(w + rng.randrange(2, 9)), F(h + rng.randrange(2, 9)))
            insts[j] = [(x0, y0)] + [out() for _ in range(n - 1)]
        if kind in ("mcm", "paf") and rng.random() < 0.5:      # NaN padding beyond num_instances (process_lf)
            pad = rng.choice([1, 2])
            insts = insts + [[None] * n] * pad
        if kind == "ccm":
            num = rng.randint(0, m)
        b.update(insts=insts, num=num, sigma=rng.choice([1.0, 1.5, 2.5, 5.0]), stride=rng.choice([1, 2, 4]),
                 edges=[(rng.randrange(i), i) for i in range(1, n)], key=rng.choice(["instances", "instance"]))
    return b


def block_image(b, mods, isfloat=True):
    np, torch = mods["np"], mods["torch"]
    img = make_image(np, b["seed"], b["h"], b["w"], b["c"], "noise")
    t = torch.from_numpy(np.transpose(img, (2, 0, 1))).unsqueeze(0)
    return t.float() / 255.0 if isfloat else t


def run_block(b, mods, wt):
    """-> (reason or None, [coq terms], checker(model outs) -> reason or None)"""
    torch = mods["torch"]
    k = b["kind"]
    eq = lambda a, c, tol=1e-6: close(a.float(), c.float(), tol, 0, mods)
    first = lambda dp: [dict(e) for e in dp]
    if k == "norm":
        img = block_image(b, mods, b["isfloat"])
        dp = first(mods["norm"].Normalizer([{"image": img.clone()}], is_rgb=b["is_rgb"]))[0]["image"]
        fn = mods["norm"].apply_normalization(img.clone())
        fn = mods["norm"].convert_to_rgb(fn) if b["is_rgb"] else mods["norm"].convert_to_grayscale(fn)
        terms = [f"CBlockNorm {core.cbool(d)} {core.cbool(b['is_rgb'])} {geom_term(b['h'], b['w'], b['c'], b['isfloat'])}"
                 for d in (True, False)]

        def chk(ms):
            for m, t in zip(ms, (dp, fn)):
                (c, h, w), _, _, isf, _ = m[0][0]
                if tuple(t.shape) != (1, c, h, w) or not isf or t.dtype != torch.float32:
                    return f"Normalizer model {(c, h, w, isf)} vs impl {tuple(t.shape)} {t.dtype}"
        return eq(dp, fn), terms, chk
    if k == "resize":
        img = block_image(b, mods)
        ik = "image" if b["key"] == "instances" else "instance_image"
        pts = insts_tensor(b["insts"], mods)
        if b["key"] == "instance":
            pts = pts[:, 0]
        ex = first(mods["rs"].Resizer([{ik: img.clone(), b["key"]: pts.clone()}], scale=float(b["scale"]),
                                      image_key=ik, instances_key=b["key"]))[0]
        fi, fp = mods["rs"].apply_resizer(img.clone(), pts.clone(), scale=float(b["scale"]))
        r = eq(ex[ik], fi) or close(ex[b["key"]], fp, 1e-6, 0, mods)
        flat = [p for i in (b["insts"] if b["key"] == "instances" else b["insts"][:1]) for p in i]
        terms = [f"CBlockResize {core.cbool(d)} {core.cq(b['scale'])} {geom_term(b['h'], b['w'], b['c'], True)} "
                 f"{core.clist(flat, ckp)}" for d in (True, False)]

        def chk(ms):
            for m, (ti, tp) in zip(ms, ((ex[ik], ex[b["key"]]), (fi, fp))):
                (c, h, w), _, _, _, _ = m[0][0]
                if tuple(ti.shape) != (1, c, h, w):
                    return f"Resizer model size {(c, h, w)} vs impl {tuple(ti.shape)}"
                rr = close(tp.reshape(-1, 2), pts_tensor(m[0][1][0], mods), PT_ATOL, PT_RTOL, mods)
                if rr:
                    return f"Resizer points vs model: {rr}"
        return r, terms, chk
    if k == "pad":
        img = block_image(b, mods)
        dp = first(mods["rs"].PadToStride([{"image": img.clone()}], max_stride=b["ms"]))[0]["image"]
        fn = mods["rs"].apply_pad_to_stride(img.clone(), b["ms"])
        terms = [f"CBlockPad {core.cz(b['ms'])} {geom_term(b['h'], b['w'], b['c'], True)}"]

        def chk(ms):
            (c, h, w), _, _, _, _ = ms[0][0][0]
            if tuple(dp.shape) != (1, c, h, w):
                return f"PadToStride model size {(c, h, w)} vs impl {tuple(dp.shape)}"
            if not torch.equal(dp[..., :b["h"], :b["w"]], img) or float(dp[..., b["h"]:, :].abs().sum()) or \
                    float(dp[..., :, b["w"]:].abs().sum()):
                return "PadToStride: padding is not zeros at the bottom/right only"
        return eq(dp, fn), terms, chk
    if k == "centroid":
        pts = insts_tensor(b["insts"], mods)
        a_in, b_in = pts.clone(), pts.clone()
        dp = first(mods["ic"].InstanceCentroidFinder([{"instances": a_in}], anchor_ind=b["anchor"]))[0]
        fn = mods["ic"].generate_centroids(b_in, anchor_ind=b["anchor"])
        r = close(dp["centroids"], fn, 1e-6, 0, mods) or close(dp["instances"], b_in, 1e-6, 0, mods)
        a = "None" if b["anchor"] is None else f"(Some {b['anchor']}%nat)"
        terms = [f"CBlockCentroid {a} {core.cbool(wt)} {cinsts(b['insts'])}"]

        def chk(ms):
            m = ms[0][0]
            rr = close(fn.reshape(-1, 2), pts_tensor(m[2], mods), PT_ATOL, PT_RTOL, mods)
            if rr:
                return f"generate_centroids vs model: {rr}"
            want = torch.stack([pts_tensor(i, mods) for i in m[1]])
            rr = close(b_in.reshape(-1, b["n"], 2), want, PT_ATOL, PT_RTOL, mods)
            if rr:
                return f"instances after generate_centroids vs model (write-through={wt}): {rr}"
        return r, terms, chk
    if k == "crop":
        img = block_image(b, mods)
        pts = insts_tensor(b["insts"], mods)
        cents = pts_tensor([([c[0].numerator, c[0].denominator], [c[1].numerator, c[1].denominator])
                            for c in b["cents"]], mods).unsqueeze(0)
        dp = first(mods["icr"].InstanceCropper(
            [{"image": img.clone(), "instances": pts.clone(), "centroids": cents.clone(), "num_instances": b["num"]}],
            crop_hw=b["crop"]))
        fn = []
        for cnt, (inst, cent) in enumerate(zip(pts[0], cents[0])):
            if cnt == b["num"]:
                break
            fn.append(mods["icr"].generate_crops(img.clone(), inst, cent, b["crop"]))
        r = None
        if len(dp) != len(fn):
            r = f"InstanceCropper yields {len(dp)} crops, the functional loop {len(fn)}"
        for x, y in zip(dp, fn):
            for key in ("instance_image", "instance_bbox", "instance", "centroid"):
                r = r or close(x[key], y[key], 1e-6, 0, mods)
        terms = [f"CBlockCrop {core.cbool(d)} {geom_term(b['h'], b['w'], b['c'], True)} {core.cz(b['crop'][0])} "
                 f"{core.cz(b['crop'][1])} {b['num']}%nat {cinsts(b['insts'])} {core.clist(b['cents'], ckp)}"
                 for d in (True, False)]

        def chk(ms):
            for m, impl in zip(ms, (dp, fn)):
                if len(m) != len(impl):
                    return f"cropper: model yields {len(m)} crops, impl {len(impl)}"
                for mo, x in zip(m, impl):
                    (c, h, w), _, _, _, _ = mo[0]
                    if tuple(x["instance_image"].shape) != (1, c, h, w):
                        return f"crop size {tuple(x['instance_image'].shape)} vs model {(c, h, w)}"
                    rr = (close(x["instance"].reshape(-1, 2), pts_tensor(mo[1][0], mods), PT_ATOL, PT_RTOL, mods)
                          or close(x["centroid"].reshape(-1, 2), pts_tensor(mo[2], mods), PT_ATOL, PT_RTOL, mods)
                          or close(x["instance_bbox"].reshape(4, 2)[0:1], pts_tensor([mo[4]], mods), PT_ATOL, PT_RTOL, mods))
                    if rr:
                        return f"crop vs model: {rr}"
        return r, terms, chk
    if k == "sm":
        img = block_image(b, mods)
        fi, eff = mods["rs"].apply_sizematcher(img.clone(), b["mh"], b["mw"])
        try:
            dp = first(mods["rs"].SizeMatcher([{"image": img.clone()}], max_height=b["mh"], max_width=b["mw"]))[0]["image"]
        except Exception as e:  # noqa: BLE001
            dp = e
        common = b["mode"] in ("same", "pad_h", "pad_w")        # Props.c18_dp_sizematcher_pad_only
        r = None
        if common:
            r = (f"SizeMatcher raised {dp}" if isinstance(dp, Exception) else eq(dp, fi)) or \
                (None if abs(float(eff) - 1.0) < 1e-9 else f"apply_sizematcher eff_scale {eff} where it only pads")
        terms = [f"CBlockSizeMatcher {core.cbool(d)} (Some {core.cz(b['mh'])}) (Some {core.cz(b['mw'])}) "
                 f"{geom_term(b['h'], b['w'], b['c'], True)}" for d in (True, False)]

        def chk(ms):
            md, mf = ms
            if (not md) != isinstance(dp, Exception):
                return f"SizeMatcher raises: model {not md}, impl {isinstance(dp, Exception)} ({b['mode']})"
            if md:
                (c, h, w), gx, gy, _, _ = md[0][0]
                if tuple(dp.shape) != (1, c, h, w):
                    return f"SizeMatcher size {tuple(dp.shape)} vs model {(c, h, w)}"
                if not torch.equal(dp[..., :b["h"], :b["w"]], img) or q2f(gx[0]) != 1 or q2f(gx[1]) != 0:
                    return "SizeMatcher moved the content (model / impl)"
            (c, h, w), gx, gy, _, _ = mf[0][0]
            if tuple(fi.shape) != (1, c, h, w):
                return f"apply_sizematcher size {tuple(fi.shape)} vs model {(c, h, w)}"
            me = q2f(mf[0][2][0][0])
            if abs(me - float(eff)) > 1e-9 * max(1, me):
                return f"apply_sizematcher eff_scale {eff} vs model {me}"
        return r, terms, chk
    if k == "smrun":
        np = mods["np"]
        imgs = []
        for j, (hh, ww) in enumerate(b["sizes"]):
            a = make_image(np, b["seed"] + j, hh, ww, b["c"], "noise")
            imgs.append(torch.from_numpy(np.transpose(a, (2, 0, 1))).unsqueeze(0).float() / 255.0)
        got, raised = [], False
        try:
            for ex in mods["rs"].SizeMatcher([{"image": im.clone()} for im in imgs], max_height=b["mh"], max_width=b["mw"]):
                got.append(ex["image"])
        except Exception:  # noqa: BLE001
            raised = True
        gs = core.clist(b["sizes"], lambda hw: geom_term(hw[0], hw[1], b["c"], True))
        terms = [f"CBlockSizeMatcherRun {core.copt(b['mh'], core.cz)} {core.copt(b['mw'], core.cz)} {gs}"]

        def chk(ms):
            m = ms[0]
            mraised = bool(m) and m[-1][3] == 1
            outs = m[:-1] if mraised else m
            if mraised != raised or len(outs) != len(got):
                return (f"SizeMatcher over {b['sizes']} with bounds ({b['mh']}, {b['mw']}): the code yields {len(got)} images, "
                        f"raised={raised}; the model {len(outs)}, raised={mraised}")
            for j, (mo, t) in enumerate(zip(outs, got)):
                (c, hh, ww), gx, gy, _, _ = mo[0]
                if tuple(t.shape) != (1, c, hh, ww):
                    return f"SizeMatcher image {j}: size {tuple(t.shape)} vs model {(c, hh, ww)}"
                sh, sw = b["sizes"][j]
                if not torch.equal(t[..., :sh, :sw], imgs[j]) or float(t[..., sh:, :].abs().sum()) or float(t[..., :, sw:].abs().sum()):
                    return f"SizeMatcher image {j}: content moved / padding not zero"
        return None, terms, chk
    if k == "rd":
        prov = mods["providers"]
        L1 = {"source": "duck", "n_nodes": b["n"], "edges": [], "videos": [{"n": 4, "h": b["h"], "w": b["w"], "c": b["c"]}],
              "frames": [{"video": 0, "frame_idx": fi, "img_seed": b["seed"] + fi, "style": "noise", "insts": insts}
                         for fi, insts in enumerate(b["frames"])]}
        labels = build_labels(L1, mods)
        M = mods["get_max_instances"](labels)
        with mock.patch.object(prov.sio, "Labels", lambda videos, skeletons, labeled_frames:
                               DLabels(labeled_frames, videos, skeletons[0])):
            dp = first(prov.LabelsReaderDP(labels, user_instances_only=b["user_only"]))
        labels2 = build_labels(L1, mods)
        fn = {int(lf.frame_idx): prov.process_lf(lf, 0, M, b["user_only"]) for lf in labels2}
        keeps = [(not b["user_only"]) or any(not i["pred"] for i in insts) for insts in b["frames"]]
        r = None
        if len(dp) != sum(keeps):
            r = f"LabelsReaderDP yields {len(dp)} frames, {sum(keeps)} have user instances"
        for ex in dp:
            f = fn[int(ex["frame_idx"])]
            for key in ("image", "instances"):
                r = r or close(ex[key].float(), f[key].float(), 1e-6, 0, mods)
            if int(ex["num_instances"]) != int(f["num_instances"]):
                r = r or f"num_instances {ex['num_instances']} vs {f['num_instances']}"
        cins = lambda insts: core.clist(insts, lambda i: f"({core.cbool(i['pred'])}, {core.clist(i['pts'], ckp)})")
        terms = [f"CBlockReader {core.cbool(d)} {core.cbool(b['user_only'])} {M}%nat {cins(insts)}"
                 for insts in b["frames"] for d in (True, False)]

        def chk(ms):
            di = 0
            for fi, insts in enumerate(b["frames"]):
                md, mf = ms[2 * fi], ms[2 * fi + 1]
                if bool(md) != keeps[fi]:
                    return f"reader keeps frame {fi}: model {bool(md)}, expected {keeps[fi]}"
                pairs = [(mf[0], fn[fi])]
                if md:
                    pairs.append((md[0], dp[di]))
                    di += 1
                for mo, x in pairs:
                    want = torch.stack([pts_tensor(i, mods) for i in mo[1]]) if mo[1] else torch.zeros((0, b["n"], 2))
                    rr = close(x["instances"].reshape(-1, b["n"], 2), want, PT_ATOL, PT_RTOL, mods)
                    if rr or int(x["num_instances"]) != mo[3]:
                        return f"frame {fi}: instances / num_instances vs model: {rr} ({x['num_instances']} vs {mo[3]})"
        return r, terms, chk
    # target generators: DataPipe vs function on the implementation (their model is C01 / C05)
    img = block_image(b, mods)
    pts = insts_tensor(b["insts"], mods)
    cmod, em = mods["cm"], mods["em"]
    hw = (b["h"], b["w"])
    if k == "cm":
        if b["key"] == "instances":
            ex = {"image": img, "instances": pts.clone()}
            dp = first(cmod.ConfidenceMapGenerator([ex], sigma=b["sigma"], output_stride=b["stride"]))[0]
            fn = cmod.generate_confmaps(pts.clone(), hw, b["sigma"], b["stride"])
        else:
            ex = {"instance_image": img, "instance": pts[:, 0].clone()}
            dp = first(cmod.ConfidenceMapGenerator([ex], sigma=b["sigma"], output_stride=b["stride"],
                                                   image_key="instance_image", instance_key="instance"))[0]
            fn = cmod.generate_confmaps(pts[:, 0].clone(), hw, b["sigma"], b["stride"])
        return eq(dp["confidence_maps"], fn), [], None
    if k == "mcm":
        ex = {"image": img, "instances": pts.clone(), "num_instances": b["num"]}
        dp = first(cmod.MultiConfidenceMapGenerator([ex], sigma=b["sigma"], output_stride=b["stride"], centroids=False))[0]
        fn = cmod.generate_multiconfmaps(pts.clone(), hw, b["num"], b["sigma"], b["stride"], False)
        return eq(dp["confidence_maps"], fn), [], None
    if k == "ccm":
        cents = pts[:, :, 0].clone()
        ex = {"image": img, "centroids": cents.clone(), "num_instances": b["num"]}
        dp = first(cmod.MultiConfidenceMapGenerator([ex], sigma=b["sigma"], output_stride=b["stride"], centroids=True))[0]
        fn = cmod.generate_multiconfmaps(cents.clone(), hw, b["num"], b["sigma"], b["stride"], True)
        return eq(dp["centroids_confidence_maps"], fn), [], None
    if k == "paf":
        flat = rng_bool = (b["seed"] % 2 == 0)
        e = torch.Tensor(b["edges"])
        ex = {"image": img, "instances": pts.clone()}
        dp = first(em.PartAffinityFieldsGenerator([ex], sigma=b["sigma"], output_stride=b["stride"], edge_inds=e,
                                                  flatten_channels=flat))[0]
        fn = em.generate_pafs(pts.clone(), hw, b["sigma"], b["stride"], e, flat)
        edges = core.clist(b["edges"], lambda ed: f"({ed[0]}%nat, {ed[1]}%nat)")
        terms = [f"CBlockPaf {core.cbool(d)} {geom_term(b['h'], b['w'], b['c'], True)} {cinsts(b['insts'])} {edges}"
                 for d in (True, False)]
        dpv = dp["part_affinity_fields"]

        def chk(ms):
            # the model's in-image filter + get_edge_points (block: dp_paf_points, function: fn_paf_points) fed to the
            # repo's make_multi_pafs must reproduce what the block / the function returned
            xv, yv = em.make_grid_vectors(b["h"], b["w"], b["stride"])
            ne = len(b["edges"])
            for m, impl, who in zip(ms, (dpv, fn), ("PartAffinityFieldsGenerator", "generate_pafs")):
                mo = m[0]
                src, dst = mo[1], mo[5][0]
                if len(src) != len(dst) or mo[3] != len(src):
                    return f"{who}: model keeps {len(src)} sources / {len(dst)} destinations"
                es = torch.stack([pts_tensor(i, mods) for i in src]) if src else torch.zeros((0, ne, 2))
                ed = torch.stack([pts_tensor(i, mods) for i in dst]) if dst else torch.zeros((0, ne, 2))
                want = em.make_multi_pafs(xv=xv, yv=yv, edge_sources=es, edge_destinations=ed, sigma=b["sigma"])
                if flat:
                    want = want.reshape(ne * 2, want.shape[-2], want.shape[-1])
                rr = close(impl.float(), want.float(), 1e-5, 0, mods)
                if rr:
                    return f"{who} vs make_multi_pafs on the animals the model's filter keeps ({len(src)} of {len(b['insts'])}): {rr}"
        return eq(dpv, fn), terms, chk
    raise ValueError(k)


# ------------------------------------------------------------------ (de)serialisation of cases
def enc(o):
    if isinstance(o, F):
        return {"q": str(o)}
    if isinstance(o, (list, tuple)):
        return [enc(x) for x in o]
    if isinstance(o, dict):
        return {k: enc(v) for k, v in o.items()}
    return o


def dec(o):
    if isinstance(o, dict):
        if set(o) == {"q"}:
            return F(o["q"])
        return {k: dec(v) for k, v in o.items()}
    if isinstance(o, list):
        return [dec(x) for x in o]
    return o


def fix_case(c):
    """JSON lists back to the tuples the generators use."""
    L, cfg = c["labels"], c["cfg"]
    L["edges"] = [tuple(e) for e in L["edges"]]
    for fr in L["frames"]:
        for i in fr["insts"]:
            i["pts"] = [None if p is None else tuple(p) for p in i["pts"]]
    cfg["max_hw"], cfg["crop_hw"] = tuple(cfg["max_hw"]), tuple(cfg["crop_hw"])
    if "cfg_hw" in cfg:
        cfg["cfg_hw"] = tuple(cfg["cfg_hw"])
    return c


# ------------------------------------------------------------------ the check
def load_mods():
    core.impl_env_setup()
    import numpy as np
    import torch
    import sleap_io as sio
    import litdata as ld
    from omegaconf import DictConfig
    from PIL import Image
    from litdata.streaming import serializers as S
    from sleap_nn.data import (custom_datasets as cd, get_data_chunks as gc, streaming_datasets as sd,
                               confidence_maps as cm, edge_maps as em, normalization as norm, resizing as rs,
                               instance_centroids as ic, instance_cropping as icr, pipelines)
    from sleap_nn.data.providers import get_max_instances
    from sleap_nn.data import providers
    from loguru import logger as _lg
    _lg.disable("sleap_nn.data.resizing")      # SizeMatcher logs an ERROR before raising (expected, modelled)
    return {"np": np, "torch": torch, "sio": sio, "ld": ld, "DictConfig": DictConfig, "PILImage": Image.Image,
            "S": S, "cd": cd, "gc": gc, "sd": sd, "cm": cm, "em": em, "norm": norm, "rs": rs, "ic": ic,
            "icr": icr, "get_max_instances": get_max_instances, "pipelines": pipelines, "providers": providers}


def detect_write_through(mods):
    """Does generate_centroids still write the bbox midpoint into the caller's keypoints (DESIGN F5)?"""
    torch = mods["torch"]
    nan = float("nan")
    pts = torch.tensor([[[[nan, nan], [2.0, 4.0], [6.0, 8.0]]]])
    mods["ic"].generate_centroids(pts, anchor_ind=0)
    return not bool(torch.isnan(pts[0, 0, 0]).any())


def _witness_case(kind):
    pts = [(F(20), F(30)), (F(40), F(44))]
    insts = [{"pts": pts, "pred": False}]
    frames = [{"video": 0, "frame_idx": 0, "img_seed": 1, "style": "noise", "insts": insts}]
    cfg = {"mtype": "single", "scale": F(1), "max_stride": 1, "is_rgb": False, "user_only": True, "max_hw": (64, 64),
           "cfg_hw": (None, None), "anchor": None, "crop_hw": (32, 32), "sigma": F(3, 2), "stride": 2,
           "psigma": F(4), "pstride": 4}
    if kind == "F180":
        cfg["cfg_hw"] = (128, 128)
    elif kind == "F181":
        insts.append({"pts": [(F(21), F(31)), (F(41), F(45))], "pred": True})
    else:
        frames.append({"video": 0, "frame_idx": 1, "img_seed": 2, "style": "noise", "insts": []})
        cfg["mtype"] = "bottomup"
    L = {"source": "duck", "n_nodes": 2, "edges": [(0, 1)], "videos": [{"n": 4, "h": 64, "w": 64, "c": 1}], "frames": frames}
    return {"labels": L, "cfg": cfg}


def detect_fx(mods):
    """Which of the proposed repairs C18_F180 / C18_F181 the code under test has: replay the two witnesses on
    the in-memory dataset alone (the model is then evaluated with x_fx180 / x_fx181 set accordingly)."""
    out = {}
    c = _witness_case("F180")
    smp = run_dataset(c["labels"], c["cfg"], mods, None)[0]
    out["fx180"] = tuple(smp["image"].shape[-2:]) == (128, 128)
    c = _witness_case("F181")
    smp = run_dataset(c["labels"], c["cfg"], mods, None)[0]
    out["fx181"] = int(smp["instances"].shape[1]) == 1
    return out


def classify(L, cfg, pair, why, res):
    """The known-finding selector (or None) an oracle failure falls under — the Coq selectors, mirrored."""
    if pair == ("Str",) or pair == ("Lit",):
        e = res.get(pair[0])
        if sel_f182(L, cfg) and (pair == ("Lit",) or (isinstance(e, ValueError) and "at least one array" in str(e))):
            return SELECTORS["F182"]
        return None
    if pair in (("Mem", "Str"), ("Mem", "Lit")):
        if sel_f180(L, cfg, FX):
            return SELECTORS["F180"]
        if sel_f181(L, cfg, FX):
            return SELECTORS["F181"]
    return None


def run_case(run, c, mods, scratch, wt, origin, lit=None):
    """Implementation part of one pipeline case: oracle + what the model comparison needs."""
    L, cfg = c["labels"], c["cfg"]
    res = run_frameworks(L, cfg, mods, scratch, lit)
    bad = oracle(L, cfg, res, mods)
    for pair, why in bad:
        run.violation("failing-input", {"case": enc(c), "frameworks": list(pair), "oracle": why, "origin": origin,
                                        "real_litdata_chunk_size": lit,
                                        "clause": "same (frame, instance) => same image/crop (<= 1/255), keypoints/"
                                                  "centroids, confidence maps, PAFs"},
                      selector=classify(L, cfg, tuple(pair), why, res))
    return res, bad


def check(run: core.Run) -> int:
    run.build_and_prove(PROP_FILES)
    mods = load_mods()
    rng = run.rng
    thorough = run.tier == "thorough"
    scratch = core.scratch_dir("sv_c18_")
    try:
        return _check(run, mods, rng, thorough, scratch)
    finally:
        shutil.rmtree(scratch, ignore_errors=True)


def _check(run, mods, rng, thorough, scratch):
    wt = detect_write_through(mods)
    run.notes.append(f"generate_centroids writes through the anchor view (DESIGN F5): {wt}; "
                     "the model is evaluated with c_wt set accordingly, the agreement theorems hold for both values")
    FX.update(detect_fx(mods))
    run.notes.append(f"repairs detected by replaying the witnesses on the dataset classes: {FX} "
                     "(x_fx180: datasets resolve max_height/max_width like the chunk functions; x_fx181: "
                     "SingleInstanceDataset uses max_instances = 1); the model is evaluated with these flags")
    n_cases = 2400 if thorough else 160
    n_blocks = 6600 if thorough else 550
    cases = []
    cdir = core.CORPUS / "C18"
    for f in sorted(cdir.glob("*.json")) if cdir.exists() else []:
        j = json.load(open(f))
        if "labels" in j.get("case", {}):
            cases.append(("corpus:" + f.name, fix_case(dec(j["case"]))))
    # the asset with real sleap-io objects (guards the duck-typed labels)
    A = asset_labels(mods)
    asset_cfgs = [("single", F(1, 2)), ("bottomup", F(1, 2)), ("centroid", F(1, 2)), ("centered", F(1)),
                  ("centered", F(1, 2)), ("bottomup", F(1))]
    hazards = 0
    for t, s in (asset_cfgs if thorough else asset_cfgs[:5]):
        cfg = gen_cfg(rng, t, A, thorough)
        cfg.update(scale=s, max_hw=(384, 384),
                   cfg_hw=[(384, 384), (None, None), (416, None), (None, 400), (384, None)][len(cases) % 5],
                   crop_hw=(160, 160) if t == "centered" else cfg["crop_hw"])
        cases.append(("asset", {"labels": A, "cfg": cfg}))
    i = 0
    while len(cases) < n_cases:
        t = TYPES[i % 4]
        i += 1
        L = gen_labels(rng, t, thorough)
        cfg = gen_cfg(rng, t, L, thorough)
        if t == "centered" and rng.random() < 0.7:
            cfg["scale"] = F(1)
        if float_hazard(L, cfg):
            hazards += 1
            continue
        cases.append(("gen", {"labels": L, "cfg": cfg}))

    # --- which cases also go through the REAL litdata round trip (litdata.optimize on disk, ~5 s each)
    lit_for = {}
    per_type = 3 if thorough else 1
    seen = {t: 0 for t in TYPES}
    for ci, (origin, c) in enumerate(cases):
        t = c["cfg"]["mtype"]
        if sel_f180(c["labels"], c["cfg"], FX) or sel_f181(c["labels"], c["cfg"], FX) or sel_f182(c["labels"], c["cfg"]):
            continue
        if origin == "gen" and seen[t] < per_type and (len(sample_plan(c["labels"], c["cfg"])) >= 2 or ci > 60):
            if t != "centered" or c["cfg"]["scale"] == 1 or seen[t] > 0:
                seen[t] += 1
                lit_for[ci] = 1 if (len(lit_for) % 2 == 0) else 2        # items per .bin file

    # --- implementation runs + oracle
    dist = {}
    impl = []
    n_samples = 0
    for ci, (origin, c) in enumerate(cases):
        cfg = c["cfg"]
        for key in (cfg["mtype"], f"scale={cfg['scale']}", f"max_stride={cfg['max_stride']}", f"rgb={cfg['is_rgb']}",
                    "anchor=None" if cfg["anchor"] is None else "anchor=node", origin.split(":")[0]):
            dist[key] = dist.get(key, 0) + 1
        a_hw, c_hw = tuple(cfg["max_hw"]), cfg_hw_of(cfg)
        for key in ("max_hw=None" if a_hw == (None, None) else "max_hw=one None" if None in a_hw else
                    "max_hw<frame" if any(v["h"] > a_hw[0] or v["w"] > a_hw[1] for v in c["labels"]["videos"])
                    else "max_hw>=frames", "dp_domain" if dp_domain(c["labels"], cfg) else "dp_outside_domain",
                    "cfg_hw=None" if c_hw == (None, None) else "cfg_hw=exactly one set" if None in c_hw else
                    "cfg_hw=arg" if c_hw == a_hw else "cfg_hw!=arg"):
            dist[key] = dist.get(key, 0) + 1
        if None in c_hw and c_hw != (None, None):
            # exactly one config bound set: does it CHANGE the size some sample-yielding frame is matched to, compared
            # with falling back to the max_hw argument in that dimension?  (where a per-dimension rule and any rule
            # that looks at both config values together can be told apart)
            d = 0 if c_hw[0] is not None else 1
            uo = cfg.get("user_only", True)
            if any(eff_bounds(st_hw(cfg), c["labels"]["videos"][fr["video"]])[d] !=
                   eff_bounds(a_hw, c["labels"]["videos"][fr["video"]])[d]
                   for fr in c["labels"]["frames"] if not frame_empty(fr, uo)):
                key = "cfg_hw=exactly one set, effective (%s, %s)" % (
                    "height" if d == 0 else "width", cfg["mtype"])
                dist[key] = dist.get(key, 0) + 1
                dist["cfg_hw=exactly one set, effective"] = dist.get("cfg_hw=exactly one set, effective", 0) + 1
        for key, on in (("sel_F180", sel_f180(c["labels"], cfg, FX)), ("sel_F181", sel_f181(c["labels"], cfg, FX)),
                        ("sel_F182", sel_f182(c["labels"], cfg))):
            if on:
                dist[key] = dist.get(key, 0) + 1
        res, bad = run_case(run, c, mods, scratch, wt, origin, lit_for.get(ci))
        impl.append((res, bad))
        ns = 0 if isinstance(res["Mem"], Exception) else len(res["Mem"])
        n_samples += ns
        run.case(enc(c), nontrivial=ns > 0)
    # the witness of Props.centered_scale_ne_1_differs, on the implementation
    for (origin, c), (res, bad) in zip(cases, impl):
        if origin == "corpus:centered_half_exclusion_witness.json":
            try:
                a, b = res["Mem"][0], res["Str"][0]
                ok = (tuple(a["instance_image"].shape[-2:]) == (32, 32) and tuple(b["instance_image"].shape[-2:]) == (16, 16)
                      and close(canon("instance", a["instance"], 2, mods),
                                mods["torch"].tensor([[[15.5, 15.5], [25.5, 25.5]]]), PT_ATOL, 0, mods) is None
                      and close(canon("instance", b["instance"], 2, mods),
                                mods["torch"].tensor([[[-3.5, -3.5], [6.5, 6.5]]]), PT_ATOL, 0, mods) is None)
                detail = "" if ok else f"Mem {tuple(a['instance_image'].shape)} {a['instance'].tolist()} Str " \
                                       f"{tuple(b['instance_image'].shape)} {b['instance'].tolist()}"
            except Exception as e:  # noqa: BLE001
                ok, detail = False, f"{type(e).__name__}: {e}"
            run.obligation("witness of centered_scale_ne_1_differs reproduces on the implementation "
                           "(Mem 32x32 / Str 16x16, keypoints as stated)", ok, detail)
    # the stand-in used for the other cases (litdata's serialisers in memory, StreamingDataset.__init__/__getitem__
    # stubbed) returns exactly what the real on-disk round trip returns
    lit_n = lit_bad = lit_bins = lit_samples = 0
    lit_detail = ""
    for ci, chunk in lit_for.items():
        res, _ = impl[ci]
        lit_n += 1
        L, cfg = cases[ci][1]["labels"], cases[ci][1]["cfg"]
        A, B = res.get("Lit"), res.get("Str")
        why = None
        if isinstance(A, Exception) or isinstance(B, Exception):
            why = f"raised: {A if isinstance(A, Exception) else B}"
        elif len(A) != len(B):
            why = f"{len(A)} vs {len(B)} samples"
        else:
            lit_bins += res.get("Lit_bins", 0)
            lit_samples += len(A)
            for i, (a, b) in enumerate(zip(A, B)):
                why = compare_samples(cfg["mtype"], a, b, L["n_nodes"], mods, False)
                if why:
                    why = f"sample {i}: {why}"
                    break
        if why:
            lit_bad += 1
            lit_detail = lit_detail or f"case {ci} ({cfg['mtype']}, chunk_size {chunk}): {why}"
    run.obligation("real litdata round trip (litdata.optimize -> .bin chunks -> *StreamingDataset) == the in-memory "
                   "serialiser stand-in of the Str leg, sample by sample (<= 2e-6)", lit_bad == 0 and lit_n > 0,
                   lit_detail or f"{lit_n} cases")
    run.log(f"{len(cases)} pipeline cases, {n_samples} samples per framework, "
            f"{sum(1 for _, b in impl if b)} with an oracle failure")

    # --- the model on the same cases
    terms, owners = [], []
    dp_plans = {}
    for ci, (origin, c) in enumerate(cases):
        ts = model_terms(c["labels"], c["cfg"], wt)
        terms += ts
        owners += [(ci, "fw")] * len(ts)
        dp_plans[ci] = dp_model_terms(c["labels"], c["cfg"], wt)
        real = [t for _, _, t in dp_plans[ci] if t is not None]
        terms += real
        owners += [(ci, "dp")] * len(real)
    model = core.coq_eval_sharded(PREAMBLE, terms, "run", "routs", shard=40, jobs=12)
    eterms = [t for _, c in cases for t in enum_terms(c["labels"], c["cfg"])]
    emodel = core.coq_eval_sharded(PREAMBLE, eterms, "run_enum", "renum", shard=120, jobs=12)
    by_case, dp_by_case = {}, {}
    for (ci, kind), m in zip(owners, model):
        if kind == "fw":
            by_case.setdefault(ci, []).append(m[0])
        else:
            dp_by_case.setdefault(ci, []).append(m)
    disagree = 0
    probe_stats = {}
    dp_stats = {"examples": 0, "raised_as_modelled": 0}
    enum_stats = {"raises_as_modelled": 0, "frames_skipped_as_modelled": 0}
    for ci, (origin, c) in enumerate(cases):
        L, cfg = c["labels"], c["cfg"]
        res, bad = impl[ci]
        ms = by_case.get(ci, [])
        plan = sample_plan(L, cfg)
        counts = emodel[3 * ci:3 * ci + 3]
        why = enum_check(L, cfg, res, counts)
        if not why and any(cnt is not None and sum(cnt) != len(plan) for cnt in counts):
            why = f"fw_counts {counts} vs the harness's sample plan of {len(plan)} samples"
        enum_stats["raises_as_modelled"] += sum(1 for cnt in counts if cnt is None) if not why else 0
        enum_stats["frames_skipped_as_modelled"] += (sum(1 for n in counts[0] if n == 0) if counts[0] is not None else 0) if not why else 0
        for fi, fw in enumerate(FWS):
            if why:
                break
            if counts[fi] is None:
                continue            # the framework raises, as the model says (checked by enum_check)
            if isinstance(res[fw], Exception):
                why = f"{fw} raised {type(res[fw]).__name__}: {res[fw]}"
                break
            if len(res[fw]) != len(plan):
                why = f"{fw} returns {len(res[fw])} samples, the model {len(plan)}"
                break
            for si, smp in enumerate(res[fw]):
                try:
                    why = compare_with_model(cfg["mtype"], fw, smp, ms[si * 3 + fi], L, mods,
                                             L["frames"][plan[si][0]], probe_stats)
                except Exception as e:  # noqa: BLE001
                    why = f"comparison failed: {type(e).__name__}: {e}"
                if why:
                    why = f"{fw} sample {si}: {why}"
                    break
            if why:
                break
        if not why and "DP" in res:
            try:
                dms = dp_by_case.get(ci, []) + ([[]] if any(t is None for _, _, t in dp_plans[ci]) else [])
                why = dp_compare_with_model(L, cfg, res["DP"], dp_plans[ci], dms, mods, probe_stats)
            except Exception as e:  # noqa: BLE001
                why = f"comparison failed: {type(e).__name__}: {e}"
            if why:
                why = f"composed DataPipe pipeline: {why}"
            else:
                dp_stats["examples"] += len(res["DP"][0])
                dp_stats["raised_as_modelled"] += res["DP"][1] is not None
        if why:
            disagree += 1
            if disagree <= 5:
                run.proof_broken.append(f"correspondence C18 model vs implementation: {why}; "
                                        f"case {json.dumps(enc(c))[:1500]}")
            if not bad and disagree <= 3:
                (core.REPLAYS / "C18").mkdir(parents=True, exist_ok=True)
                (core.REPLAYS / "C18" / f"correspondence_{disagree}.json").write_text(
                    json.dumps({"case": enc(c), "why": why, "origin": origin}, indent=1))
    run.obligation("correspondence: Pipelines.pipeline / dp_pipeline (Coq, vm_compute) == each framework's real sample and "
                   "each composed legacy pipeline's example "
                   "(sizes, value range, keypoints, centroids, bbox, num_instances, targets from the model's inputs)",
                   disagree == 0, f"{disagree} disagreeing cases")

    # --- DataPipe blocks
    kinds = ["norm", "resize", "pad", "centroid", "crop", "cm", "mcm", "ccm", "paf", "sm", "rd", "smrun"]
    bterms, bown, blocks = [], [], []
    dp_bad = 0
    for bi in range(n_blocks):
        b = gen_block(rng, kinds[bi % len(kinds)])
        dist["block:" + b["kind"]] = dist.get("block:" + b["kind"], 0) + 1
        try:
            r, ts, chk = run_block(b, mods, wt)
        except Exception as e:  # noqa: BLE001
            r, ts, chk = f"raised {type(e).__name__}: {e}", [], None
        run.case(enc(b), nontrivial=True)
        if r:
            dp_bad += 1
            run.violation("failing-input", {"block": enc(b), "oracle": f"DataPipe block vs functional counterpart: {r}",
                                            "clause": "each legacy DataPipe block returns what its functional "
                                                      "counterpart returns"})
        blocks.append((b, chk, len(bterms), len(ts)))
        bterms += ts
    bmodel = core.coq_eval_sharded(PREAMBLE, bterms, "run", "routs", shard=80, jobs=12) if bterms else []
    bdis = 0
    for b, chk, off, n in blocks:
        if chk is None or n == 0:
            continue
        try:
            why = chk(bmodel[off:off + n])
        except Exception as e:  # noqa: BLE001
            why = f"comparison failed: {type(e).__name__}: {e}"
        if why:
            bdis += 1
            if bdis <= 5:
                run.proof_broken.append(f"correspondence C18 block model vs implementation: {why}; block {json.dumps(enc(b))[:800]}")
    run.obligation("correspondence: dp_* / fn_* block models (Coq, vm_compute) == DataPipe blocks and functions "
                   "(sizes, points, centroids, bbox corners)", bdis == 0, f"{bdis} disagreeing blocks")

    n_mixed = dist.get("cfg_hw=exactly one set, effective", 0)
    run.obligation("generator: max_height / max_width are exercised PER DIMENSION - cases with exactly ONE of the two config "
                   "values set whose value changes the size a sample-yielding frame is matched to (all frameworks compared "
                   "on them, model = resolve_max per dimension: Props.c18_bounds_resolved_per_dimension)",
                   n_mixed >= (60 if thorough else 8), f"{n_mixed} such cases")
    run.coverage.update({
        "input_distribution": dist, "pipeline_cases": len(cases), "samples_per_framework": n_samples,
        "block_cases": n_blocks, "model_disagreements": disagree, "block_model_disagreements": bdis,
        "datapipe_vs_function_failures": dp_bad, "float_hazard_cases_skipped": hazards,
        "content_map_probe": probe_stats, "composed_datapipe": dp_stats, "enumeration": enum_stats,
        "repairs_detected": dict(FX),
        "real_litdata": {"cases": lit_n, "samples": lit_samples, "bin_files": lit_bins},
        "rule": "pipeline case = (label set: videos, frames, instances with NaN pattern / empty / predicted instances; "
                "model type, scale, max_stride, is_rgb, max_hw, anchor, crop, sigmas, strides); each case is run through "
                "three frameworks; non-trivial = at least one sample; block case = (block kind, random example)",
        "tolerance": {"image": IMG_TOL, "points_atol": PT_ATOL, "points_rtol": PT_RTOL, "maps_atol": MAP_ATOL},
    })
    for _, c in cases[:2]:
        run.sample(enc(c))
    run.trusted += [
        "for most cases litdata's writer/reader are replaced by litdata's own PIL/tensor/int serializers applied in "
        "memory (StreamingDataset.__init__/__getitem__ stubbed); a few cases per run go through the real "
        "litdata.optimize + on-disk chunks + StreamingDataset and must equal the stand-in (obligation)",
        "sio.Labels(...) inside LabelsReaderDP.__init__ is replaced by the duck-typed container for duck-typed labels",
        "torchvision resize / kornia crop_and_resize / PIL conversions are not modelled beyond their geometry (size, "
        "content map); the direct framework-vs-framework image comparison is a test on generated inputs",
        "duck-typed Labels/LabeledFrame/Instance/Video objects expose what the repo reads; guarded by cases on "
        "tests/assets/minimal_instance.pkg.slp with real sleap-io objects",
    ]
    run.assumptions += [
        "augmentation off (apply_aug=False): with augmentation the samples are random",
        "every framework is given the SAME data_config (preprocessing.max_height / max_width EACH on its own: unset, equal "
        "to, larger or smaller than the max_hw argument / the labels' maximum - both set, none, or exactly one) and the "
        "SAME max_hw argument (>= the videos, smaller, None, or None in one dimension), as ModelTrainer does; "
        "label sets include frames without a non-empty instance and single-instance frames with a predicted instance "
        "(known findings F180 / F181 / F182 are reported through their selectors)",
        "scales are dyadic rationals; inputs where float64 round(h*ratio) could differ from exact arithmetic are skipped",
        "anchor index in range (an out-of-range anchor raises IndexError in the code; the model's nth gives the bbox midpoint)",
    ]
    return run.finish()


def replay(run: core.Run, path: str) -> int:
    mods = load_mods()
    rep = json.load(open(path))
    scratch = core.scratch_dir("sv_c18_")
    try:
        wt = detect_write_through(mods)
        FX.update(detect_fx(mods))
        if "block" in rep:
            r, _, _ = run_block(dec(rep["block"]), mods, wt)
            print(json.dumps({"oracle": r}))
            return 1 if r else 0
        c = fix_case(dec(rep["case"]))
        res = run_frameworks(c["labels"], c["cfg"], mods, scratch, rep.get("real_litdata_chunk_size"))
        bad = oracle(c["labels"], c["cfg"], res, mods)
        print(json.dumps({"oracle": [[list(p), w] for p, w in bad]}))
        return 1 if bad else 0
    finally:
        shutil.rmtree(scratch, ignore_errors=True)
