"""C02 helper: channel modes of Predictor._predict_generator (lines 281-286 and 313-316).

is_rgb in {True, False} x frames with 1 or 3 channels, through the REAL SingleInstancePredictor
(both providers).  The ramp stub needs three channels, so these cases use a scene-free stub:
every frame is black with one Gaussian blob (sigma 4 px, the same in every channel) at the
keypoint; the stub network finds the blob in whatever image it is given (intensity centroid) and
returns the repo's own generate_confmaps for that position — "the ideal confidence map for the image
it is actually given", literally.  The geometry is compared with the SAME Coq model as the RGB
cases (Decode.si_run: the decode chain does not take the channel mode as a parameter), the number of
channels the network receives with CentroidOnly.net_channels.
"""
from __future__ import annotations

import math
from fractions import Fraction as F

from . import core
from . import c02_stub as S

BLOB_SIGMA = 4.0
EDGE = 14            # the blob (3.5 sigma) stays inside the frame
VTOL = 3e-2          # the blob centre is measured to ~0.02 px
CM_TOL = 0.08
CH_PREAMBLE = "From SV Require Import C02.CentroidOnly.\nFrom Coq Require Import List ZArith.\nImport ListNotations.\n"


def _P():
    from .props import c02 as P
    return P


def gen_gray(rng, idx):
    P = _P()
    for _ in range(2000):
        c = P.gen_single(rng, idx)
        if c["n_nodes"] != 1 or c["refinement"] is not None:
            continue
        ok = True
        for fr in c["frames"]:
            for a in fr:
                p = a["kps"][0]
                if p is not None and not (EDGE <= p[0] <= c["W"] - 1 - EDGE and EDGE <= p[1] <= c["H"] - 1 - EDGE):
                    ok = False
        if not ok:
            continue
        c["kind"] = "single_gray"
        c["is_rgb"] = rng.random() < 0.5
        c["channels"] = rng.choice([1, 3])
        c["n_videos"] = 1
        return c
    raise RuntimeError("generator could not place a channel-mode case")


def blob_frame(H, W, channels, p):
    import numpy as np
    img = np.zeros((H, W), dtype=np.float64)
    if p is not None:
        yy, xx = np.mgrid[0:H, 0:W]
        img = 250.0 * np.exp(-((xx - float(p[0])) ** 2 + (yy - float(p[1])) ** 2) / (2 * BLOB_SIGMA ** 2))
    img = np.round(img).astype(np.uint8)
    return np.repeat(img[:, :, None], channels, axis=2)


def make_blob_stub(torch, stride, sigma=1.5):
    import numpy as np
    from sleap_nn.data.confidence_maps import generate_confmaps

    class Stub(torch.nn.Module):
        def __init__(self):
            super().__init__()
            self.log = []

        def forward(self, x):
            if x.ndim == 5:
                x = x.squeeze(1)
            n, ch, h, w = x.shape
            gh, gw = -(-h // stride), -(-w // stride)
            outs = []
            for b in range(n):
                a = x[b].detach().cpu().numpy().astype(np.float64)
                rec = {"shape": (h, w), "channels": ch, "centre": None,
                       "channels_equal": bool(all(np.allclose(a[0], a[k], atol=1e-6) for k in range(1, ch)))}
                self.log.append(rec)
                g = a[0]
                if g.max() < 0.2:
                    outs.append(torch.zeros((1, 1, gh, gw)))
                    continue
                m = np.where(g > 0.02, g, 0.0)
                yy, xx = np.mgrid[0:h, 0:w]
                jx, jy = float((m * xx).sum() / m.sum()), float((m * yy).sum() / m.sum())
                rec["centre"] = (jx, jy)
                pts = torch.tensor([[[jx, jy]]], dtype=torch.float32)
                outs.append(generate_confmaps(pts, (h, w), sigma, stride))
            return torch.cat(outs, 0).to(torch.float32)

    return Stub()


def run_impl(c, mods, provider):
    import numpy as np
    torch, OmegaConf, predictors = mods
    P = _P()
    sc = P.build_scene(c)
    fids = list(range(len(c["frames"])))
    video, labels, where = S.make_sources(sc, fids, 1)
    video.frames[:] = [blob_frame(c["H"], c["W"], c["channels"], (fr[0]["kps"][0] if fr else None)) for fr in c["frames"]]
    stub = make_blob_stub(torch, c["os"])
    conf = S.base_cfg(OmegaConf, "single_instance", c["os"], float(c["scale"]), c["ms"], c["mh"], c["mw"])
    pre = OmegaConf.create({"is_rgb": bool(c["is_rgb"]), "crop_hw": None, "max_width": None, "max_height": None,
                            "anchor_ind": None})
    pred = predictors.SingleInstancePredictor(
        confmap_config=conf, confmap_model=stub, backbone_type="unet", skeletons=["skeleton"], peak_threshold=0.2,
        integral_refinement=None, integral_patch_size=5, batch_size=c["batch"], return_confmaps=False, device="cpu",
        preprocess_config=pre)
    pred._initialize_inference_model()
    frames, raw, flags = S.run_predictor(pred, provider, video, labels)
    per_frame = {}
    for vi, fi, insts in frames:
        per_frame.setdefault(fi, []).extend(insts)
    # the stub is called once per batch with the samples in reader order = frame order
    return {"per_frame": per_frame, "flags": flags, "log": stub.log}


def evaluate(run, cases, mods, fixed_f8):
    P = _P()
    results = []
    for c in cases:
        r = {}
        for prov in ("VideoReader", "LabelsReader"):
            try:
                r[prov] = run_impl(c, mods, prov)
            except Exception as e:      # noqa
                import traceback
                r[prov] = {"error": f"{type(e).__name__}: {e}", "tb": traceback.format_exc()[-1000:]}
        results.append(r)
    terms, index = [], []
    for ci, c in enumerate(cases):
        for prov in ("VideoReader", "LabelsReader"):
            for fid, animals in enumerate(c["frames"]):
                kps = animals[0]["kps"] if animals else [None]
                terms.append(f"CSingle {P.si_cfg_term(c, fixed_f8)} {prov} {core.clist(kps, P.ckp)}")
                index.append((ci, prov, fid))
    model = core.coq_eval_sharded(P.PREAMBLE, terms, "run", "rresult", shard=40, jobs=12) if terms else []
    combos = sorted({(bool(c["is_rgb"]), c["channels"]) for c in cases})
    chans = core.coq_eval_sharded(CH_PREAMBLE, [f"({core.cbool(a)}, {core.cz(b)})" for a, b in combos],
                                  "(fun p => net_channels (fst p) (snd p))", "rZ", shard=40, jobs=2) if combos else []
    want_ch = dict(zip(combos, chans))
    by_case = {}
    for ix, m in zip(index, model):
        by_case.setdefault(ix[0], []).append((ix, m))
    disagreements, compared = 0, 0
    for ci, (c, r) in enumerate(zip(cases, results)):
        cj = P.case_json(c)
        run.case(cj, nontrivial=any(fr and fr[0]["kps"][0] is not None for fr in c["frames"]))
        diffs, fails = [], []
        eff = P.eff_of(c)
        s = float(c["scale"])
        half = c["os"] / (2 * s * eff)
        for prov in r:
            if "error" in r[prov]:
                fails.append((f"{prov}: implementation raised {r[prov]['error']}", None))
        for (_, prov, fid), m in by_case.get(ci, []):
            res = r[prov]
            if "error" in res:
                continue
            gx, gy, meff, mpts, margins, ninst = m
            where = f"{prov} frame {fid} (is_rgb={c['is_rgb']}, {c['channels']}-channel frames)"
            preds = res["per_frame"].get(fid, [])
            rec = res["log"][fid] if fid < len(res["log"]) else None
            want = P.si_instances_model(ninst, c.get("refinement"))
            if len(preds) != want or rec is None:
                diffs.append(f"{where}: {len(preds)} instances (model {want}) / no network call")
                continue
            if want == 0:                      # frame without a detected node in the tree repaired for C12 F62: no instance
                continue
            pts, vals, _ = preds[0]
            p = c["frames"][fid][0]["kps"][0] if c["frames"][fid] else None
            # channels and size of the network input
            if rec["channels"] != want_ch[(bool(c["is_rgb"]), c["channels"])]:
                diffs.append(f"{where}: network input has {rec['channels']} channels, model {want_ch[(bool(c['is_rgb']), c['channels'])]}")
            if not rec["channels_equal"]:
                diffs.append(f"{where}: the channels of the network input differ from each other")
            if rec["shape"] != (gy[1], gx[1]):
                diffs.append(f"{where}: network input {rec['shape']}, model {(gy[1], gx[1])}")
            reg = band = None
            if p is not None:
                if rec["centre"] is None:
                    diffs.append(f"{where}: the network input shows no blob")
                    continue
                jx, jy = rec["centre"]
                for (a, b), j, x, ax in ((gx[0], jx, p[0], "x"), (gy[0], jy, p[1], "y")):
                    u = P.q2f(a) * float(x) + P.q2f(b)
                    if abs(j - u) > CM_TOL:
                        diffs.append(f"{where}: content of {ax}={float(x)} measured at {j:.4f}, model {u:.4f}")
                reg = (abs(jx - s * eff * float(p[0])) / (s * eff), abs(jy - s * eff * float(p[1])) / (s * eff))
                band = P.in_last_band(jx, jy, rec["shape"], c["os"])
            mp, marg = mpts[0]
            if P.q2f(margins[0]) >= 1 / 16 and not (marg is not None and abs(P.q2f(marg) - float(P.LN_THR)) < 0.1):
                compared += 1
                if mp is None:
                    if not (math.isnan(pts[0][0]) and vals[0] == 0):
                        diffs.append(f"{where}: impl {pts[0].tolist()} value {vals[0]}, model NaN/0")
                elif math.isnan(pts[0][0]) or not (P.close(pts[0][0], P.q2f(mp[0])) and P.close(pts[0][1], P.q2f(mp[1]))):
                    diffs.append(f"{where}: impl {pts[0].tolist()} model ({P.q2f(mp[0])}, {P.q2f(mp[1])})")
                elif abs(vals[0] - math.exp(P.q2f(marg))) > VTOL:
                    diffs.append(f"{where}: value impl {vals[0]} model {math.exp(P.q2f(marg))}")
            bad = P.oracle_point(pts[0], vals[0], p, (half, half), reg, {"band": band})
            if bad:
                fails.append((f"{where}: {bad[0]}", bad[1]))
        if not any("error" in r[p] for p in r):
            pi = P.provider_independence(c, r["LabelsReader"], r["VideoReader"])
            fails += [(f"provider independence: {x}", None) for x in pi]
        if diffs:
            disagreements += 1
            if disagreements <= 4:
                run.log(f"model/impl disagree on channel-mode case {c['idx']}: {diffs[:3]}")
        unknown = []
        for reason, sel in fails:
            if sel is not None and run.selector_known(sel) is not None:
                run.violation("failing-input", {"case": cj, "oracle": reason}, selector=sel)
            else:
                unknown.append(reason)
        if unknown:
            run.violation("failing-input", {"case": cj, "oracle": unknown[:6], "correspondence": diffs[:4]})
        elif diffs:
            run.proof_broken.append(f"correspondence C02 channel modes, case {str(cj)[:800]}: {diffs[:3]}")
    return disagreements, {"gray_points_compared": compared}


def replay(run, c, mods, fixed_f8):
    class _R:                     # collect instead of writing evidence
        def __init__(self, run):
            self.run, self.bad, self.proof_broken = run, [], []
        def case(self, *a, **k): pass
        def log(self, m): print(m)
        def selector_known(self, s): return self.run.selector_known(s)
        def violation(self, kind, d, selector=None):
            if selector is None or self.run.selector_known(selector) is None:
                self.bad.append(d.get("oracle"))
    r = _R(run)
    d, _ = evaluate(r, [c], mods, fixed_f8)
    print({"oracle": r.bad, "correspondence": r.proof_broken})
    return 1 if r.bad else 0
