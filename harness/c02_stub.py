"""Shared helper for C02 / C12: ramp frames, stub networks, fake providers.

"The network outputs the ideal confidence maps for the image it is actually
given" is made literal (DESIGN.md 4.2):

* every test frame is a 3-channel uint8 *ramp image*: R = x, G = y (pixel
  coordinates, so H, W <= 255) and B = 255 - frame_id (constant; it is both the
  valid-pixel mask and the identity of the frame);
* a `StubNet` never sees scales, strides, paddings or offsets.  From the pixels
  it receives it reads the frame id and fits the affine map
      network-input pixel (col j, row i)  ->  original coordinate (x, y)
  (linear ramps survive bilinear resizing, zero padding and crop_and_resize),
  maps the ground-truth keypoints of that frame *into its own input frame* and
  returns the repo's own target generators' output (generate_confmaps /
  generate_multiconfmaps / generate_pafs) for those positions.

The fake `video` / `labels` objects expose exactly what
sleap_nn.data.providers.{VideoReader, LabelsReader} read.
"""
from __future__ import annotations

import contextlib
import math
import types
from fractions import Fraction as F

import numpy as np

NAN = float("nan")


# ------------------------------------------------------------------ frames
def make_frame(H: int, W: int, fid: int) -> np.ndarray:
    """(H, W, 3) uint8 ramp image carrying frame id `fid` (0 <= fid <= 100)."""
    assert H <= 255 and W <= 255 and 0 <= fid <= 100
    img = np.zeros((H, W, 3), dtype=np.uint8)
    img[..., 0] = np.arange(W, dtype=np.uint8)[None, :]
    img[..., 1] = np.arange(H, dtype=np.uint8)[:, None]
    img[..., 2] = 255 - fid
    return img


class Scene:
    """Ground truth table: frame id -> animals.
    animals: list of dicts {"kps": [(x, y) | None, ...], "cent": (x, y)} with
    Fraction (or float) coordinates in ORIGINAL image pixels.
    Optional key "unlabelled": True (default absent = False): the animal is DRAWN by the stub networks
    (its centroid / keypoints are part of the scene the network sees) but it has NO instance in the labels
    file built by `make_sources` (a detection that was never labelled)."""

    def __init__(self, n_nodes: int, edges=None):
        self.n_nodes = n_nodes
        self.edges = edges or []
        self.frames: dict[int, dict] = {}

    def add(self, fid, H, W, animals):
        self.frames[fid] = {"H": H, "W": W, "animals": animals}

    def kps_array(self, fid):
        a = self.frames[fid]["animals"]
        out = np.full((len(a), self.n_nodes, 2), np.nan, dtype=np.float64)
        for i, an in enumerate(a):
            for k, p in enumerate(an["kps"]):
                if p is not None:
                    out[i, k] = (float(p[0]), float(p[1]))
        return out

    def cents_array(self, fid):
        a = self.frames[fid]["animals"]
        return np.array([[float(an["cent"][0]), float(an["cent"][1])] for an in a], dtype=np.float64).reshape(-1, 2)

    def labelled_kps_array(self, fid):
        """kps_array restricted to the animals that have an instance in the labels file (all of them unless
        an animal carries "unlabelled": True), in scene order."""
        keep = [i for i, an in enumerate(self.frames[fid]["animals"]) if not an.get("unlabelled")]
        return self.kps_array(fid)[np.asarray(keep, dtype=np.int64)]


# ------------------------------------------------------------------ fake sleap-io objects
class FakeVideo:
    def __init__(self, frames: list[np.ndarray], name="v"):
        self.frames = frames
        self.name = name
        self.filename = name

    @property
    def shape(self):
        h, w, c = self.frames[0].shape
        return (len(self.frames), h, w, c)

    def __len__(self):
        return len(self.frames)

    def __getitem__(self, i):
        return self.frames[i]


class FakeInstance:
    def __init__(self, pts):
        self._pts = np.asarray(pts, dtype=np.float64)

    def numpy(self):
        return self._pts

    @property
    def is_empty(self):
        return bool(np.isnan(self._pts).all())


class FakeLF:
    def __init__(self, video, frame_idx, instances):
        self.video, self.frame_idx, self.instances = video, frame_idx, instances

    @property
    def image(self):
        return self.video[self.frame_idx]

    @property
    def user_instances(self):
        return self.instances

    def __iter__(self):
        return iter(self.instances)

    def __len__(self):
        return len(self.instances)


class FakeLabels:
    def __init__(self, videos, lfs, skeletons=None):
        self.videos, self.labeled_frames, self.skeletons = videos, lfs, skeletons or ["skeleton"]

    def __len__(self):
        return len(self.labeled_frames)

    def __getitem__(self, i):
        return self.labeled_frames[i]

    def __iter__(self):
        return iter(self.labeled_frames)


class _Recorder:
    """Stands in for `sleap_io` inside sleap_nn.inference.predictors while the
    REAL `_make_labeled_frames_from_generator` runs (sleap-io 0.9.2 no longer
    accepts the `points=` keyword the pinned repo uses).  It records what the
    repo code passes."""

    class PredictedInstance:
        def __init__(self, **kw):
            self.__dict__.update(kw)

        @classmethod
        def from_numpy(cls, **kw):
            return cls(**kw)

        @property
        def score(self):            # BottomUpPredictor sorts by `.score` when max_instances is set
            return self.instance_score

    class LabeledFrame:
        def __init__(self, video=None, frame_idx=None, instances=None):
            self.video, self.frame_idx, self.instances = video, frame_idx, instances
            self.image = None

    class Labels:
        def __init__(self, videos=None, skeletons=None, labeled_frames=None):
            self.videos, self.skeletons, self.labeled_frames = videos, skeletons, labeled_frames


@contextlib.contextmanager
def fake_sio(labels=None, video=None):
    """Patch the `sio` names used by providers (load_slp/load_video) and by
    predictors (PredictedInstance/LabeledFrame/Labels) for the duration."""
    import sleap_io
    from sleap_nn.data import providers
    from sleap_nn.inference import predictors
    ns = types.SimpleNamespace(**{k: getattr(sleap_io, k) for k in dir(sleap_io) if not k.startswith("__")})
    ns.load_slp = lambda filename, *a, **k: labels
    ns.load_video = lambda filename, *a, **k: video
    ns.PredictedInstance = _Recorder.PredictedInstance
    ns.LabeledFrame = _Recorder.LabeledFrame
    ns.Labels = _Recorder.Labels
    old = (providers.sio, predictors.sio)
    providers.sio = ns
    predictors.sio = ns
    try:
        yield
    finally:
        providers.sio, predictors.sio = old


# ------------------------------------------------------------------ the stub network
def fit_axis(vals: np.ndarray, mask: np.ndarray, axis: int, border: int = 3):
    """vals[i, j] = original coordinate seen at input pixel (i, j) (valid where
    mask).  Least-squares fit orig = a * idx + b along `axis` (1: columns,
    0: rows) over the valid rectangle shrunk by `border` pixels (resizing is
    not linear in the outermost pixels: clamping / truncated antialias kernel;
    antialiased non-integer downscaling additionally wiggles by <= 0.05 px,
    periodically, which the fit averages out)."""
    rows = np.where(mask.any(axis=1))[0]
    cols = np.where(mask.any(axis=0))[0]
    if len(rows) == 0 or len(cols) == 0:
        return None
    r0, r1, c0, c1 = rows[0], rows[-1], cols[0], cols[-1]
    for bd in (border, 2, 1, 0):
        if r1 - r0 - 2 * bd >= 5 and c1 - c0 - 2 * bd >= 5:
            break
    sub = np.zeros_like(mask)
    sub[r0 + bd:r1 - bd + 1, c0 + bd:c1 - bd + 1] = True
    inl = mask & sub
    if inl.sum() < 6:
        return None
    H, W = vals.shape
    idx = np.arange(W)[None, :].repeat(H, 0) if axis == 1 else np.arange(H)[:, None].repeat(W, 1)
    x = idx[inl].astype(np.float64)
    y = vals[inl].astype(np.float64)
    xm, ym = x.mean(), y.mean()
    den = ((x - xm) ** 2).sum()
    if den == 0:
        return None
    a = float(((x - xm) * (y - ym)).sum() / den)
    if abs(a) < 1e-6:
        return None
    b = float(ym - a * xm)
    return a, b


def read_frame(img: np.ndarray):
    """img: (3, h, w) float array as given to the network.  Returns
    (fid, (ax, bx), (ay, by)) with orig_x = ax * col + bx, orig_y = ay * row + by,
    or None when the input holds no usable content."""
    B = img[2] * 255.0
    bmax = float(B.max())
    if bmax < 100:
        return None
    fid = int(round(255 - bmax))
    mask = B > bmax - 0.02
    fx = fit_axis(img[0] * 255.0, mask, 1)
    fy = fit_axis(img[1] * 255.0, mask, 0)
    if fx is None or fy is None:
        return None
    return fid, fx, fy


def make_stub(torch, kind: str, scene: Scene, stride: int, sigma: float = 1.5, paf_stride: int | None = None,
              paf_sigma: float = 4.0):
    """A torch.nn.Module standing in for the trained network.
    kind: 'single' | 'instance' (one channel per node, one animal),
          'centroid' (one channel, all animals' centroids),
          'bottomup' (dict of multi-instance confmaps and PAFs).
    `log` collects, per forward call and sample, what the network was given."""
    from sleap_nn.data.confidence_maps import generate_confmaps, generate_multiconfmaps
    from sleap_nn.data.edge_maps import generate_pafs

    class Stub(torch.nn.Module):
        def __init__(self):
            super().__init__()
            self.log = []

        def forward(self, x):
            if x.ndim == 5:
                x = x.squeeze(1)
            n, c, h, w = x.shape
            assert c == 3, f"stub expects the 3-channel ramp image, got {tuple(x.shape)}"
            outs, pafs = [], []
            gh, gw = -(-h // stride), -(-w // stride)
            for b in range(n):
                info = read_frame(x[b].detach().cpu().numpy().astype(np.float64))
                rec = {"kind": kind, "shape": (h, w), "fid": None}
                self.log.append(rec)
                nch = 1 if kind == "centroid" else scene.n_nodes
                if info is None or info[0] not in scene.frames:
                    outs.append(torch.zeros((1, nch, gh, gw)))
                    if kind == "bottomup":
                        ph, pw = -(-h // paf_stride), -(-w // paf_stride)
                        pafs.append(torch.zeros((1, 2 * len(scene.edges), ph, pw)))
                    continue
                fid, (ax, bx), (ay, by) = info
                rec.update({"fid": fid, "ax": ax, "bx": bx, "ay": ay, "by": by})

                def to_in(p):      # original -> this network's input pixel frame
                    q = p.copy()
                    q[..., 0] = (p[..., 0] - bx) / ax
                    q[..., 1] = (p[..., 1] - by) / ay
                    return q

                kps = scene.kps_array(fid)          # (animals, nodes, 2)
                cents = scene.cents_array(fid)      # (animals, 2)
                if kind == "centroid":
                    if len(cents) == 0:
                        outs.append(torch.zeros((1, 1, gh, gw)))
                        continue
                    pts = torch.tensor(to_in(cents), dtype=torch.float32).unsqueeze(0)   # (1, a, 2)
                    outs.append(generate_multiconfmaps(pts, (h, w), pts.shape[1], sigma, stride, True))
                elif kind == "single":
                    if len(kps) == 0:
                        outs.append(torch.zeros((1, nch, gh, gw)))
                        continue
                    pts = torch.tensor(to_in(kps[:1]), dtype=torch.float32)              # (1, nodes, 2)
                    outs.append(generate_confmaps(pts, (h, w), sigma, stride))
                elif kind == "instance":
                    if len(kps) == 0:
                        outs.append(torch.zeros((1, nch, gh, gw)))
                        continue
                    ci = to_in(cents)
                    centre = np.array([(w - 1) / 2.0, (h - 1) / 2.0])
                    # the crop is centred on the animal it was made for; the
                    # stride padding (bottom/right) is not part of the crop
                    d2 = ((ci - centre) ** 2).sum(-1)
                    rec["centre_d2"] = d2.tolist()
                    a = int(np.argmin(d2))
                    rec["animal"] = a
                    pts = torch.tensor(to_in(kps[a:a + 1]), dtype=torch.float32)
                    outs.append(generate_confmaps(pts, (h, w), sigma, stride))
                elif kind == "bottomup":
                    ph, pw = -(-h // paf_stride), -(-w // paf_stride)
                    if len(kps) == 0:
                        outs.append(torch.zeros((1, nch, gh, gw)))
                        pafs.append(torch.zeros((1, 2 * len(scene.edges), ph, pw)))
                        continue
                    pts = torch.tensor(to_in(kps), dtype=torch.float32).unsqueeze(0)     # (1, a, nodes, 2)
                    outs.append(generate_multiconfmaps(pts, (h, w), pts.shape[1], sigma, stride, False))
                    pf = generate_pafs(pts, (h, w), paf_sigma, paf_stride,
                                       torch.tensor(scene.edges, dtype=torch.int64), True)
                    pafs.append(pf.unsqueeze(0))
                else:
                    raise ValueError(kind)
            cms = torch.cat(outs, 0).to(torch.float32)
            if kind == "bottomup":
                return {"MultiInstanceConfmapsHead": cms,
                        "PartAffinityFieldsHead": torch.cat(pafs, 0).to(torch.float32)}
            return cms

    return Stub()


# ------------------------------------------------------------------ building the REAL predictors
def base_cfg(OmegaConf, head: str, os_: int, scale, max_stride: int, max_h, max_w, crop=None, extra_head=None):
    head_cfg = {"confmaps": {"output_stride": os_, "anchor_part": None}}
    if extra_head:
        head_cfg.update(extra_head)
    return OmegaConf.create({
        "data_config": {"preprocessing": {"scale": float(scale), "is_rgb": True, "max_height": max_h,
                                          "max_width": max_w, "crop_hw": crop}},
        "model_config": {"backbone_config": {"unet": {"max_stride": max_stride}},
                         "head_configs": {head: head_cfg}},
    })


def build_single_predictor(mods, scene, cfg):
    """cfg: dict(os, scale, max_stride, max_h, max_w, batch, refinement).
    Built the way Predictor.from_trained_models builds it, minus the checkpoint."""
    torch, OmegaConf, predictors = mods
    stub = make_stub(torch, "single", scene, cfg["os"])
    conf = base_cfg(OmegaConf, "single_instance", cfg["os"], cfg["scale"], cfg["max_stride"], cfg["max_h"], cfg["max_w"])
    pre = OmegaConf.create({"is_rgb": True, "crop_hw": None, "max_width": None, "max_height": None,
                            "anchor_ind": None})
    p = predictors.SingleInstancePredictor(
        confmap_config=conf, confmap_model=stub, backbone_type="unet", skeletons=["skeleton"],
        peak_threshold=cfg.get("peak_threshold", 0.2), integral_refinement=cfg.get("refinement"), integral_patch_size=5,
        batch_size=cfg["batch"], return_confmaps=False, device="cpu", preprocess_config=pre)
    p._initialize_inference_model()
    return p, stub


def build_topdown_predictor(mods, scene, cfg):
    """cfg: dict(os_c, os_i, scale_c, scale_i, ms_c, ms_i, max_h, max_w, crop, batch, refinement, max_instances)."""
    torch, OmegaConf, predictors = mods
    stub_c = make_stub(torch, "centroid", scene, cfg["os_c"])
    stub_i = make_stub(torch, "instance", scene, cfg["os_i"])
    crop = [cfg["crop"], cfg["crop"]] if isinstance(cfg["crop"], int) else list(cfg["crop"])      # (height, width)
    cc = base_cfg(OmegaConf, "centroid", cfg["os_c"], cfg["scale_c"], cfg["ms_c"], cfg["max_h"], cfg["max_w"])
    ci = base_cfg(OmegaConf, "centered_instance", cfg["os_i"], cfg["scale_i"], cfg["ms_i"], cfg["max_h"],
                  cfg["max_w"], crop=crop)
    pre = OmegaConf.create({"is_rgb": True, "crop_hw": crop, "max_width": None, "max_height": None,
                            "anchor_ind": None})
    p = predictors.TopDownPredictor(
        centroid_config=cc, confmap_config=ci, centroid_model=stub_c, confmap_model=stub_i,
        centroid_backbone_type="unet", centered_instance_backbone_type="unet", skeletons=["skeleton"],
        peak_threshold=cfg.get("peak_threshold", 0.2), integral_refinement=cfg.get("refinement"), integral_patch_size=5,
        batch_size=cfg["batch"], max_instances=cfg.get("max_instances"), return_confmaps=False, device="cpu",
        preprocess_config=pre, anchor_ind=None)
    p._initialize_inference_model()
    return p, stub_c, stub_i


def make_sources(scene: Scene, fids: list[int], n_videos: int = 1, vid_of: list[int] | None = None):
    """The same frames as a fake video and as a fake labels file.
    With n_videos > 1 (labels only) frame k lives in video k % n_videos; with `vid_of` (one entry per
    position in `fids`) frame k lives in video vid_of[k] — the videos may then have DIFFERENT frame
    sizes (every frame of one video has that video's size); videos without a frame are left out.
    Returns (video holding all frames [None when the sizes differ], labels, [(video index, frame index)])."""
    frames = [make_frame(scene.frames[f]["H"], scene.frames[f]["W"], f) for f in fids]
    same = len({fr.shape for fr in frames}) <= 1
    video = FakeVideo(frames, "video0") if same else None
    if n_videos == 1 and vid_of is None:
        vids = [video]
        where = [(0, k) for k in range(len(fids))]
    else:
        of = [k % n_videos for k in range(len(fids))] if vid_of is None else list(vid_of)
        used = sorted(set(of))
        buckets = {v: [] for v in used}
        where = []
        for k, fr in enumerate(frames):
            v = of[k]
            where.append((used.index(v), len(buckets[v])))
            buckets[v].append(fr)
        vids = [FakeVideo(buckets[v], f"video{v}") for v in used]
        for v in vids:
            assert len({fr.shape for fr in v.frames}) == 1, "frames of one video must share a size"
    lfs = []
    for k, f in enumerate(fids):
        v, idx = where[k]
        kps = scene.labelled_kps_array(f)      # == kps_array(f) unless an animal is marked "unlabelled"
        insts = [FakeInstance(a) for a in kps] or [FakeInstance(np.full((scene.n_nodes, 2), np.nan))]
        lfs.append(FakeLF(vids[v], idx, insts))
    return video, FakeLabels(vids, lfs), where


def run_predictor(pred, provider: str, video, labels):
    """make_pipeline + _predict_generator + _make_labeled_frames_from_generator
    through the REAL predictor code (this is what Predictor.predict(make_labels=True)
    does, with the raw dictionaries recorded on the way).  Returns
      frames: [(video_idx, frame_idx, [(points, point_scores, instance_score)])]
      raw:    the dictionaries yielded by _predict_generator (numpy arrays)
      flags:  what make_pipeline decided."""
    raw = []
    with fake_sio(labels=labels, video=video):
        pred.make_pipeline(provider, "fake.slp" if provider == "LabelsReader" else "fake.mp4", 8)
        flags = {"preprocess": pred.preprocess, "instances_key": pred.instances_key,
                 "preprocess_config": dict(pred.preprocess_config)}

        def tee():
            for ex in pred._predict_generator():
                raw.append({k: (np.array(v, copy=True) if isinstance(v, np.ndarray) else v)
                            for k, v in ex.items() if k not in ("image", "instance_image")})
                yield ex

        out = pred._make_labeled_frames_from_generator(tee())
    res = []
    for lf in out.labeled_frames:
        vi = out.videos.index(lf.video)
        res.append((vi, int(lf.frame_idx), [
            (np.asarray(i.points, dtype=np.float64), np.asarray(i.point_scores, dtype=np.float64),
             float(i.instance_score)) for i in lf.instances]))
    return res, raw, flags


def build_bottomup_predictor(mods, scene, cfg):
    """cfg: dict(os, paf_os, scale, max_stride, max_h, max_w, batch, refinement, max_instances)."""
    torch, OmegaConf, predictors = mods
    stub = make_stub(torch, "bottomup", scene, cfg["os"], paf_stride=cfg["paf_os"], paf_sigma=cfg.get("paf_sigma", 4.0))
    names = [f"n{k}" for k in range(scene.n_nodes)]
    conf = base_cfg(OmegaConf, "bottomup", cfg["os"], cfg["scale"], cfg["max_stride"], cfg["max_h"], cfg["max_w"],
                    extra_head={"confmaps": {"output_stride": cfg["os"], "part_names": names},
                                "pafs": {"output_stride": cfg["paf_os"],
                                         "edges": [[names[a], names[b]] for a, b in scene.edges]}})
    pre = OmegaConf.create({"is_rgb": True, "crop_hw": None, "max_width": None, "max_height": None,
                            "anchor_ind": None})
    p = predictors.BottomUpPredictor(
        bottomup_config=conf, bottomup_model=stub, backbone_type="unet", skeletons=["skeleton"],
        peak_threshold=0.2, integral_refinement=cfg.get("refinement"), integral_patch_size=5,
        batch_size=cfg["batch"], max_instances=cfg.get("max_instances"), return_confmaps=False, device="cpu",
        preprocess_config=pre)
    p._initialize_inference_model()
    return p, stub


def build_topdown_gt_predictor(mods, scene, cfg):
    """TopDownPredictor with the centroid model left out (ground-truth centroids,
    LabelsReader only).  cfg: dict(os_i, scale_i, ms_i, max_h, max_w, crop, batch, refinement)."""
    torch, OmegaConf, predictors = mods
    stub_i = make_stub(torch, "instance", scene, cfg["os_i"])
    crop = [cfg["crop"], cfg["crop"]] if isinstance(cfg["crop"], int) else list(cfg["crop"])      # (height, width)
    ci = base_cfg(OmegaConf, "centered_instance", cfg["os_i"], cfg["scale_i"], cfg["ms_i"], cfg["max_h"],
                  cfg["max_w"], crop=crop)
    pre = OmegaConf.create({"is_rgb": True, "crop_hw": crop, "max_width": None, "max_height": None,
                            "anchor_ind": None})
    p = predictors.TopDownPredictor(
        centroid_config=None, confmap_config=ci, centroid_model=None, confmap_model=stub_i,
        centroid_backbone_type=None, centered_instance_backbone_type="unet", skeletons=["skeleton"],
        peak_threshold=cfg.get("peak_threshold", 0.2), integral_refinement=cfg.get("refinement"), integral_patch_size=5,
        batch_size=cfg["batch"], max_instances=None, return_confmaps=False, device="cpu",
        preprocess_config=pre, anchor_ind=None)
    p._initialize_inference_model()
    return p, stub_i


def build_topdown_centroid_only_predictor(mods, scene, cfg):
    """TopDownPredictor with the centered-instance model left out: CentroidCrop(return_crops=False)
    followed by FindInstancePeaksGroundTruth (LabelsReader only, instances_key=True).
    cfg: dict(os_c, scale_c, ms_c, max_h, max_w, batch, refinement, max_instances)."""
    torch, OmegaConf, predictors = mods
    stub_c = make_stub(torch, "centroid", scene, cfg["os_c"])
    cc = base_cfg(OmegaConf, "centroid", cfg["os_c"], cfg["scale_c"], cfg["ms_c"], cfg["max_h"], cfg["max_w"])
    pre = OmegaConf.create({"is_rgb": True, "crop_hw": None, "max_width": None, "max_height": None,
                            "anchor_ind": None})
    p = predictors.TopDownPredictor(
        centroid_config=cc, confmap_config=None, centroid_model=stub_c, confmap_model=None,
        centroid_backbone_type="unet", centered_instance_backbone_type=None, skeletons=["skeleton"],
        peak_threshold=0.2, integral_refinement=cfg.get("refinement"), integral_patch_size=5,
        batch_size=cfg["batch"], max_instances=cfg.get("max_instances"), return_confmaps=False, device="cpu",
        preprocess_config=pre, anchor_ind=None)
    p._initialize_inference_model()
    return p, stub_c


def run_predictor_raw(pred, provider: str, video, labels):
    """make_pipeline + _predict_generator only (= Predictor.predict(make_labels=False)): the list of
    dictionaries (numpy arrays, images dropped) and what make_pipeline decided."""
    raw = []
    with fake_sio(labels=labels, video=video):
        pred.make_pipeline(provider, "fake.slp" if provider == "LabelsReader" else "fake.mp4", 8)
        flags = {"preprocess": pred.preprocess, "instances_key": pred.instances_key,
                 "preprocess_config": dict(pred.preprocess_config)}
        for ex in pred._predict_generator():
            raw.append({k: (np.array(v, copy=True) if isinstance(v, np.ndarray) else v)
                        for k, v in ex.items() if k not in ("image", "instance_image")})
    return raw, flags
