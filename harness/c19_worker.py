"""C19 worker: ONE real `ModelTrainer(cfg)` + `.train()` run in a fresh process.

Invoked as  `python -m harness.c19_worker <spec.json>`  (PYTHONPATH = $VERIF_REPO:/verif).
The spec is read from a file (never from argv: wandb records argv in its run
metadata, which would plant the key in the output tree by our own doing).

The run is observed from outside the repo code: `OmegaConf.save`, Lightning's
checkpoint writer, `torch.save` and `shutil.rmtree` are wrapped; after every
wrapped call (= a file-write boundary = a possible crash point) the whole
output tree is scanned for the API key (raw, base64 at the three byte alignments, hex,
reversed; inside zip members too).  Result: JSON written to spec["result"].

Chunk creation is observed too (round 4): at every boundary the chunk directories are polled, a directory that
starts to hold files yields a `mkchunks` event.

Spec fields (all but the first six optional; defaults reproduce the round-1 runs):
  model_type, framework (torch_dataset | torch_dataset_np_chunks | litdata), use_wandb, save_ckpt,
  structured, delete_chunks,
  wandb_mode     "offline" | None | "online"   (config-level; the ENVIRONMENT always forces offline)
  use_existing   two-step sequence: a preparatory run creates the chunks and keeps them, the observed
                 run re-uses them (`use_existing_chunks=True`)
  mem_fallback   psutil reports no available memory: `_create_data_loaders_torch_dataset` switches the
                 framework to np_chunks mid-run (chunks under ./train_chunks, ./val_chunks of the cwd)
  fault          {"at": "fit_return" | "fit_start" | "ckpt_hook" | "dataset" | "after_initial",
                  "kind": "runtime" | "ki"}   (legacy: inject_fit_fault=True == fit_return/runtime)
  opts           save_top_k / save_last (factors of the grid: they decide whether a checkpoint is written), and
                 nuisance options that must not change the observable behaviour: early_stopping,
                 profiler, steps_per_epoch, chunk_size, scale, crop_auto,
                 max_epochs, strategy, explicit_names (head part_names / edges spelled out instead of None);
                 round 5, loader-size parameters: train_bs / val_bs (batch sizes below, equal to and ABOVE the
                 number of samples; the structured builder has one batch size for both loaders), reduce_lr
                 (the scheduler that monitors val_loss instead of step_lr)
"""
from __future__ import annotations

import json
import os
import sys
import traceback
from pathlib import Path

KEY_DEFAULT = "c19f5ec2e7a1b2c3d4e5f60718293a4b5c6d7e8f"     # 40 chars, the shape wandb.login accepts


def key_patterns(key: str) -> list[tuple[str, bytes]]:
    """byte patterns whose presence in a file means the key was persisted: raw, the alignment-
    independent core of its base64 encoding at the three byte offsets, hex, upper-case, reversed,
    utf-16.  (url-encoding an alphanumeric key is the identity.)"""
    import base64
    kb = key.encode()
    pats = [("raw", kb), ("hex", kb.hex().encode()), ("reversed", kb[::-1]), ("upper", key.upper().encode()),
            ("utf16", key.encode("utf-16-le"))]
    for off in range(3):
        enc = base64.b64encode(b"\0" * off + kb)
        lead = (off * 8 + 5) // 6            # base64 chars that depend on the padding bytes
        core = enc[lead:].rstrip(b"=")
        core = core[:len(core) - 1] if (off + len(kb)) % 3 else core    # last char depends on what follows
        pats.append((f"base64@{off}", core))
        pats.append((f"base64url@{off}", core.replace(b"+", b"-").replace(b"/", b"_")))
    seen, out = set(), []
    for n, b in pats:
        if b not in seen and len(b) >= 12:
            seen.add(b)
            out.append((n, b))
    return out


# --------------------------------------------------------------------------
# configuration construction

def head_dict(model_type: str, explicit_names: bool = False) -> dict:
    """`explicit_names`: part_names / edges spelled out (the skeleton of tests/assets/minimal_instance) instead
    of None = "take them from the labels file"."""
    heads = {"single_instance": None, "centroid": None, "centered_instance": None, "bottomup": None}
    names = ["A", "B"] if explicit_names else None
    edges = [["A", "B"]] if explicit_names else None
    if model_type == "single_instance":
        heads["single_instance"] = {"confmaps": {"part_names": names, "sigma": 1.5, "output_stride": 2}}
    elif model_type == "centroid":
        heads["centroid"] = {"confmaps": {"anchor_part": 0, "sigma": 1.5, "output_stride": 2}}
    elif model_type == "centered_instance":
        heads["centered_instance"] = {"confmaps": {"part_names": names, "anchor_part": 0, "sigma": 1.5,
                                                   "output_stride": 2}}
    elif model_type == "bottomup":
        heads["bottomup"] = {
            "confmaps": {"part_names": names, "sigma": 1.5, "output_stride": 2, "loss_weight": 1.0},
            "pafs": {"edges": edges, "sigma": 4.0, "output_stride": 4, "loss_weight": 1.0}}
    else:
        raise ValueError(model_type)
    return heads


UNET = {"in_channels": 1, "kernel_size": 3, "filters": 4, "filters_rate": 1.5, "max_stride": 8,
        "convs_per_block": 2, "stacks": 1, "stem_stride": None, "middle_block": True,
        "up_interpolate": True, "output_stride": 2}


REDUCE_LR = {"threshold": 1e-6, "threshold_mode": "abs", "cooldown": 0, "patience": 5, "factor": 0.5, "min_lr": 1e-8}


def opt(spec: dict, name: str, default):
    return (spec.get("opts") or {}).get(name, default)


def plain_dict(spec: dict) -> dict:
    """The configuration as a plain nested dict (what a user would write in YAML)."""
    lit = spec["framework"] == "litdata"
    d = {
        "data_config": {
            "provider": "LabelsReader",
            "train_labels_path": spec["labels"],
            "val_labels_path": spec["labels"],
            "test_file_path": None,
            "user_instances_only": True,
            "data_pipeline_fw": spec["framework"],
            "np_chunks_path": None if lit else spec["chunks_dir"],
            "litdata_chunks_path": spec["chunks_dir"] if lit else None,
            "use_existing_chunks": bool(spec.get("use_existing", False)),
            "delete_chunks_after_training": bool(spec["delete_chunks"]),
            "chunk_size": opt(spec, "chunk_size", 100),
            "preprocessing": {"is_rgb": False, "max_width": None, "max_height": None,
                              "scale": opt(spec, "scale", 0.5),
                              "crop_hw": None if opt(spec, "crop_auto", False) else [64, 64],
                              "min_crop_size": 32 if opt(spec, "crop_auto", False) else None},
            "use_augmentations_train": False,
            "augmentation_config": None,
        },
        "model_config": {
            "init_weights": "default",
            "pre_trained_weights": None,
            "pretrained_backbone_weights": None,
            "pretrained_head_weights": None,
            "backbone_config": {"unet": dict(UNET), "convnext": None, "swint": None},
            "head_configs": head_dict(spec["model_type"], bool(opt(spec, "explicit_names", False))),
        },
        "trainer_config": {
            "train_data_loader": {"batch_size": int(opt(spec, "train_bs", 1)), "shuffle": False, "num_workers": 0},
            "val_data_loader": {"batch_size": int(opt(spec, "val_bs", 1)), "shuffle": False, "num_workers": 0},
            "model_ckpt": {"save_top_k": opt(spec, "save_top_k", 1), "save_last": opt(spec, "save_last", True)},
            "early_stopping": {"stop_training_on_plateau": bool(opt(spec, "early_stopping", False)),
                               "min_delta": 1e-8, "patience": 20},
            "trainer_devices": 1,
            "trainer_accelerator": "cpu",
            "enable_progress_bar": False,
            "steps_per_epoch": opt(spec, "steps_per_epoch", 1),
            "max_epochs": opt(spec, "max_epochs", 1),
            "seed": 1000,
            "use_wandb": bool(spec["use_wandb"]),
            "save_ckpt": bool(spec["save_ckpt"]),
            "save_ckpt_path": spec["out_dir"],
            "resume_ckpt_path": None,
            "wandb": {"entity": None, "project": "c19", "name": "c19_run", "wandb_mode": spec.get("wandb_mode", "offline"),
                      "api_key": spec["key"], "prv_runid": None, "group": None},
            "optimizer_name": "Adam",
            "optimizer": {"lr": 1e-4, "amsgrad": False},
            "lr_scheduler": ({"step_lr": None, "reduce_lr_on_plateau": dict(REDUCE_LR)} if opt(spec, "reduce_lr", False)
                             else {"step_lr": {"step_size": 10, "gamma": 0.5}, "reduce_lr_on_plateau": None}),
        },
    }
    # options the structured builder cannot express are only ever set on plain configurations
    if opt(spec, "profiler", None) is not None:
        d["trainer_config"]["profiler"] = opt(spec, "profiler", None)
    if opt(spec, "strategy", None) is not None:
        d["trainer_config"]["trainer_strategy"] = opt(spec, "strategy", None)
    return d


def build_plain(spec: dict):
    """YAML-loaded plain DictConfig: the dict is dumped to a YAML file (inputs dir,
    outside the scanned output tree) and read back with OmegaConf.load."""
    from omegaconf import OmegaConf
    import yaml
    p = Path(spec["in_dir"]) / "user_config.yaml"
    p.write_text(yaml.safe_dump(plain_dict(spec)))
    return OmegaConf.load(p.as_posix())


def build_structured(spec: dict):
    """Builder-made structured config, the way sleap_nn.train.train() makes it."""
    from sleap_nn.train import get_data_config, get_model_config, get_trainer_config
    from sleap_nn.config.training_job_config import TrainingJobConfig
    d = plain_dict(spec)
    dc, tc = d["data_config"], d["trainer_config"]
    data_config = get_data_config(
        train_labels_path=dc["train_labels_path"], val_labels_path=dc["val_labels_path"],
        data_pipeline_fw=dc["data_pipeline_fw"], np_chunks_path=dc["np_chunks_path"],
        litdata_chunks_path=dc["litdata_chunks_path"], chunk_size=dc["chunk_size"],
        use_existing_chunks=dc["use_existing_chunks"],
        delete_chunks_after_training=dc["delete_chunks_after_training"],
        is_rgb=False, scale=dc["preprocessing"]["scale"],
        crop_hw=None if dc["preprocessing"]["crop_hw"] is None else tuple(dc["preprocessing"]["crop_hw"]),
        min_crop_size=dc["preprocessing"]["min_crop_size"], use_augmentations_train=False)
    model_config = get_model_config(
        init_weight="default", pre_trained_weights=None, pretrained_backbone_weights=None,
        pretrained_head_weights=None, backbone_config={"unet": dict(UNET)},
        head_configs={k: v for k, v in d["model_config"]["head_configs"].items() if v is not None})
    trainer_config = get_trainer_config(
        batch_size=tc["train_data_loader"]["batch_size"], shuffle_train=False, num_workers=0, ckpt_save_top_k=tc["model_ckpt"]["save_top_k"],
        ckpt_save_last=tc["model_ckpt"]["save_last"],
        trainer_num_devices=1, trainer_accelerator="cpu", enable_progress_bar=False,
        steps_per_epoch=tc["steps_per_epoch"], max_epochs=tc["max_epochs"], seed=1000, use_wandb=tc["use_wandb"], save_ckpt=tc["save_ckpt"],
        save_ckpt_path=tc["save_ckpt_path"], wandb_project="c19", wandb_name="c19_run",
        wandb_api_key=spec["key"], wandb_mode=tc["wandb"]["wandb_mode"], optimizer="Adam", learning_rate=1e-4,
        lr_scheduler={k: v for k, v in tc["lr_scheduler"].items() if v is not None},
        early_stopping=tc["early_stopping"]["stop_training_on_plateau"], early_stopping_min_delta=1e-8,
        early_stopping_patience=20)
    tjc = TrainingJobConfig(data_config=data_config, model_config=model_config, trainer_config=trainer_config)
    cfg = tjc.to_sleap_nn_cfg().copy()
    if tc["val_data_loader"]["batch_size"] != tc["train_data_loader"]["batch_size"]:
        raise ValueError("the structured builder has ONE batch size for both loaders")
    return cfg


# --------------------------------------------------------------------------
# observation

class Observer:
    def __init__(self, root: Path, key: str):
        self.root, self.key = Path(root), key.encode()
        self.patterns = key_patterns(key)
        self.events: list[dict] = []
        self.encodings_hit: dict[str, str] = {}
        self.chunk_dirs: list[Path] = []          # directories whose becoming non-empty is an event (`mkchunks`)
        self.chunk_state: dict[str, bool] = {}

    def poll_chunks(self, silent: bool = False):
        """chunk creation is observed from outside the repo code: a watched directory that held no file at the
        last boundary and holds one now yields a `mkchunks` event (placed BEFORE the event being recorded)"""
        for d in self.chunk_dirs:
            try:
                now = d.is_dir() and any(p.is_file() for p in d.rglob("*"))
            except OSError:
                now = False
            r = self.rel(d)
            if now and not self.chunk_state.get(r, False) and not silent:
                self.events.append({"kind": "mkchunks", "file": r})
            self.chunk_state[r] = now

    def rel(self, p) -> str:
        p = Path(os.path.abspath(str(p)))
        try:
            return p.relative_to(self.root).as_posix()
        except ValueError:
            return "!outside:" + p.as_posix()

    def _bytes_have_key(self, data: bytes, where: str) -> bool:
        for name, pat in self.patterns:
            if pat in data:
                self.encodings_hit.setdefault(where, name)
                return True
        return False

    def has_key(self, p: Path) -> bool:
        """the key (in any of the encodings of `key_patterns`) occurs in the file — or, for a zip
        container (torch checkpoints), in any decompressed member; gzip streams are inflated too"""
        p = Path(p)
        try:
            data = p.read_bytes()
        except (OSError, IsADirectoryError):
            return False
        if self._bytes_have_key(data, self.rel(p)):
            return True
        if data[:2] == b"PK":
            import zipfile
            try:
                with zipfile.ZipFile(p) as z:
                    for n in z.namelist():
                        if z.getinfo(n).compress_type != zipfile.ZIP_STORED and \
                                self._bytes_have_key(z.read(n), self.rel(p) + "!" + n):
                            return True
            except Exception:
                pass
        if data[:2] == b"\x1f\x8b":
            import gzip
            try:
                if self._bytes_have_key(gzip.decompress(data), self.rel(p) + "!gz"):
                    return True
            except Exception:
                pass
        return False

    def scan(self) -> list[str]:
        hits = []
        for dp, dns, fns in os.walk(self.root):
            for fn in fns:
                p = Path(dp) / fn
                if self.has_key(p):
                    hits.append(self.rel(p))
        return sorted(hits)

    def event(self, kind: str, path=None, **kw):
        self.poll_chunks()
        ev = {"kind": kind, "file": None if path is None else self.rel(path)}
        if path is not None and kind != "rmtree":
            ev["key_in_file"] = self.has_key(Path(str(path)))
        ev["tree_hits"] = self.scan()
        ev.update(kw)
        self.events.append(ev)


def install_hooks(obs: Observer):
    import shutil
    import torch
    from omegaconf import OmegaConf
    from lightning.fabric.plugins.io.torch_io import TorchCheckpointIO

    orig_save = OmegaConf.save

    def save(config, f, resolve=False):
        r = orig_save(config=config, f=f, resolve=resolve)
        if isinstance(f, (str, os.PathLike)):
            obs.event("omegaconf.save", f)
        return r
    OmegaConf.save = staticmethod(save)

    orig_ck = TorchCheckpointIO.save_checkpoint

    def save_checkpoint(self, checkpoint, path, storage_options=None):
        r = orig_ck(self, checkpoint, path, storage_options)
        cfg = checkpoint.get("config", None) if isinstance(checkpoint, dict) else None
        stored = None
        try:
            if cfg is not None:
                stored = cfg.trainer_config.wandb.api_key
        except Exception:
            stored = "<unreadable>"
        obs.event("ckpt", path, stored_api_key_is_key=(stored == obs.key.decode()),
                  has_config=cfg is not None)
        return r
    TorchCheckpointIO.save_checkpoint = save_checkpoint

    orig_tsave = torch.save

    def tsave(obj, f, *a, **k):
        r = orig_tsave(obj, f, *a, **k)
        if isinstance(f, (str, os.PathLike)):
            obs.event("torch.save", f)
        return r
    torch.save = tsave

    # the run configuration handed to the wandb run (ends up in wandb/<run>/files/config.yaml)
    try:
        from wandb.sdk.wandb_config import Config as WConfig
        orig_update = WConfig.update

        def wupdate(self, d, allow_val_change=None):
            r = orig_update(self, d, allow_val_change)
            try:
                if isinstance(d, dict) and "run_config" in d:
                    obs.event("wandb.config", None,
                              key_in_payload=obs.key.decode() in json.dumps(d, default=str))
            except Exception:
                pass
            return r
        WConfig.update = wupdate
    except Exception as e:      # pragma: no cover
        obs.events.append({"kind": "hook-missing", "what": "wandb Config.update", "err": str(e)})

    orig_rm = shutil.rmtree

    def rmtree(path, *a, **k):
        inside = not obs.rel(path).startswith("!outside:")
        existed = Path(str(path)).exists()
        obs.poll_chunks()                       # what was created since the last boundary, before it is removed
        r = orig_rm(path, *a, **k)
        if inside:
            obs.event("rmtree", path, existed=existed)
        return r
    shutil.rmtree = rmtree


def to_plain(cfg):
    from omegaconf import OmegaConf
    return OmegaConf.to_container(cfg, resolve=True)


class InjectedFault(RuntimeError):
    pass


FAULT_MSG = "C19 injected fault"


def raise_fault(kind: str, where: str):
    if kind == "ki":
        raise KeyboardInterrupt(f"{FAULT_MSG} (KeyboardInterrupt) at {where}")
    raise RuntimeError(f"{FAULT_MSG} at {where}")


def install_fault(fault: dict | None, obs: Observer):
    """External exceptions at chosen points.  fit_return / fit_start / ckpt_hook strike inside the
    `try` of train() (its `finally` must still run); dataset / after_initial strike outside any
    `try`: the process simply dies there (= a prefix of the write trace)."""
    if not fault:
        return
    at, kind = fault["at"], fault.get("kind", "runtime")
    import lightning as L
    if at in ("fit_return", "fit_start"):
        orig_fit = L.Trainer.fit

        def fit(self, *a, **k):
            if at == "fit_start":
                raise_fault(kind, at)
            orig_fit(self, *a, **k)
            raise_fault(kind, at)
        L.Trainer.fit = fit
    elif at == "ckpt_hook":
        from sleap_nn.training.lightning_modules import TrainingModel
        orig_hook = TrainingModel.on_save_checkpoint

        def hook(self, checkpoint):
            orig_hook(self, checkpoint)
            raise_fault(kind, at)
        TrainingModel.on_save_checkpoint = hook
    elif at == "dataset":
        from sleap_nn.training.model_trainer import ModelTrainer
        for nm in ("_create_data_loaders_torch_dataset", "_create_data_loaders_litdata"):
            def wrap(orig):
                def f(self, *a, **k):
                    orig(self, *a, **k)
                    raise_fault(kind, at)
                return f
            setattr(ModelTrainer, nm, wrap(getattr(ModelTrainer, nm)))
    elif at == "after_initial":
        from omegaconf import OmegaConf
        hooked = OmegaConf.save            # the observing wrapper

        def save(config, f, resolve=False):
            r = hooked(config=config, f=f, resolve=resolve)
            if str(f).endswith("initial_config.yaml"):
                raise_fault(kind, at)
            return r
        OmegaConf.save = staticmethod(save)
    else:
        raise ValueError(f"unknown fault point {at}")


def prepare_existing_chunks(spec: dict):
    """step 1 of the two-step sequence: an un-observed run of the same configuration that creates
    the chunks and keeps them (delete flag off, tracking off, its own output directory)."""
    prep = dict(spec)
    prep.update({"use_existing": False, "delete_chunks": False, "use_wandb": False, "save_ckpt": False,
                 "out_dir": (Path(spec["in_dir"]) / "prep_out").as_posix(), "opts": dict(spec.get("opts") or {})})
    prep["opts"].pop("profiler", None)
    for k in ("train_bs", "val_bs", "early_stopping", "reduce_lr"):     # the OBSERVED run is the one under test
        prep["opts"].pop(k, None)
    cfg = build_structured(prep) if spec["structured"] else build_plain(prep)
    from sleap_nn.training.model_trainer import ModelTrainer
    ModelTrainer(cfg).train()


def main():
    spec = json.load(open(sys.argv[1]))
    spec.setdefault("key", KEY_DEFAULT)
    if spec.get("inject_fit_fault") and not spec.get("fault"):
        spec["fault"] = {"at": "fit_return", "kind": "runtime"}
    root = Path(spec["root"])                 # scanned tree: everything the run may write
    out_dir = Path(spec["out_dir"])           # save_ckpt_path (under root)
    cwd = root / "cwd"
    for d in (root, cwd, Path(spec["in_dir"])):
        d.mkdir(parents=True, exist_ok=True)
    os.chdir(cwd)
    # HOME is the user's credential store, not an output directory (wandb.login writes ~/.netrc by
    # design): it lives OUTSIDE the scanned tree and is reported separately
    home = Path(spec["in_dir"]) / "home"
    home.mkdir(exist_ok=True)
    venv_bin = str(Path(sys.executable).parent)
    os.environ.update({
        "WANDB_MODE": "offline", "WANDB_SILENT": "true", "WANDB_CONSOLE": "off",
        "HOME": home.as_posix(), "WANDB_CONFIG_DIR": (home / "wandb_config").as_posix(),
        "WANDB_CACHE_DIR": (home / "wandb_cache").as_posix(), "WANDB_DATA_DIR": (home / "wandb_data").as_posix(),
        "CUDA_VISIBLE_DEVICES": "", "WANDB_DISABLE_GIT": "true", "WANDB_DISABLE_CODE": "true",
        # the litdata path starts `python -m sleap_nn.training.get_bin_files`: same interpreter
        "PATH": venv_bin + os.pathsep + os.environ.get("PATH", ""),
        "DATA_OPTIMIZER_CACHE_FOLDER": (Path(spec["in_dir"]) / "litdata_cache").as_posix(),
    })
    os.environ.pop("WANDB_API_KEY", None)
    sys.path.insert(0, str(Path(__file__).resolve().parent.parent))
    from harness import core
    core.impl_env_setup()
    import logging
    logging.getLogger("lightning").setLevel(logging.ERROR)
    logging.getLogger("lightning.pytorch").setLevel(logging.ERROR)
    import warnings
    warnings.filterwarnings("ignore")
    from loguru import logger
    logger.remove()

    res: dict = {"spec": {k: spec[k] for k in ("model_type", "framework", "use_wandb", "save_ckpt",
                                               "structured", "delete_chunks", "inject_fit_fault", "wandb_mode",
                                               "use_existing", "mem_fallback", "fault", "opts")
                          if k in spec}}
    obs = Observer(root, spec["key"])
    try:
        if spec.get("use_existing"):
            prepare_existing_chunks(spec)
            chunks = Path(spec["chunks_dir"])
            res["prepared_chunk_files"] = len(list(chunks.rglob("*.npz")) + list(chunks.rglob("*.bin")))
            (chunks / "config.yaml").exists() or obs.events.append({"kind": "prep-missing-chunk-config"})
        cfg = build_structured(spec) if spec["structured"] else build_plain(spec)
        from omegaconf import OmegaConf
        supplied = to_plain(cfg)
        res["supplied_is_structured_wandb_node"] = (
            OmegaConf.get_type(cfg.trainer_config.wandb) is not dict)
        from sleap_nn.config.training_job_config import verify_training_cfg
        res["supplied_verified"] = to_plain(verify_training_cfg(cfg.copy()))
        res["supplied"] = supplied
        install_hooks(obs)
        from sleap_nn.training.model_trainer import ModelTrainer
        if spec.get("mem_fallback"):
            import psutil
            import collections
            VM = collections.namedtuple("VM", "available total")
            psutil.virtual_memory = lambda: VM(available=0, total=1)
        install_fault(spec.get("fault"), obs)
        # ids of the tracking runs this process opens (the final configuration must record the one it used)
        run_ids = []
        logins = []
        try:
            import wandb as _wb
            _orig_init = _wb.init

            def _init(*a, **k):
                r = _orig_init(*a, **k)
                try:
                    run_ids.append(str(r.id))
                except Exception:
                    pass
                return r
            _wb.init = _init
            _orig_login = _wb.login

            def _login(*a, **k):
                logins.append({"key_passed": (k.get("key") or (a[1] if len(a) > 1 else None)) == spec["key"]})
                r = _orig_login(*a, **k)
                obs.event("wandb.login")
                return r
            _wb.login = _login
        except Exception as e:      # noqa
            obs.events.append({"kind": "hook-missing", "what": "wandb.init", "err": str(e)})
        res["wandb_run_ids"] = run_ids
        res["wandb_logins"] = logins
        obs.chunk_dirs = [b / d for b in (Path(spec["chunks_dir"]), cwd, out_dir) for d in ("train_chunks", "val_chunks")]
        obs.poll_chunks(silent=True)            # re-used chunks are the initial state, not an event
        res["chunks_at_start"] = sorted(k_ for k_, v_ in obs.chunk_state.items() if v_)
        obs.event("start")
        phase = "init"
        trainer = None
        try:
            trainer = ModelTrainer(cfg)
            obs.event("init_done")
            res["live_after_init"] = to_plain(trainer.config)
            phase = "train"
            trainer.train()
            res["outcome"] = "ok"
        except BaseException as e:  # noqa
            res["outcome"] = "raised"
            res["raised"] = {"phase": phase, "type": type(e).__name__, "msg": str(e)[:400],
                             "tb": traceback.format_exc()[-1500:]}
        obs.event("end")
        try:
            import wandb
            if wandb.run is not None:
                res["wandb_run_left_open"] = True
                wandb.finish()
        except Exception:
            pass
        obs.event("after_wandb_finish")
        if trainer is not None:
            res["live_at_exit"] = to_plain(trainer.config)
            res["dir_path"] = obs.rel(trainer.dir_path)
            res["fw_at_exit"] = str(getattr(trainer, "data_pipeline_fw", None))
        # artifacts at exit
        art = {}
        for name in ("initial_config.yaml", "training_config.yaml"):
            p = out_dir / name
            art[name] = to_plain(OmegaConf.load(p.as_posix())) if p.exists() else None
        res["artifacts"] = art
        res["ckpt_files"] = sorted(obs.rel(p) for p in out_dir.rglob("*.ckpt"))
        chunk_files, chunk_dirs = [], []
        for base in (Path(spec["chunks_dir"]), cwd, out_dir):
            for d in ("train_chunks", "val_chunks"):
                if (base / d).exists():
                    chunk_dirs.append(obs.rel(base / d))
                    chunk_files += [obs.rel(p) for p in (base / d).rglob("*") if p.is_file()]
        res["chunk_files"] = sorted(chunk_files)
        res["chunk_dirs"] = sorted(chunk_dirs)
        res["final_tree_hits"] = obs.scan()
        res["encodings_hit"] = obs.encodings_hit
        # the credential store (outside the output tree): reported, not judged
        home_obs = Observer(home, spec["key"])
        res["home_hits"] = home_obs.scan()
        res["tree_files"] = sorted(obs.rel(Path(dp) / fn) for dp, _, fns in os.walk(root) for fn in fns)[:300]
    except BaseException as e:  # harness-level failure (not a property failure)
        res["harness_error"] = {"type": type(e).__name__, "msg": str(e)[:800], "tb": traceback.format_exc()[-3000:]}
    res["events"] = obs.events
    Path(spec["result"]).write_text(json.dumps(res, default=str))
    sys.stdout.flush()
    os._exit(0)        # never hang on wandb / lightning background threads


if __name__ == "__main__":
    main()
