"""C19 worker: ONE real `ModelTrainer(cfg)` + `.train()` run in a fresh process.

Invoked as  `python -m harness.c19_worker <spec.json>`  (PYTHONPATH = $VERIF_REPO:/verif).
The spec is read from a file (never from argv: wandb records argv in its run
metadata, which would plant the key in the output tree by our own doing).

The run is observed from outside the repo code: `OmegaConf.save`, Lightning's
checkpoint writer, `torch.save` and `shutil.rmtree` are wrapped; after every
wrapped call (= a file-write boundary = a possible crash point) the whole
output tree is scanned for the API key.  Result: JSON written to spec["result"].
"""
from __future__ import annotations

import json
import os
import sys
import traceback
from pathlib import Path

KEY_DEFAULT = "SECRETKEY123"


# --------------------------------------------------------------------------
# configuration construction

def head_dict(model_type: str) -> dict:
    heads = {"single_instance": None, "centroid": None, "centered_instance": None, "bottomup": None}
    if model_type == "single_instance":
        heads["single_instance"] = {"confmaps": {"part_names": None, "sigma": 1.5, "output_stride": 2}}
    elif model_type == "centroid":
        heads["centroid"] = {"confmaps": {"anchor_part": 0, "sigma": 1.5, "output_stride": 2}}
    elif model_type == "centered_instance":
        heads["centered_instance"] = {"confmaps": {"part_names": None, "anchor_part": 0, "sigma": 1.5,
                                                   "output_stride": 2}}
    elif model_type == "bottomup":
        heads["bottomup"] = {
            "confmaps": {"part_names": None, "sigma": 1.5, "output_stride": 2, "loss_weight": 1.0},
            "pafs": {"edges": None, "sigma": 4.0, "output_stride": 4, "loss_weight": 1.0}}
    else:
        raise ValueError(model_type)
    return heads


UNET = {"in_channels": 1, "kernel_size": 3, "filters": 4, "filters_rate": 1.5, "max_stride": 8,
        "convs_per_block": 2, "stacks": 1, "stem_stride": None, "middle_block": True,
        "up_interpolate": True, "output_stride": 2}


def plain_dict(spec: dict) -> dict:
    """The configuration as a plain nested dict (what a user would write in YAML)."""
    return {
        "data_config": {
            "provider": "LabelsReader",
            "train_labels_path": spec["labels"],
            "val_labels_path": spec["labels"],
            "test_file_path": None,
            "user_instances_only": True,
            "data_pipeline_fw": spec["framework"],
            "np_chunks_path": spec["chunks_dir"],
            "litdata_chunks_path": None,
            "use_existing_chunks": False,
            "delete_chunks_after_training": bool(spec["delete_chunks"]),
            "chunk_size": 100,
            "preprocessing": {"is_rgb": False, "max_width": None, "max_height": None, "scale": 0.5,
                              "crop_hw": [64, 64], "min_crop_size": None},
            "use_augmentations_train": False,
            "augmentation_config": None,
        },
        "model_config": {
            "init_weights": "default",
            "pre_trained_weights": None,
            "pretrained_backbone_weights": None,
            "pretrained_head_weights": None,
            "backbone_config": {"unet": dict(UNET), "convnext": None, "swint": None},
            "head_configs": head_dict(spec["model_type"]),
        },
        "trainer_config": {
            "train_data_loader": {"batch_size": 1, "shuffle": False, "num_workers": 0},
            "val_data_loader": {"batch_size": 1, "shuffle": False, "num_workers": 0},
            "model_ckpt": {"save_top_k": 1, "save_last": True},
            "early_stopping": {"stop_training_on_plateau": False, "min_delta": 1e-8, "patience": 20},
            "trainer_devices": 1,
            "trainer_accelerator": "cpu",
            "enable_progress_bar": False,
            "steps_per_epoch": 1,
            "max_epochs": 1,
            "seed": 1000,
            "use_wandb": bool(spec["use_wandb"]),
            "save_ckpt": bool(spec["save_ckpt"]),
            "save_ckpt_path": spec["out_dir"],
            "resume_ckpt_path": None,
            "wandb": {"entity": None, "project": "c19", "name": "c19_run", "wandb_mode": "offline",
                      "api_key": spec["key"], "prv_runid": None, "group": None},
            "optimizer_name": "Adam",
            "optimizer": {"lr": 1e-4, "amsgrad": False},
            "lr_scheduler": {"step_lr": {"step_size": 10, "gamma": 0.5}, "reduce_lr_on_plateau": None},
        },
    }


def build_plain(spec: dict):
    """YAML-loaded plain DictConfig: the dict is dumped to a YAML file (inputs dir,
    outside the scanned output tree) and read back with OmegaConf.load."""
    from omegaconf import OmegaConf
    import yaml
    p = Path(spec["in_dir"]) / "user_config.yaml"
    p.write_text(yaml.safe_dump(plain_dict(spec)))
    return OmegaConf.load(p.as_posix())


def build_structured(spec: dict):
    """Builder-made structured config, the way sleap_nn.train.train() makes it."""
    from sleap_nn.train import get_data_config, get_model_config, get_trainer_config
    from sleap_nn.config.training_job_config import TrainingJobConfig
    d = plain_dict(spec)
    dc, tc = d["data_config"], d["trainer_config"]
    data_config = get_data_config(
        train_labels_path=dc["train_labels_path"], val_labels_path=dc["val_labels_path"],
        data_pipeline_fw=dc["data_pipeline_fw"], np_chunks_path=dc["np_chunks_path"],
        use_existing_chunks=False, delete_chunks_after_training=dc["delete_chunks_after_training"],
        is_rgb=False, scale=0.5, crop_hw=(64, 64), min_crop_size=None, use_augmentations_train=False)
    model_config = get_model_config(
        init_weight="default", pre_trained_weights=None, pretrained_backbone_weights=None,
        pretrained_head_weights=None, backbone_config={"unet": dict(UNET)},
        head_configs={k: v for k, v in d["model_config"]["head_configs"].items() if v is not None})
    trainer_config = get_trainer_config(
        batch_size=1, shuffle_train=False, num_workers=0, ckpt_save_top_k=1, ckpt_save_last=True,
        trainer_num_devices=1, trainer_accelerator="cpu", enable_progress_bar=False, steps_per_epoch=1,
        max_epochs=1, seed=1000, use_wandb=tc["use_wandb"], save_ckpt=tc["save_ckpt"],
        save_ckpt_path=tc["save_ckpt_path"], wandb_project="c19", wandb_name="c19_run",
        wandb_api_key=spec["key"], wandb_mode="offline", optimizer="Adam", learning_rate=1e-4,
        lr_scheduler={"step_lr": {"step_size": 10, "gamma": 0.5}}, early_stopping=False)
    tjc = TrainingJobConfig(data_config=data_config, model_config=model_config, trainer_config=trainer_config)
    return tjc.to_sleap_nn_cfg().copy()


# --------------------------------------------------------------------------
# observation

class Observer:
    def __init__(self, root: Path, key: str):
        self.root, self.key = Path(root), key.encode()
        self.events: list[dict] = []

    def rel(self, p) -> str:
        p = Path(os.path.abspath(str(p)))
        try:
            return p.relative_to(self.root).as_posix()
        except ValueError:
            return "!outside:" + p.as_posix()

    def has_key(self, p: Path) -> bool:
        try:
            return self.key in Path(p).read_bytes()
        except (OSError, IsADirectoryError):
            return False

    def scan(self) -> list[str]:
        hits = []
        for dp, dns, fns in os.walk(self.root):
            for fn in fns:
                p = Path(dp) / fn
                if self.has_key(p):
                    hits.append(self.rel(p))
        return sorted(hits)

    def event(self, kind: str, path=None, **kw):
        ev = {"kind": kind, "file": None if path is None else self.rel(path)}
        if path is not None and kind != "rmtree":
            ev["key_in_file"] = self.has_key(Path(str(path)))
        ev["tree_hits"] = self.scan()
        ev.update(kw)
        self.events.append(ev)


def install_hooks(obs: Observer):
    import shutil
    import torch
    from omegaconf import OmegaConf
    from lightning.fabric.plugins.io.torch_io import TorchCheckpointIO

    orig_save = OmegaConf.save

    def save(config, f, resolve=False):
        r = orig_save(config=config, f=f, resolve=resolve)
        if isinstance(f, (str, os.PathLike)):
            obs.event("omegaconf.save", f)
        return r
    OmegaConf.save = staticmethod(save)

    orig_ck = TorchCheckpointIO.save_checkpoint

    def save_checkpoint(self, checkpoint, path, storage_options=None):
        r = orig_ck(self, checkpoint, path, storage_options)
        cfg = checkpoint.get("config", None) if isinstance(checkpoint, dict) else None
        stored = None
        try:
            if cfg is not None:
                stored = cfg.trainer_config.wandb.api_key
        except Exception:
            stored = "<unreadable>"
        obs.event("ckpt", path, stored_api_key_is_key=(stored == obs.key.decode()),
                  has_config=cfg is not None)
        return r
    TorchCheckpointIO.save_checkpoint = save_checkpoint

    orig_tsave = torch.save

    def tsave(obj, f, *a, **k):
        r = orig_tsave(obj, f, *a, **k)
        if isinstance(f, (str, os.PathLike)):
            obs.event("torch.save", f)
        return r
    torch.save = tsave

    # the run configuration handed to the wandb run (ends up in wandb/<run>/files/config.yaml)
    try:
        from wandb.sdk.wandb_config import Config as WConfig
        orig_update = WConfig.update

        def wupdate(self, d, allow_val_change=None):
            r = orig_update(self, d, allow_val_change)
            try:
                if isinstance(d, dict) and "run_config" in d:
                    obs.event("wandb.config", None,
                              key_in_payload=obs.key.decode() in json.dumps(d, default=str))
            except Exception:
                pass
            return r
        WConfig.update = wupdate
    except Exception as e:      # pragma: no cover
        obs.events.append({"kind": "hook-missing", "what": "wandb Config.update", "err": str(e)})

    orig_rm = shutil.rmtree

    def rmtree(path, *a, **k):
        inside = not obs.rel(path).startswith("!outside:")
        existed = Path(str(path)).exists()
        r = orig_rm(path, *a, **k)
        if inside:
            obs.event("rmtree", path, existed=existed)
        return r
    shutil.rmtree = rmtree


def to_plain(cfg):
    from omegaconf import OmegaConf
    return OmegaConf.to_container(cfg, resolve=True)


def main():
    spec = json.load(open(sys.argv[1]))
    spec.setdefault("key", KEY_DEFAULT)
    root = Path(spec["root"])                 # scanned tree: everything the run may write
    out_dir = Path(spec["out_dir"])           # save_ckpt_path (under root)
    cwd = root / "cwd"
    for d in (root, cwd, Path(spec["in_dir"])):
        d.mkdir(parents=True, exist_ok=True)
    os.chdir(cwd)
    home = root / "home"
    home.mkdir(exist_ok=True)
    os.environ.update({
        "WANDB_MODE": "offline", "WANDB_SILENT": "true", "WANDB_CONSOLE": "off",
        "HOME": home.as_posix(), "WANDB_CONFIG_DIR": (home / "wandb_config").as_posix(),
        "WANDB_CACHE_DIR": (home / "wandb_cache").as_posix(), "WANDB_DATA_DIR": (home / "wandb_data").as_posix(),
        "CUDA_VISIBLE_DEVICES": "", "WANDB_DISABLE_GIT": "true", "WANDB_DISABLE_CODE": "true",
    })
    sys.path.insert(0, str(Path(__file__).resolve().parent.parent))
    from harness import core
    core.impl_env_setup()
    import logging
    logging.getLogger("lightning").setLevel(logging.ERROR)
    logging.getLogger("lightning.pytorch").setLevel(logging.ERROR)
    import warnings
    warnings.filterwarnings("ignore")
    from loguru import logger
    logger.remove()

    res: dict = {"spec": {k: spec[k] for k in ("model_type", "framework", "use_wandb", "save_ckpt",
                                               "structured", "delete_chunks", "inject_fit_fault")
                          if k in spec}}
    obs = Observer(root, spec["key"])
    try:
        cfg = build_structured(spec) if spec["structured"] else build_plain(spec)
        from omegaconf import OmegaConf
        supplied = to_plain(cfg)
        res["supplied_is_structured_wandb_node"] = (
            OmegaConf.get_type(cfg.trainer_config.wandb) is not dict)
        from sleap_nn.config.training_job_config import verify_training_cfg
        res["supplied_verified"] = to_plain(verify_training_cfg(cfg.copy()))
        res["supplied"] = supplied
        install_hooks(obs)
        from sleap_nn.training.model_trainer import ModelTrainer
        import lightning as L
        if spec.get("inject_fit_fault"):
            orig_fit = L.Trainer.fit

            def fit(self, *a, **k):
                orig_fit(self, *a, **k)
                raise RuntimeError("C19 injected fault at the end of Trainer.fit")
            L.Trainer.fit = fit
        # ids of the tracking runs this process opens (the final configuration must record the one it used)
        run_ids = []
        try:
            import wandb as _wb
            _orig_init = _wb.init

            def _init(*a, **k):
                r = _orig_init(*a, **k)
                try:
                    run_ids.append(str(r.id))
                except Exception:
                    pass
                return r
            _wb.init = _init
        except Exception as e:      # noqa
            obs.events.append({"kind": "hook-missing", "what": "wandb.init", "err": str(e)})
        res["wandb_run_ids"] = run_ids
        obs.event("start")
        phase = "init"
        trainer = None
        try:
            trainer = ModelTrainer(cfg)
            obs.event("init_done")
            res["live_after_init"] = to_plain(trainer.config)
            phase = "train"
            trainer.train()
            res["outcome"] = "ok"
        except BaseException as e:  # noqa
            res["outcome"] = "raised"
            res["raised"] = {"phase": phase, "type": type(e).__name__, "msg": str(e)[:400],
                             "tb": traceback.format_exc()[-1500:]}
        obs.event("end")
        try:
            import wandb
            if wandb.run is not None:
                res["wandb_run_left_open"] = True
                wandb.finish()
        except Exception:
            pass
        if trainer is not None:
            res["live_at_exit"] = to_plain(trainer.config)
            res["dir_path"] = obs.rel(trainer.dir_path)
        # artifacts at exit
        art = {}
        for name in ("initial_config.yaml", "training_config.yaml"):
            p = out_dir / name
            art[name] = to_plain(OmegaConf.load(p.as_posix())) if p.exists() else None
        res["artifacts"] = art
        res["ckpt_files"] = sorted(obs.rel(p) for p in out_dir.rglob("*.ckpt"))
        chunks = Path(spec["chunks_dir"])
        res["chunk_files"] = sorted(obs.rel(p) for p in chunks.rglob("*.npz")) if chunks.exists() else []
        res["chunk_dirs"] = [d for d in ("train_chunks", "val_chunks") if (chunks / d).exists()]
        res["final_tree_hits"] = obs.scan()
        res["tree_files"] = sorted(obs.rel(Path(dp) / fn) for dp, _, fns in os.walk(root) for fn in fns
                                   if "/home/" not in (Path(dp) / fn).as_posix() + "/")[:200]
    except BaseException as e:  # harness-level failure (not a property failure)
        res["harness_error"] = {"type": type(e).__name__, "msg": str(e)[:800], "tb": traceback.format_exc()[-3000:]}
    res["events"] = obs.events
    Path(spec["result"]).write_text(json.dumps(res, default=str))
    sys.stdout.flush()
    os._exit(0)        # never hang on wandb / lightning background threads


if __name__ == "__main__":
    main()
