"""Shared by the C06 and C07 checks: generators of confidence-map batches (exact in
float32: integers and dyadic rationals), Coq literals, JSON round trip, and the
brute-force helpers used by the executable oracles (independent of the Coq model).
"""
from __future__ import annotations

import itertools
from fractions import Fraction as F

from . import core

FAMILIES = ["random_int", "random_dyadic", "plateau", "sparse", "border", "negative", "mixed_sign",
            "equal_neighbours", "constant", "bump"]


def gen_map(rng, H, W, family):
    """One H x W map (list of rows of Fractions)."""
    if family == "random_int":
        return [[F(rng.randint(0, 6)) for _ in range(W)] for _ in range(H)]
    if family == "random_dyadic":
        return [[F(rng.randint(0, 32), 8) for _ in range(W)] for _ in range(H)]
    if family == "plateau":                       # few distinct values: many ties
        vals = rng.choice([[0, 1], [0, 1, 1, 2], [1, 2]])
        return [[F(rng.choice(vals)) for _ in range(W)] for _ in range(H)]
    if family == "sparse":                        # isolated spikes on a zero background
        m = [[F(0)] * W for _ in range(H)]
        for _ in range(rng.randint(0, max(1, H * W // 6))):
            m[rng.randrange(H)][rng.randrange(W)] = F(rng.randint(1, 16), 4)
        return m
    if family == "border":                        # maxima on borders / corners
        m = [[F(rng.randint(0, 2)) for _ in range(W)] for _ in range(H)]
        spots = [(0, 0), (0, W - 1), (H - 1, 0), (H - 1, W - 1),
                 (0, rng.randrange(W)), (H - 1, rng.randrange(W)),
                 (rng.randrange(H), 0), (rng.randrange(H), W - 1)]
        for (i, j) in rng.sample(spots, rng.randint(1, 4)):
            m[i][j] = F(rng.randint(3, 5))
        return m
    if family == "negative":
        return [[F(rng.randint(-48, -1), 8) for _ in range(W)] for _ in range(H)]
    if family == "mixed_sign":
        return [[F(rng.randint(-16, 24), 8) for _ in range(W)] for _ in range(H)]
    if family == "equal_neighbours":              # two equal adjacent maxima (no strict maximum)
        m = [[F(rng.randint(0, 1)) for _ in range(W)] for _ in range(H)]
        for _ in range(rng.randint(1, 2)):
            i, j = rng.randrange(H), rng.randrange(W)
            di, dj = rng.choice([(0, 1), (1, 0), (1, 1), (1, -1), (0, 0)])
            v = F(rng.randint(2, 4))
            m[i][j] = v
            if 0 <= i + di < H and 0 <= j + dj < W:
                m[i + di][j + dj] = v
        return m
    if family == "constant":
        v = F(rng.randint(-2, 3))
        return [[v] * W for _ in range(H)]
    if family == "bump":                          # integer-valued unimodal bump(s), centre anywhere
        m = [[F(0)] * W for _ in range(H)]
        for _ in range(rng.randint(1, 2)):
            ci, cj, top = rng.randrange(H), rng.randrange(W), rng.randint(3, 8)
            for i in range(H):
                for j in range(W):
                    m[i][j] = max(m[i][j], F(max(0, top - abs(i - ci) - abs(j - cj)) ** 2, 4))
        return m
    raise ValueError(family)


def gen_shape(rng, big):
    t = rng.random()
    if t < 0.06:
        return 1, 1
    if t < 0.16:
        return 1, rng.randint(2, big)
    if t < 0.26:
        return rng.randint(2, big), 1
    if t < 0.34:
        return 2, 2
    return rng.randint(2, big), rng.randint(2, big)


def gen_batch(rng, big=8, family=None):
    H, W = gen_shape(rng, big)
    B, C = rng.randint(1, 3), rng.randint(1, 3)
    fam = family or rng.choice(FAMILIES)
    mixed = rng.random() < 0.3                    # different families in one batch
    cms = [[gen_map(rng, H, W, rng.choice(FAMILIES) if mixed else fam) for _ in range(C)] for _ in range(B)]
    return cms, fam if not mixed else "mixed_families"


def all_values(cms):
    return [v for smp in cms for m in smp for row in m for v in row]


def gen_threshold(rng, cms):
    vals = sorted(set(all_values(cms)))
    t = rng.random()
    if t < 0.15:
        return vals[0] - 1                        # below every value
    if t < 0.25:
        return vals[-1] + 1                       # above every value
    if t < 0.55:
        return rng.choice(vals)                   # exactly at a value present in the batch
    if t < 0.65:
        return vals[-1]                           # exactly at the maximum
    if t < 0.8 and len(vals) > 1:
        k = rng.randrange(len(vals) - 1)
        return (vals[k] + vals[k + 1]) / 2        # strictly between two values
    return F(rng.randint(-8, 24), 8)


# ---- the threshold as the code compares it ---------------------------------------
NP_DTYPE = {"float32": "float32", "float16": "float16", "float64": "float64"}
EDGE_THRESHOLDS = [F(1, 10), F(1, 5), F(3, 10), F(7, 10)]      # not representable in any binary float format


def thr_in_dtype(thr, dtype="float32"):
    """`cms > threshold` / `max_values < threshold` with a Python float against a float32 / float16 / float64
    tensor is evaluated IN THE TENSOR'S DTYPE: the Python float float(thr) is first rounded to that dtype
    (float32(0.2) = 0.2000000030 > 0.2, float16(0.2) = 0.19995 < 0.2).  The Coq models, their theorems and
    the oracles read "the threshold" as this rounded number (an exact rational); for thresholds that are
    representable in the dtype (all dyadic k/8 ones) it is the number the caller wrote."""
    import numpy as np
    return F(float(getattr(np, NP_DTYPE[dtype])(float(thr))))


def dtype_neighbours(q, dtype):
    """(previous, next) representable numbers of the dtype around the representable q."""
    import numpy as np
    t = getattr(np, NP_DTYPE[dtype])
    v = t(float(q))
    assert F(float(v)) == q, (q, dtype)
    return F(float(np.nextafter(v, t(-4)))), F(float(np.nextafter(v, t(4))))


def gen_thr_edge(rng, dtype=None, big=6):
    """A batch for a NON-DYADIC threshold (0.1, 0.2, 0.3, 0.7): isolated spikes (stride-2 positions, so each is a
    strict local maximum) whose values are exactly dtype(thr), its predecessor or its successor in the map's
    dtype, on a background of 0 and 1/16.  Returns (cms, thr, dtype); thr is the exact fraction whose float()
    the caller passes."""
    dtype = dtype or rng.choice(["float32", "float32", "float16", "float64"])
    thr = rng.choice(EDGE_THRESHOLDS)
    t = thr_in_dtype(thr, dtype)
    dn, up = dtype_neighbours(t, dtype)
    H, W = rng.randint(2, big), rng.randint(2, big)
    B, C = rng.randint(1, 2), rng.randint(1, 3)
    cms = []
    for _ in range(B):
        smp = []
        for _ in range(C):
            m = [[F(rng.choice([0, 0, 0, 1]), 16) for _ in range(W)] for _ in range(H)]
            spots = [(i, j) for i in range(0, H, 2) for j in range(0, W, 2)]
            for (i, j) in rng.sample(spots, rng.randint(1, min(3, len(spots)))):
                m[i][j] = rng.choice([t, t, dn, up])
            if rng.random() < 0.4:           # the channel maximum is exactly dtype(thr)
                m = [[min(v, t) for v in row] for row in m]
                i, j = rng.choice(spots)
                m[i][j] = t
            smp.append(m)
        cms.append(smp)
    return cms, thr, dtype


# ---- Coq literals -----------------------------------------------------------
def cmap_lit(m):
    return core.clist(m, lambda row: core.clist(row, core.cq))


def cms_lit(cms):
    return core.clist(cms, lambda smp: core.clist(smp, cmap_lit))


# ---- JSON -------------------------------------------------------------------
def cms_json(cms):
    return [[[[str(v) for v in row] for row in m] for m in smp] for smp in cms]


def cms_from_json(j):
    return [[[[F(v) for v in row] for row in m] for m in smp] for smp in j]


# ---- brute force (the property's own words) ----------------------------------
def strict_local_maxima(m, thr):
    """[(x, y, v)] cells above thr and strictly greater than every in-bounds
    8-neighbour, scanned row-major."""
    H, W = len(m), len(m[0])
    out = []
    for y in range(H):
        for x in range(W):
            v = m[y][x]
            if not v > thr:
                continue
            ok = True
            for dy in (-1, 0, 1):
                for dx in (-1, 0, 1):
                    if (dy or dx) and 0 <= y + dy < H and 0 <= x + dx < W and not m[y + dy][x + dx] < v:
                        ok = False
            if ok:
                out.append((x, y, v))
    return out


def patch_values(m, x, y, r):
    """The (2r+1)^2 window around (x, y), 0 outside the map (exact)."""
    H, W = len(m), len(m[0])
    return [[m[y + dy][x + dx] if 0 <= y + dy < H and 0 <= x + dx < W else F(0)
             for dx in range(-r, r + 1)] for dy in range(-r, r + 1)]


def selector_F9(m, x, y, r):
    """Finding F9: the refinement window holds a negative value or the peak value is <= 0."""
    P = patch_values(m, x, y, r)
    return any(v < 0 for row in P for v in row) or not m[y][x] > 0


def patch_sticks_out(m, x, y, p):
    """Finding F25 (C07): the p x p refinement patch around cell (x, y) reads a cell that does not exist
    (some cell within radius p // 2 lies outside the map; crop_bboxes pads it with 0)."""
    r = p // 2
    return x < r or y < r or x + r >= len(m[0]) or y + r >= len(m)


def in_map_symmetric(m, x, y, r):
    """The map is point-symmetric about cell (x, y) as far as the map goes: two cells OF THE MAP within radius r
    that are mirror images about (x, y) hold the same value (Border.in_map_symmetric)."""
    H, W = len(m), len(m[0])
    for dy in range(-r, r + 1):
        for dx in range(-r, r + 1):
            if 0 <= y + dy < H and 0 <= x + dx < W and 0 <= y - dy < H and 0 <= x - dx < W \
                    and m[y + dy][x + dx] != m[y - dy][x - dx]:
                return False
    return True


def radially_symmetric(m, x, y, r):
    """A genuine symmetric bump about cell (x, y), as far as the map goes: cells OF THE MAP within radius r at the
    same Euclidean distance from (x, y) hold the same value (implies in_map_symmetric; not trivially true at a
    corner: (x+1, y) and (x, y+1) must agree)."""
    H, W = len(m), len(m[0])
    seen = {}
    for dy in range(-r, r + 1):
        for dx in range(-r, r + 1):
            if 0 <= y + dy < H and 0 <= x + dx < W:
                if seen.setdefault(dy * dy + dx * dx, m[y + dy][x + dx]) != m[y + dy][x + dx]:
                    return False
    return True


def patch_condition(m, x, y, r):
    """(sum, sum of |.|) of the window: used only to scale the float tolerance."""
    P = patch_values(m, x, y, r)
    return sum(v for row in P for v in row), sum(abs(v) for row in P for v in row)


def patch_values_p(m, x, y, p):
    """The p x p values integral regression sees for integral_patch_size p (exact): the
    integer-centred window for odd p; for even p the bilinear samples at half-pixel
    positions = mean of the 2x2 cells around each sample, 0 outside the map."""
    if p % 2:
        return patch_values(m, x, y, p // 2)
    H, W, h = len(m), len(m[0]), p // 2
    c = lambda i, j: m[i][j] if 0 <= i < H and 0 <= j < W else F(0)
    return [[(c(y + i - 1, x + j - 1) + c(y + i - 1, x + j) + c(y + i, x + j - 1) + c(y + i, x + j)) / 4
             for j in range(-h + 1, h + 1)] for i in range(-h + 1, h + 1)]


def patch_condition_p(m, x, y, p):
    """(sum, sum of |.|) of the sampled p x p patch: used only to scale the float tolerance."""
    P = patch_values_p(m, x, y, p)
    return sum(v for row in P for v in row), sum(abs(v) for row in P for v in row)


def gen_patch_size(rng):
    """integral_patch_size: odd and even sizes alike (p >= 2; see notes/C06.md for p = 1)."""
    return rng.choice([2, 3, 3, 4, 5, 5, 6, 7])


DTYPES = ["float32"] * 8 + ["float64", "float16"]


def gen_dtype(rng, cms=None, refine=False):
    """Input dtype: mostly float32; float64 and float16 are accepted by every function here
    (generated values are k/8 or k/4 with |v| <= 16: exact in float16 too).  One exception,
    kept out of the stream and logged as an observation by the checks: float16 maps with a
    singleton axis (H = 1 or W = 1) make kornia's crop_and_resize raise (its normalisation
    epsilon 1e-14 is 0 in float16), so integral refinement of such maps is float32/float64 only."""
    dt = rng.choice(DTYPES)
    if dt == "float16" and refine and cms is not None and (len(cms[0][0]) == 1 or len(cms[0][0][0]) == 1):
        dt = "float64"
    return dt


def tol_scale(dtype):
    """Refined coordinates: float16 crops carry 2^-11 relative error (and float16 sums)."""
    return 400.0 if dtype == "float16" else 1.0


def with_nans(rng, cms):
    """A copy of the batch (as nested float lists) with 1..3 NaN cells; returns (floats, cells)."""
    fl = [[[[float(v) for v in row] for row in m] for m in smp] for smp in cms]
    B, C, H, W = len(cms), len(cms[0]), len(cms[0][0]), len(cms[0][0][0])
    cells = set()
    for _ in range(rng.randint(1, 3)):
        cells.add((rng.randrange(B), rng.randrange(C), rng.randrange(H), rng.randrange(W)))
    for (s, c, y, x) in cells:
        fl[s][c][y][x] = float("nan")
    return fl, sorted(cells)


def strict_local_maxima_ieee(m, thr):
    """As strict_local_maxima, on a float map that may hold NaN, with IEEE comparisons: a
    cell is reported iff v > thr and v > w for every in-bounds neighbour w (both false when
    either side is NaN)."""
    H, W = len(m), len(m[0])
    out = []
    for y in range(H):
        for x in range(W):
            v = m[y][x]
            if not v > thr:
                continue
            if all(v > m[y + dy][x + dx] for dy in (-1, 0, 1) for dx in (-1, 0, 1)
                   if (dy or dx) and 0 <= y + dy < H and 0 <= x + dx < W):
                out.append((x, y, v))
    return out


def all_3x3_maps(values=(0, 1, 2)):
    for t in itertools.product(values, repeat=9):
        yield [[F(t[0]), F(t[1]), F(t[2])], [F(t[3]), F(t[4]), F(t[5])], [F(t[6]), F(t[7]), F(t[8])]]


def to_tensor(cms, torch, dtype="float32"):
    return torch.tensor([[[[float(v) for v in row] for row in m] for m in smp] for smp in cms],
                        dtype=getattr(torch, dtype))
