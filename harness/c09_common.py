"""Shared by the C09 and C10 checks: running the real Tracker on a history with
duck-typed instances while recording what the Coq model takes as input (the
score matrix returned by `Tracker.get_scores` and the answer of the matching
function), building Coq terms, detecting which of the F4 defects the code under
test has, and the step-local selectors of those findings."""
from __future__ import annotations

import itertools
import json
import math
import warnings
from fractions import Fraction

from . import core

PREAMBLE = ("From SV Require Import C09.Tracker C09.RenderT.\n"
            "From Coq Require Import List ZArith QArith.\nImport ListNotations.\n"
            "Close Scope Q_scope. Open Scope nat_scope.\n"
            "Definition q (n : Z) (d : positive) : Q := Qmake n d.\n")

FEATURES = [("keypoints", "oks"), ("centroids", "euclidean_dist"), ("bboxes", "iou")]
# further feature/score pairs whose shapes fit (a pair like keypoints+iou fails inside the scoring function: outside)
FEATURES_X = FEATURES + [("keypoints", "euclidean_dist"), ("bboxes", "euclidean_dist"), ("centroids", "cosine_sim"),
                         ("bboxes", "cosine_sim")]
SEL_I, SEL_II, SEL_III = "match_only_index_zero", "lq_unmatched_detection", "stale_track_no_candidate"
SEL_CAP, SEL_IV = "max_tracks_exceeded", "no_pair_all_scores_nan"
XPREAMBLE = ("From SV Require Import C09.Tracker C09.TrackerX C09.RenderT.\n"
             "From Coq Require Import List ZArith QArith.\nImport ListNotations.\n"
             "Close Scope Q_scope. Open Scope nat_scope.\n"
             "Definition q (n : Z) (d : positive) : Q := Qmake n d.\n")
VALID = {"features": ("keypoints", "centroids", "bboxes"),
         "scoring": ("oks", "iou", "cosine_sim", "euclidean_dist"),
         "reduction": ("mean", "max"), "matching": ("hungarian", "greedy")}
IMG = 160                                  # side of the synthetic frames given to FlowShiftTracker


# ---------------------------------------------------------------------------
# duck-typed instance: all the tracker touches is .numpy(), .score, .track, .tracking_score

class Inst:
    __slots__ = ("pts", "score", "track", "tracking_score", "uid", "animal")

    def __init__(self, pts, score, uid, animal=None):
        import numpy as np
        self.pts = np.array(pts, dtype=float)
        self.score = float(score)
        self.track = None
        self.tracking_score = None
        self.uid = uid
        self.animal = animal

    def numpy(self):
        return self.pts


SHAPE = [(0, 0), (4, 1), (1, 5)]          # three keypoints, non-degenerate bounding box
SHAPES = {"tri": SHAPE,
          "hline": [(0, 0), (4, 0)],      # two keypoints on one row: zero-height bounding box
          "vline": [(0, 0), (0, 5)]}      # two keypoints in one column: zero-width bounding box


def make_inst(d):
    """d = {uid, x, y, score, animal} with x, y Fractions/ints (dyadic)."""
    x, y = float(Fraction(d["x"])), float(Fraction(d["y"]))
    k = d.get("size", 1)
    pts = [[x + k * dx, y + k * dy] for dx, dy in SHAPES[d.get("shape", "tri")]]
    for j in d.get("nan", ()):             # missing keypoints (NaN), by index
        if j < len(pts):
            pts[j] = [float("nan"), float("nan")]
    return Inst(pts, float(Fraction(d["score"])), d["uid"], d.get("animal"))


def red_name(cfg):
    return cfg.get("red_name") or ("max" if cfg["red_max"] else "mean")


def match_name(cfg):
    return cfg.get("match_name") or ("greedy" if cfg["greedy"] else "hungarian")


def names_ok(cfg):
    return (cfg["features"] in VALID["features"], cfg["scoring"] in VALID["scoring"],
            red_name(cfg) in VALID["reduction"], match_name(cfg) in VALID["matching"])


IMG_MODES = ("hw", "hw1", "hw3", "float", "1hw1")     # what sio frames look like (H,W,C uint8) and the branches of
                                                      # FlowShiftTracker._preprocess_imgs (float -> uint8, 4-D squeeze)


def image_as(g, mode):
    np = impl()["np"]
    return {"hw": g, "hw1": g[:, :, None], "hw3": np.repeat(g[:, :, None], 3, axis=2),
            "float": g.astype("float32"), "1hw1": g[None, :, :, None]}[mode or "hw"]


def frame_image(fr, blank=False):
    """Synthetic uint8 frame for the optical-flow tracker: a Gaussian blob at every (finite, in-frame) keypoint
    on a faint fixed texture; `blank` = a uniform frame (Lucas-Kanade then finds no point)."""
    np = impl()["np"]
    if blank:
        return np.zeros((IMG, IMG), dtype=np.uint8)
    yy, xx = np.mgrid[0:IMG, 0:IMG]
    im = (8 + 6 * np.sin(xx / 5.0) * np.cos(yy / 7.0))
    for d in fr:
        for (x, y) in make_inst(d).pts:
            if x == x and y == y and -8 <= x < IMG + 8 and -8 <= y < IMG + 8:
                im = np.maximum(im, 255 * np.exp(-((xx - x) ** 2 + (yy - y) ** 2) / 18.0))
    return im.astype(np.uint8)


# ---------------------------------------------------------------------------
# the implementation, with recording

_impl = {}


def impl():
    if not _impl:
        core.impl_env_setup()
        import numpy as np
        from sleap_nn.tracking.tracker import Tracker

        class RecTracker(Tracker):            # plain subclass of the attrs class: same code, plus a log
            def get_scores(self, current_instances, candidates_feature_dict):
                try:
                    s = super().get_scores(current_instances, candidates_feature_dict)
                except Exception as e:
                    self.rec["scores_error"] = type(e).__name__
                    raise
                self.rec["scores"] = np.array(s, dtype=float).copy()
                return s

        from sleap_nn.tracking.tracker import FlowShiftTracker
        from loguru import logger
        logger.disable("sleap_nn.tracking")      # the modules log every deliberate exception at ERROR level

        def rec_candidates(self, d):
            cur = self.candidate.current_tracks
            self.rec["cands"] = [[x.src_predicted_instance.uid for x in d[t]] if t in d else [] for t in cur]
            # the features handed to the scoring function, per track (C10: geometry tie for bboxes + iou)
            self.rec["cand_feats"] = [[np.array(x.feature, dtype=float).copy() for x in d[t]] if t in d else []
                                      for t in cur]

        class RecTrackerC(RecTracker):
            def update_candidates(self, candidates_list, image):
                d = super().update_candidates(candidates_list, image)
                rec_candidates(self, d)
                return d

        class RecFlow(FlowShiftTracker):
            def update_candidates(self, candidates_list, image):
                d = FlowShiftTracker.update_candidates(self, candidates_list, image)
                rec_candidates(self, d)
                return d

        def _gs(self, current_instances, candidates_feature_dict):
            try:
                s = FlowShiftTracker.get_scores(self, current_instances, candidates_feature_dict)
            except Exception as e:
                self.rec["scores_error"] = type(e).__name__
                raise
            self.rec["scores"] = np.array(s, dtype=float).copy()
            return s
        RecFlow.get_scores = _gs

        _impl.update(np=np, Tracker=Tracker, RecTracker=RecTrackerC, RecFlow=RecFlow, FlowShiftTracker=FlowShiftTracker)
    return _impl


def new_tracker(cfg, reset_track_objects=True):
    """The tracker under test.  IDEALISATION (named in notes/C09.md): `Tracker._track_objects` is a class-level attrs
    default `{}`, i.e. ONE dict shared by every tracker of the process (a second tracker hands out the first one's
    `sio.Track` objects); by default each generated history gets a tracker with a dict of its own.
    `reset_track_objects=False` leaves the shared dict in place (see `run_impl_interleaved`)."""
    im = impl()
    feat, scoring = cfg["features"], cfg["scoring"]
    t = im["RecTracker"].from_config(
        window_size=cfg["window"], instance_score_threshold=float(Fraction(cfg["threshold"])),
        candidates_method="local_queues" if cfg["lq"] else "fixed_window",
        features=feat, scoring_method=scoring, scoring_reduction=red_name(cfg),
        track_matching_method=match_name(cfg), max_tracks=cfg.get("max_tracks"), use_flow=bool(cfg.get("flow")),
        of_img_scale=float(cfg.get("img_scale", 1.0)))
    if cfg.get("flow"):
        # from_config returns a FlowShiftTracker proper; re-wrap its fields in the recording subclass
        import attrs
        assert type(t) is im["FlowShiftTracker"]
        t = im["RecFlow"](**{a.name.lstrip("_"): getattr(t, a.name) for a in attrs.fields(type(t)) if a.init})
    t.rec = {}
    orig = dict(t._track_matching_methods)

    def wrap(fn):
        def inner(cost):
            try:
                r, c = fn(cost)
            except Exception as e:
                t.rec["answer_error"] = type(e).__name__
                raise
            t.rec["answer"] = [(int(a), int(b)) for a, b in zip(r, c)]
            return r, c
        return inner
    t._track_matching_methods = {k: wrap(v) for k, v in orig.items()}
    if reset_track_objects:
        t._track_objects = {}                  # the class-level default dict is shared between trackers
    return t


def stale_tracks(t, cfg):
    """Observed directly on the real object: current tracks without any candidate in the queue."""
    cand = t.candidate
    out = []
    for tid in cand.current_tracks:
        if cfg["lq"]:
            has = len(cand.tracker_queue[tid]) > 0 if tid in cand.tracker_queue else False
        else:
            has = any(tid in ti.track_ids for ti in cand.tracker_queue)
        if not has:
            out.append(tid)
    return out


def _track_frame(t, cfg, fi, fr):
    """one call of t.track on frame `fr` (list of detection dicts), with everything recorded"""
    insts = [make_inst(d) for d in fr]
    t.rec.clear()
    rec = {"n_tracks_before": len(t.candidate.current_tracks), "stale": stale_tracks(t, cfg), "insts": insts}
    with warnings.catch_warnings():
        warnings.simplefilter("ignore")
        image = (image_as(frame_image(fr, blank=fi in cfg.get("blank", ())), cfg.get("img_mode"))
                 if cfg.get("flow") else None)
        try:
            res = t.track(insts, fi, image)
            rec["out"] = res
        except Exception as e:
            rec["raises"] = type(e).__name__
            rec["msg"] = str(e)[:120]
    rec.update(t.rec)
    rec["n_tracks_after"] = len(t.candidate.current_tracks)
    return rec


def run_impl(cfg, hist):
    """hist: list of frames, frame = list of detection dicts.  Returns a list of
    per-frame records {out | raises, scores, answer, ...}; stops after an exception."""
    impl()
    t = new_tracker(cfg)
    recs = []
    for fi, fr in enumerate(hist):
        rec = _track_frame(t, cfg, fi, fr)
        recs.append(rec)
        if "raises" in rec:
            break
    return recs


def run_impl_interleaved(cases):
    """Several trackers alive in ONE process, `Tracker._track_objects` left as the code has it (class-level dict, shared),
    their histories advanced frame by frame in turn.  Returns (list of recs per case, facts about the sharing)."""
    impl()
    ts = [new_tracker(cfg, reset_track_objects=False) for cfg, _ in cases]
    recs = [[] for _ in cases]
    dead = set()
    for fi in range(max(len(h) for _, h in cases)):
        for k, (cfg, hist) in enumerate(cases):
            if k in dead or fi >= len(hist):
                continue
            rec = _track_frame(ts[k], cfg, fi, hist[fi])
            recs[k].append(rec)
            if "raises" in rec:
                dead.add(k)
    tracks = [{id(i.track): i.track for r in rs for i in r.get("out", []) if i.track is not None} for rs in recs]
    shared_objs = sum(1 for a in range(len(tracks)) for b in range(a + 1, len(tracks)) if set(tracks[a]) & set(tracks[b]))
    facts = {"dict_is_shared": all(t._track_objects is ts[0]._track_objects for t in ts),
             "tracker_pairs_sharing_a_Track_object": shared_objs}
    return recs, facts


def out_pairs(rec):
    """[(uid, track|None)] in returned order, or {"raises": kind}."""
    if "raises" in rec:
        return {"raises": rec["raises"]}
    return [[i.uid, None if i.track is None else int(i.track.name)] for i in rec["out"]]


# ---------------------------------------------------------------------------
# Coq terms

def cqz(x) -> str:
    f = Fraction(x)
    n = f"({f.numerator})" if f.numerator < 0 else str(f.numerator)
    return f"(q {n} {f.denominator})"


def cscore(v) -> str:
    if v is None or (isinstance(v, float) and math.isnan(v)):
        return "None"
    if isinstance(v, float) and math.isinf(v):
        raise ValueError("infinite score")
    return "(Some " + cqz(v) + ")"


def cmatrix(M) -> str:
    if M is None:
        return "[]"
    return "[" + "; ".join("[" + "; ".join(cscore(float(v)) for v in row) + "]" for row in M) + "]"


def canswer(rec) -> str:
    if "answer" in rec:
        return "(APairs [" + "; ".join(f"({r},{c})" for r, c in rec["answer"]) + "])"
    return "AFail"


def cconfig(cfg, fixes) -> str:
    # fix_iii of the model is read only by `scores_raise` when the model is EVALUATED (the matcher's answer / failure is a
    # recorded input), hence `iii_scores`; the theorems' Hungarian contract uses the same switch, and the checks record
    # whether the two F4iii repairs agree on the code under test (`coverage.code_behaviour`)
    fi = fixes["i_lq"] if cfg["lq"] else fixes["i_fw"]
    return "(mkConfig %s %s %d %s %s %s %s)" % (
        core.cbool(cfg["lq"]), core.cbool(cfg["greedy"]), cfg["window"], core.cbool(cfg["red_max"]),
        core.cbool(fi), core.cbool(fixes["ii"]), core.cbool(fixes["iii_scores"]))


def cxconfig(cfg, fixes) -> str:
    mt = cfg.get("max_tracks")
    ok = names_ok(cfg)
    return "(mkX %s %s %s %s %s %s %s %s)" % (
        cconfig(cfg, fixes), "None" if mt is None else f"(Some {int(mt)})", core.cbool(fixes.get("cap", False)),
        core.cbool(fixes.get("iv", False)), *[core.cbool(b) for b in ok])


def xcase_term(cfg, hist, recs, fixes) -> str:
    return f"(xrun_case {cxconfig(cfg, fixes)} {frames_term(cfg, hist, recs)})"


def cframe(fr, rec, threshold) -> str:
    thr = Fraction(threshold)
    dets = "[" + "; ".join(f"({d['uid']},{core.cbool(Fraction(d['score']) > thr)})" for d in fr) + "]"
    return f"({dets}, {cmatrix(rec.get('scores'))}, {canswer(rec)})"


def case_term(cfg, hist, recs, fixes) -> str:
    frames = [cframe(fr, rec, cfg["threshold"]) for fr, rec in zip(hist, recs)]
    return f"(CaseRun {cconfig(cfg, fixes)} [" + ";\n ".join(frames) + "])"


def frames_term(cfg, hist, recs) -> str:
    return "[" + ";\n ".join(cframe(fr, rec, cfg["threshold"]) for fr, rec in zip(hist, recs)) + "]"


# ---------------------------------------------------------------------------
# the Hungarian contract, checked on every recorded answer (sizes are small)

def matching_valid(n, m, p):
    rows, cols = [r for r, _ in p], [c for _, c in p]
    return (len(set(rows)) == len(rows) and len(set(cols)) == len(cols)
            and all(0 <= r < n for r in rows) and all(0 <= c < m for c in cols))


def best_total(M, n, m, fixed_iii):
    """Brute force on float costs: (cardinality, minimal total cost) of the optimum the contract
    demands, or None when infeasible (unrepaired contract)."""
    k = min(n, m)
    cost = [[math.inf if math.isnan(M[r][c]) else -M[r][c] for c in range(m)] for r in range(n)]
    best = None
    if n <= m:
        cand = ([(r, cs[r]) for r in range(n)] for cs in itertools.permutations(range(m), n))
    else:
        cand = ([(rs[c], c) for c in range(m)] for rs in itertools.permutations(range(n), m))
    for p in cand:
        fin = [cost[r][c] for r, c in p if math.isfinite(cost[r][c])]
        if not fixed_iii and len(fin) < k:
            continue
        key = (-len(fin), sum(fin))
        if best is None or key < best:
            best = key
    return best


def hungarian_contract(M, n, m, rec, fixed_iii):
    """None if the recorded answer satisfies the contract the theorems assume, else a reason."""
    best = best_total(M, n, m, fixed_iii)
    if "answer" not in rec:
        if fixed_iii:
            return "matcher raised although repaired"
        return None if best is None else "matcher failed on a feasible matrix"
    p = rec["answer"]
    if best is None:
        return "matcher answered on an infeasible matrix"
    if not matching_valid(n, m, p):
        return "answer is not a one-to-one assignment inside the matrix"
    vals = [(-M[r][c]) for r, c in p]
    if any(math.isnan(v) for v in vals):
        return "answer uses a NaN cell"
    if len(p) != -best[0]:
        return f"cardinality {len(p)} != {-best[0]}"
    tot = sum(vals)
    if abs(tot - best[1]) > 1e-9 * (1 + abs(best[1])):
        return f"total cost {tot} is not the optimum {best[1]}"
    return None


# ---------------------------------------------------------------------------
# which behaviour does the code under test have?  (run the witness histories)

def D(uid, x, y, score=1, animal=None):
    return {"uid": uid, "x": x, "y": y, "score": score, "animal": animal if animal is not None else uid % 10}


BASE = {"window": 3, "threshold": 0, "features": "keypoints", "scoring": "oks", "red_max": False,
        "lq": False, "greedy": False}

WITNESS = {
    # one animal seen in three frames: frames 1, 2 match row 0 <-> track 0
    "one_animal": [[D(10, 0, 0)], [D(20, 1, 0)], [D(30, 2, 0)]],
    # two animals, then a third one appears
    "third_appears": [[D(10, 0, 0), D(11, 100, 0)], [D(20, 1, 0), D(21, 101, 0), D(22, 0, 100)]],
    # three animals, window 1; the first is away for one frame (its track has no candidate left), then all three
    "stale_track": [[D(10, 0, 0), D(11, 100, 0), D(12, 0, 100)], [D(21, 101, 0), D(22, 1, 100)],
                    [D(30, 2, 0), D(31, 102, 0), D(32, 2, 100)]],
}


def witness_case(name):
    if name == "max_tracks_exceeded":
        # local queues, max_tracks = 1, three animals in the first frame
        return dict(BASE, lq=True, max_tracks=1), [[D(10, 0, 0), D(11, 100, 0), D(12, 0, 100)]]
    if name in ("flow_all_nan_fw", "flow_all_nan_lq"):
        # optical-flow tracker on centroids, window 1: the frames 1, 2 are uniform, Lucas-Kanade finds none of the
        # candidate's points in frame 2, every score is NaN, the Hungarian matcher returns no pair
        return (dict(BASE, lq=name.endswith("lq"), window=1, features="centroids", scoring="euclidean_dist", flow=True,
                     blank=[1, 2]),
                [[D(10, 40, 40), D(11, 100, 90)], [D(20, 42, 41), D(21, 99, 92)], [D(30, 44, 42), D(31, 98, 94)]])
    if name == "nan_instance_fw":
        # no optical flow: the second frame's only detection has no visible keypoint, its centroid is NaN, the 1 x 1
        # score matrix is NaN, the Hungarian matcher returns no pair
        return (dict(BASE, features="centroids", scoring="euclidean_dist"),
                [[D(10, 0, 0)], [dict(D(20, 1, 0), nan=[0, 1, 2])]])
    if name == "one_animal_fw":
        return dict(BASE), WITNESS["one_animal"]
    if name == "one_animal_lq":
        return dict(BASE, lq=True), WITNESS["one_animal"]
    if name == "third_appears_local_queue":
        return dict(BASE, lq=True), WITNESS["third_appears"]
    if name == "stale_track_hungarian":
        return dict(BASE, window=1), WITNESS["stale_track"]
    if name == "stale_track_max":
        return dict(BASE, window=1, red_max=True, greedy=True), WITNESS["stale_track"]
    raise KeyError(name)


def complete(fr, rec, threshold):
    """the frame's completeness clause on the implementation's output"""
    if "raises" in rec:
        return False
    thr = Fraction(threshold)
    got = {}
    for i in rec["out"]:
        got.setdefault(i.uid, []).append(i.track)
    return all(len(got.get(d["uid"], [])) == 1 and got[d["uid"]][0] is not None
               for d in fr if Fraction(d["score"]) > thr)


def detect_fixes():
    """Returns ({i_fw, i_lq, ii, iii_scores, iii_hungarian} -> bool, details)."""
    res, details = {}, {}

    def go(name):
        cfg, hist = witness_case(name)
        recs = run_impl(cfg, hist)
        details[name] = [out_pairs(r) for r in recs]
        return cfg, hist, recs

    for key, name in (("i_fw", "one_animal_fw"), ("i_lq", "one_animal_lq")):
        cfg, hist, recs = go(name)
        res[key] = len(recs) == 3 and all(complete(fr, r, 0) for fr, r in zip(hist, recs))
    cfg, hist, recs = go("third_appears_local_queue")
    res["ii"] = not any(r.get("raises") == "TypeError" for r in recs)
    cfg, hist, recs = go("stale_track_hungarian")
    res["iii_hungarian"] = not any("raises" in r for r in recs)
    cfg, hist, recs = go("stale_track_max")
    res["iii_scores"] = not any("raises" in r for r in recs)
    cfg, hist, recs = go("max_tracks_exceeded")
    res["cap"] = not any("raises" in r for r in recs)
    # F4iv: a witness only speaks if it really produces a non-empty all-NaN score matrix on the code under test; the
    # code counts as repaired if on such a call every above-threshold detection still gets a track
    np = impl()["np"]
    verdicts = []
    for name in ("flow_all_nan_fw", "nan_instance_fw"):
        cfg, hist, recs = go(name)
        for fr, r in zip(hist, recs):
            if "scores" in r and r["scores"].size > 0 and np.isnan(r["scores"]).all() and r.get("answer") == []:
                verdicts.append(frame_oracle(fr, r, 0, cfg, {"cap": res["cap"]}) is None)
    res["iv"] = bool(verdicts) and all(verdicts)
    res["iv_witness_all_nan"] = len(verdicts)
    return res, details


# ---------------------------------------------------------------------------
# step-local selectors of F4 (computed from what was observed on the implementation)

def selector_of(cfg, fr, rec, fixes):
    """Name of the known-finding selector a FAILING frame falls under, or None.  A selector is only
    offered while the code under test still shows that defect on its witness history."""
    p = rec.get("answer")
    if (rec.get("raises") == "Exception" and "Exceeding max tracks" in rec.get("msg", "") and cfg["lq"]
            and cfg.get("max_tracks") is not None and not fixes.get("cap", False)):
        # the call needs more new tracks than max_tracks leaves room for (ids 0..max_tracks are handed out)
        thr = Fraction(cfg["threshold"])
        matched = {r for r, _ in p} if p else set()
        need = sum(1 for i, d in enumerate(fr) if Fraction(d["score"]) > thr and i not in matched)
        if need > 0 and rec["n_tracks_before"] + need > cfg["max_tracks"] + 1:
            return SEL_CAP
    if ("raises" not in rec and p == [] and not fixes.get("iv", False) and "scores" in rec
            and rec["scores"].size > 0 and impl()["np"].isnan(rec["scores"]).all()):
        return SEL_IV
    if rec.get("raises") == "TypeError" and cfg["lq"] and not fixes["ii"] and p is not None:
        if set(range(len(fr))) - {r for r, _ in p}:
            return SEL_II
    if rec.get("raises") == "ValueError" and rec.get("stale"):
        if "scores_error" in rec and not fixes["iii_scores"]:
            return SEL_III
        if "answer_error" in rec and not cfg["greedy"] and not fixes["iii_hungarian"]:
            return SEL_III
    if "raises" not in rec and p:
        fixed = fixes["i_lq"] if cfg["lq"] else fixes["i_fw"]
        if not fixed and not (any(r for r, _ in p) and any(c for _, c in p)):
            return SEL_I
    return None


def frame_oracle(fr, rec, threshold, cfg=None, fixes=None):
    """C09's statement on one frame of the implementation's output; None or a reason.
    With the max_tracks repair in the code under test (fixes['cap']) a detection may be returned WITHOUT a track when
    local queues are used and max_tracks tracks already exist after the call (decision recorded in notes/C09.md)."""
    cap_full = bool(cfg and fixes and fixes.get("cap") and cfg.get("lq") and cfg.get("max_tracks") is not None
                    and rec.get("n_tracks_after", 0) >= cfg["max_tracks"])
    if "raises" in rec:
        return f"raises {rec['raises']}: {rec.get('msg', '')}"
    thr = Fraction(threshold)
    ids_in = {id(i) for i in rec["insts"]}
    seen = set()
    for i in rec["out"]:
        if id(i) not in ids_in:
            return "returned an instance it was not given"
        if id(i) in seen:
            return f"detection {i.uid} returned twice"
        seen.add(id(i))
    tr = [int(i.track.name) for i in rec["out"] if i.track is not None]
    if len(set(tr)) != len(tr):
        return f"two detections of one frame share a track: {tr}"
    by_uid = {i.uid: i for i in rec["out"]}
    for d in fr:
        if Fraction(d["score"]) > thr:
            if d["uid"] not in by_uid:
                return f"detection {d['uid']} (score above threshold) was not returned"
            if by_uid[d["uid"]].track is None and not cap_full:
                return f"detection {d['uid']} (score above threshold) was returned without a track"
    if cfg and fixes and fixes.get("cap") and cfg.get("lq") and cfg.get("max_tracks") is not None:
        if rec.get("n_tracks_after", 0) > cfg["max_tracks"]:
            return f"{rec['n_tracks_after']} tracks exist, max_tracks = {cfg['max_tracks']}"
    return None


def hist_json(cfg, hist):
    return {"cfg": {k: (str(v) if isinstance(v, Fraction) else v) for k, v in cfg.items()},
            "hist": [[{k: (str(v) if isinstance(v, Fraction) else v) for k, v in d.items()} for d in fr] for fr in hist]}


def hist_from_json(j):
    cfg = dict(j["cfg"])
    cfg["threshold"] = Fraction(cfg["threshold"])
    hist = [[{**d, "x": Fraction(d["x"]), "y": Fraction(d["y"]), "score": Fraction(d["score"])} for d in fr]
            for fr in j["hist"]]
    cfg.setdefault("red_max", False)
    return cfg, hist


def recompute_scores(cfg, recs, k, cands):
    """The score matrix of call k recomputed from the candidates the MODEL's queues hold (uids per
    track), with the repo's own feature / scoring / reduction functions.  Returns a nested list."""
    im = impl()
    np = im["np"]
    T = im["Tracker"]
    t = T.from_config(features=cfg["features"], scoring_method=cfg["scoring"])
    feat = t._feature_methods[cfg["features"]]
    score = t._scoring_functions[cfg["scoring"]]
    red = t._scoring_reduction_methods["max" if cfg["red_max"] else "mean"]
    by_uid = {}
    for r in recs[:k]:
        for i in r["insts"]:
            by_uid[i.uid] = i
    out = []
    with warnings.catch_warnings():
        warnings.simplefilter("ignore")
        for i in recs[k]["insts"]:
            row = []
            for cl in cands:
                vals = [score(feat(i), feat(by_uid[u])) for u in cl]
                row.append(float(red(vals)) if vals else float("nan"))
            out.append(row)
    return out
