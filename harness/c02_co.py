"""C02 helper: the centroid-only top-down pipeline (centroid model + FindInstancePeaksGroundTruth).

TopDownPredictor(confmap_config=None): make_pipeline("LabelsReader") with instances_key=True ->
_predict_generator (instances * eff_scale, lines 279-280 / 293-294 / 302-303 / 311-312) ->
TopDownInferenceModel.forward (GroundTruth branch) -> CentroidCrop.forward(return_crops=False)
(table / eff_scale) -> FindInstancePeaksGroundTruth.forward.  Observed at the dictionaries yielded by
_predict_generator (= Predictor.predict(make_labels=False)).

Model: coq/theories/C02/CentroidOnly.v (co_run).  Finding F61: selector `gt_match_mixed_coordinates`.
"""
from __future__ import annotations

import json
import math
from fractions import Fraction as F

from . import core
from . import c02_stub as S

PREAMBLE = ("From SV Require Import C02.Decode C02.CentroidOnly.\nFrom Coq Require Import List ZArith QArith.\n"
            "Import ListNotations.\nOpen Scope Q_scope.\n")
SEL_F61 = "gt_match_mixed_coordinates"
GAP_MIN = 4.0          # squared size-matched pixels: below this the argmin is too close to call in float32


def _P():
    from .props import c02 as P
    return P


def dummy_instance_keys(c):
    c.update({"scale_i": F(1), "ms_i": 1, "os_i": 1, "crop": 32})
    return c


def gen_co_animals(rng, fc, n_an):
    """Animals of one frame of size (fc["H"], fc["W"]): >= max(4 cells, 2 cells + 28 px) apart, node 0 near the centroid."""
    P = _P()
    H, W = fc["H"], fc["W"]
    g = P.td_geom(fc)
    eff, osc, sc = g["eff"], fc["os_c"], fc["scale_c"]
    cell = F(osc) / (sc * eff)                       # one centroid cell in original pixels
    sep = max(4 * cell + 2, 2 * cell + 28)           # own node always much nearer than any other animal's
    animals = []
    for _ in range(n_an):
        placed = None
        for _ in range(120):
            border = 10 + (3 * cell if fc["refinement"] else 0)
            lo_x, hi_x = math.ceil(border), math.floor(W - 1 - border)
            lo_y, hi_y = math.ceil(border), math.floor(H - 1 - border)
            if lo_x >= hi_x or lo_y >= hi_y:
                break
            cx = F(rng.randrange(8 * lo_x, 8 * hi_x + 1), 8)
            cy = F(rng.randrange(8 * lo_y, 8 * hi_y + 1), 8)
            ux, uy = P.app(g["cx"][0], cx), P.app(g["cy"][0], cy)
            if P.tie_margin(ux, osc) < P.MU or P.tie_margin(uy, osc) < P.MU:
                continue
            if ux / osc > P.ncells(g["cx"][1], osc) - 1 + F(1, 2) or uy / osc > P.ncells(g["cy"][1], osc) - 1 + F(1, 2):
                continue
            if any(max(abs(cx - a["cent"][0]), abs(cy - a["cent"][1])) < sep for a in animals):
                continue
            placed = (cx, cy)
            break
        if placed is None:
            continue
        cx, cy = placed
        kps = []
        for k in range(fc["n_nodes"]):
            if k > 0 and rng.random() < 0.3:
                kps.append(None)
                continue
            r = 3 if k == 0 else 8
            kps.append((cx + F(rng.randrange(-8 * r, 8 * r + 1), 8), cy + F(rng.randrange(-8 * r, 8 * r + 1), 8)))
        animals.append({"kps": kps, "cent": (cx, cy)})
    return animals


def gen_centroid_only(rng, idx, mixed=False):
    P = _P()
    for _ in range(400):
        if mixed:
            mh, mw, sizes = P.gen_mixed_sizes(rng, 72)
            variant = "mixed"
            H, W = sizes[0]
        else:
            H, W, mh, mw, variant = P.gen_sizes(rng)
            sizes = [(H, W)]
        if min(min(x) for x in sizes) < 72:
            continue
        c = dummy_instance_keys({
            "kind": "centroid_only", "idx": idx, "H": H, "W": W, "mh": mh, "mw": mw, "variant": variant,
            "scale_c": rng.choice([F(1, 2), F(3, 4), F(1), F(1)]), "ms_c": rng.choice([1, 8, 16]),
            "os_c": rng.choice([1, 2, 4]), "refinement": rng.choice([None, None, None, "integral"]),
            "batch": rng.randint(2, 4) if mixed else rng.randint(1, 4), "n_nodes": rng.randint(1, 3), "band": False,
            "n_videos": rng.choice([1, 1, 2])})
        if not all(P.config_ok(h, w, mh, mw, [c["scale_c"]]) for h, w in sizes):
            continue
        n_frames = rng.randint(2, 4) if mixed else rng.randint(1, 4)
        if mixed:
            c["sizes"], c["vid"], c["n_videos"] = [list(x) for x in sizes], P.frame_videos(rng, n_frames, len(sizes)), len(sizes)
        frames = []
        for f in range(n_frames):
            v = c["vid"][f] if mixed else 0
            animals = gen_co_animals(rng, dict(c, H=sizes[v][0], W=sizes[v][1]), rng.choice([1, 1, 2, 2, 3]))
            if not animals:
                break
            frames.append(animals)
        if len(frames) < (2 if mixed else 1):
            continue
        if mixed:
            c["vid"] = c["vid"][:len(frames)]
        c["frames"] = frames
        return c
    raise RuntimeError("generator could not place a centroid-only case")


def f61_witness():
    """eff_scale 1/2 (96x128 frame matched to 48x64): the centroid of animal B, handed over as (40, 32)
    original pixels, is compared with A*(1/2) = (50, 35) and B*(1/2) = (20, 15): A is returned twice."""
    A = {"kps": [(F(100), F(70)), (F(104), F(74))], "cent": (F(102), F(72))}
    B = {"kps": [(F(40), F(30)), (F(44), F(34))], "cent": (F(42), F(32))}
    return dummy_instance_keys({
        "kind": "centroid_only", "idx": -61, "H": 96, "W": 128, "mh": 48, "mw": 64, "variant": "smaller",
        "scale_c": F(1), "ms_c": 16, "os_c": 2, "refinement": None, "batch": 2, "n_nodes": 2, "band": False,
        "n_videos": 1, "frames": [[A, B]]})


# ------------------------------------------------------------------ implementation
def run_impl(c, mods):
    import numpy as np
    P = _P()
    sc = P.build_scene(c)
    fids = list(range(len(c["frames"])))
    video, labels, where = S.make_sources(sc, fids, c.get("n_videos", 1), c["vid"] if P.is_mixed(c) else None)
    cfg = dict(os_c=c["os_c"], scale_c=float(c["scale_c"]), ms_c=c["ms_c"], max_h=c["mh"], max_w=c["mw"],
               batch=c["batch"], refinement=c["refinement"], max_instances=None)
    pred, stub = S.build_topdown_centroid_only_predictor(mods, sc, cfg)
    raw, flags = S.run_predictor_raw(pred, "LabelsReader", video, labels)
    back = {w: f for f, w in zip(fids, where)}
    per_frame, order = {}, []
    for ex in raw:
        b = len(ex["frame_idx"])
        peaks = np.asarray(ex["pred_instance_peaks"], dtype=np.float64)
        max_inst, nodes = peaks.shape[1], peaks.shape[2]
        vals = np.asarray(ex["pred_peak_values"], dtype=np.float64).reshape(b, max_inst, nodes)
        for k in range(b):
            fid = back.get((int(ex["video_idx"][k]), int(ex["frame_idx"][k])))
            order.append(fid)
            per_frame[fid] = {"cents": np.asarray(ex["centroids"][k, 0], dtype=np.float64),
                              "cvals": np.asarray(ex["centroid_vals"][k], dtype=np.float64),
                              "peaks": peaks[k], "vals": vals[k], "eff": float(ex["eff_scale"][k])}
    return {"per_frame": per_frame, "order": order, "flags": flags, "log": stub.log}


def detect_fixed_f61(mods):
    """Does FindInstancePeaksGroundTruth compare centroids and instances in one coordinate system?"""
    res = run_impl(f61_witness(), mods)
    pk = res["per_frame"][0]["peaks"]
    xs = sorted(round(float(pk[k][0][0])) for k in range(2))
    return xs == [40, 100]


# ------------------------------------------------------------------ the property, executable
def oracle_case(c, res, fixed_f61):
    """Every labelled animal of every frame comes back exactly once: its centroid within half a
    centroid-stage cell (original pixels) and its keypoints as labelled (NaN for the missing ones)."""
    import numpy as np
    P = _P()
    fails = []
    s = float(c["scale_c"])
    for fid, animals in enumerate(c["frames"]):
        eff = P.eff_of(c, fid)                     # the frame's own size-matching scale
        half = c["os_c"] / (2 * s * eff)           # (the refined centroid is nearer to the truth than the rough one on an ideal map)
        sel61 = SEL_F61 if (abs(eff - 1.0) > 1e-12 and len(animals) >= 2 and not fixed_f61) else None
        out = res["per_frame"].get(fid)
        if out is None:
            fails.append((f"frame {fid}: no output record", None))
            continue
        rows = [k for k in range(len(out["cents"])) if not np.isnan(out["cents"][k]).any()]
        if len(rows) != len(animals):
            fails.append((f"frame {fid}: {len(rows)} centroids for {len(animals)} animals", None))
            continue
        rec = next((r for r in res["log"] if r["fid"] == fid and r.get("ax")), None)
        used = set()
        for k in rows:
            cx, cy = out["cents"][k]
            j = min(range(len(animals)), key=lambda j: max(abs(cx - float(animals[j]["cent"][0])),
                                                           abs(cy - float(animals[j]["cent"][1]))))
            used.add(j)
            a = animals[j]
            reg = band = None
            if rec is not None:
                jx = (float(a["cent"][0]) - rec["bx"]) / rec["ax"]
                jy = (float(a["cent"][1]) - rec["by"]) / rec["ay"]
                reg = (abs(jx - s * eff * float(a["cent"][0])) / (s * eff), abs(jy - s * eff * float(a["cent"][1])) / (s * eff))
                band = P.in_last_band(jx, jy, rec["shape"], c["os_c"])
            bad = P.oracle_point((cx, cy), 1.0, a["cent"], (half, half), reg, {"band": band})
            if bad:
                fails.append((f"frame {fid} centroid {k}: {bad[0]}", bad[1]))
            if k >= len(out["peaks"]):
                fails.append((f"frame {fid} centroid {k}: no instance row", None))
                continue
            for n, p in enumerate(a["kps"]):
                q = out["peaks"][k][n]
                if p is None:
                    if not np.isnan(q).all():
                        fails.append((f"frame {fid} animal {j} node {n}: missing keypoint reported at {q.tolist()}", sel61))
                elif np.isnan(q).any() or abs(q[0] - float(p[0])) > 1e-3 + 1e-5 * abs(float(p[0])) or \
                        abs(q[1] - float(p[1])) > 1e-3 + 1e-5 * abs(float(p[1])):
                    fails.append((f"frame {fid} animal {j} node {n}: labelled ({float(p[0])}, {float(p[1])}) but the "
                                  f"instance returned for its centroid has {q.tolist()}", sel61))
        if len(used) != len(animals):
            fails.append((f"frame {fid}: animals {sorted(set(range(len(animals))) - used)} have no centroid", None))
    return fails


# ------------------------------------------------------------------ model + correspondence
def evaluate(run, cases, mods, fixed_f61):
    import numpy as np
    P = _P()
    results = []
    for c in cases:
        try:
            results.append(run_impl(c, mods))
        except Exception as e:      # noqa
            import traceback
            results.append({"error": f"{type(e).__name__}: {e}", "tb": traceback.format_exc()[-1200:]})
    terms, index = [], []
    bterms, bindex = [], []
    for ci, c in enumerate(cases):
        if P.is_mixed(c):       # several video sizes: the BATCH model, one term per batch actually assembled
            for fb in P.batches_of(c, "LabelsReader"):
                bterms.append(f"BCentroidOnly {core.cbool(fixed_f61)} {P.td_cfg_term(c)} "
                              f"[{'; '.join(P.tframe_term(c, f, c['frames'][f]) for f in fb)}]")
                bindex.append([(ci, f) for f in fb])
            continue
        for fid, animals in enumerate(c["frames"]):
            terms.append(f"CCentroidOnly {core.cbool(fixed_f61)} {P.td_cfg_term(P.fview(c, fid))} {core.clist(animals, P.animal_term)}")
            index.append((ci, fid))
    model = core.coq_eval_sharded(PREAMBLE, terms, "co_run", "rco", shard=40, jobs=12)
    bmodel = core.coq_eval_sharded(P.PREAMBLE_MB, bterms, "run_batch", "rbatch", shard=12, jobs=12) if bterms else []
    by_case = {}
    for ix, m in zip(index, model):
        by_case.setdefault(ix[0], []).append((ix[1], m))
    for ixs, ms in zip(bindex, bmodel):
        for ix, m in zip(ixs, ms):
            by_case.setdefault(ix[0], []).append((ix[1], m))
    stats = {"co_rows_compared": 0, "co_skipped_near_tie": 0}
    disagreements = 0
    for ci, (c, res) in enumerate(zip(cases, results)):
        nvis = sum(p is not None for fr in c["frames"] for a in fr for p in a["kps"])
        run.case(P.case_json(c), nontrivial=nvis >= 1)
        diffs, fails = [], []
        if "error" in res:
            fails.append((f"implementation raised {res['error']}", None))
        else:
            if res["flags"]["preprocess"] is not False or res["flags"]["instances_key"] is not True:
                diffs.append(f"make_pipeline flags {res['flags']['preprocess']}/{res['flags']['instances_key']}, model False/True")
            if len(by_case.get(ci, [])) != len(c["frames"]):
                diffs.append(f"model gives {len(by_case.get(ci, []))} frame results for {len(c['frames'])} frames")
            for fid, m in by_case.get(ci, []):
                cgx, cgy, meff, rows = m
                eff = P.eff_of(c, fid)
                half = c["os_c"] / (2 * float(c["scale_c"]) * eff)
                fH, fW = P.fsize(c, fid)
                out = res["per_frame"].get(fid)
                where = f"frame {fid}"
                if out is None:
                    diffs.append(f"{where}: no output record")
                    continue
                if abs(out["eff"] - P.q2f(meff)) > 1e-6:
                    diffs.append(f"{where}: eff_scale {out['eff']} model {P.q2f(meff)}")
                live = [k for k in range(len(out["cents"])) if not np.isnan(out["cents"][k]).any()]
                if len(live) != len(rows):
                    diffs.append(f"{where}: {len(live)} centroid rows, model {len(rows)}")
                    continue
                for rec in res["log"]:
                    if rec["fid"] == fid and rec.get("ax"):
                        P.cmp_affine(cgx[0], cgx[1], rec, "x", fW, where + " centroid net", diffs)
                        P.cmp_affine(cgy[0], cgy[1], rec, "y", fH, where + " centroid net", diffs)
                for k, (cell, carg, cent, mi, pts, gap) in zip(live, rows):
                    mx, my = P.q2f(cent[0]), P.q2f(cent[1])
                    ix, iy = out["cents"][k]
                    if c["refinement"] is None:
                        if not (P.close(ix, mx) and P.close(iy, my)):
                            diffs.append(f"{where} row {k}: centroid impl ({ix}, {iy}) model ({mx}, {my})")
                        if abs(out["cvals"][k] - math.exp(P.q2f(carg))) > P.VTOL:
                            diffs.append(f"{where} row {k}: centroid value {out['cvals'][k]} model {math.exp(P.q2f(carg))}")
                    elif abs(ix - mx) > half * 1.0005 + P.ATOL or abs(iy - my) > half * 1.0005 + P.ATOL:
                        diffs.append(f"{where} row {k}: refined centroid ({ix}, {iy}) further than half a cell from rough ({mx}, {my})")
                    g = P.q2f(gap)
                    if c["refinement"] is not None or (0 <= g < GAP_MIN):
                        stats["co_skipped_near_tie"] += 1       # the match is decided by the refined / nearly tied distances
                        continue
                    stats["co_rows_compared"] += 1
                    if k >= len(out["peaks"]) or len(pts) != out["peaks"].shape[1]:
                        diffs.append(f"{where} row {k}: instance row missing or of another width")
                        continue
                    for n, mp in enumerate(pts):
                        q = out["peaks"][k][n]
                        if mp is None:
                            if not np.isnan(q).all():
                                diffs.append(f"{where} row {k} node {n}: impl {q.tolist()} model NaN")
                        elif np.isnan(q).any() or not (P.close(q[0], P.q2f(mp[0])) and P.close(q[1], P.q2f(mp[1]))):
                            diffs.append(f"{where} row {k} node {n}: impl {q.tolist()} model ({P.q2f(mp[0])}, {P.q2f(mp[1])}) "
                                         f"[matched instance {mi}]")
                        if not np.isnan(q).all() or mp is None:
                            v = out["vals"][k][n]
                            if v != 1.0:
                                diffs.append(f"{where} row {k} node {n}: value {v}, model 1 (ground-truth peaks)")
                # rows beyond the centroids: NaN
                for k in range(len(out["peaks"])):
                    if k not in live and not np.isnan(out["peaks"][k]).all():
                        diffs.append(f"{where}: instance row {k} has no centroid but is not NaN")
            fails += oracle_case(c, res, fixed_f61)
        if diffs:
            disagreements += 1
            if disagreements <= 4:
                run.log(f"model/impl disagree on centroid-only case {c['idx']}: {diffs[:3]}")
        unknown = []
        for reason, sel in fails:
            if sel is not None and run.selector_known(sel) is not None:
                run.violation("failing-input", {"case": P.case_json(c), "oracle": reason}, selector=sel)
            else:
                unknown.append(reason + (f" [selector {sel} is not a listed known finding]" if sel else ""))
        if unknown:
            run.violation("failing-input", {"case": P.case_json(c), "oracle": unknown[:6], "correspondence": diffs[:4]})
        elif diffs:
            run.proof_broken.append(f"correspondence C02 centroid-only model vs implementation, case "
                                    f"{json.dumps(P.case_json(c))[:900]}: {diffs[:3]}")
    return disagreements, stats


def replay(run, c, mods):
    fixed = detect_fixed_f61(mods)
    res = run_impl(c, mods)
    f = oracle_case(c, res, fixed)
    print(json.dumps({"LabelsReader (centroid-only)": f}, indent=1))
    bad = any(sel is None or run.selector_known(sel) is None for _, sel in f)
    return 1 if bad else 0
