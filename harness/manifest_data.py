"""Per-property manifest text (consumed by tools_manifest.py)."""
NOTES = ("All checks: ./check Cxx --tier quick|thorough (cwd /verif). Known findings: /verif/known_findings.txt. "
         "Trusted base and per-property limits: DESIGN.md §8 and §5.")
NOT_APPLICABLE = {}
CHECKS = {
 "C01": {
  "technique": "Coq proof over reals (exp monotonicity, max-fold) about an executable model of confidence_maps.py + model/code correspondence",
  "text": "Theorems for all keypoints, sizes, strides, sigma>0: every cell of generate_confmaps equals exp(-d^2/2(sigma*stride)^2) at image position (j*stride,i*stride); values in [0,1]; antitone in distance, =1 iff on the keypoint; multi-instance/centroid cells are the maximum over animals; missing keypoints contribute nothing (all-missing => 0); grid length ceil(n/stride). The model (cells hold the exact rational argument of exp) is tied to generate_confmaps/generate_multiconfmaps/both DataPipes by per-run differential execution within float32 tolerance, and the property statement is evaluated independently on the implementation's outputs.",
  "note": "Trusted: Coq kernel, harness, float32 kernels of torch (exp, nan_to_num, maximum, arange) modelled not verified. Axioms: the four Reals axioms of the standard library (sig_forall_dec, sig_not_dec, functional_extensionality_dep, classic).",
 },
 "C08": {
  "technique": "Coq proof (fold invariants over the grouping loop, C17 edge order as lemma, Hungarian solver as Section oracle with contract) + model/code correspondence incl. per-call validation of scipy against the contract",
  "text": "26 unbounded, axiom-free theorems about an executable model of candidates -> cost matrix -> assignment -> assign_connections_to_instances -> make_predicted_instances -> group_instances_sample -> predict: under the C17 edge order and the oracle contract only cases 1/2 fire and the internal assert/KeyError/IndexError are unreachable; the output is a partition (each keypoint is an input peak with its score, no peak twice, <=1 peak per node); instances are the connected components of accepted matches surviving the size filter, dropped whole below min_instance_peaks; instance score = sum of accepted edge scores; matches below min_line_scores/NaN unused; per-edge optimality from the contract. Totality is refuted on the current code (F3) with an exact selector, proved outside it and proved in full for the repaired variant (model parameter fixed_F3). The model is tied to the real functions by differential execution on ~3.8k (quick) / 30k (thorough) generated cases; every matrix handed to scipy is compared with the model's and every scipy answer is checked against the contract by brute force.",
  "note": "Trusted: Coq kernel, harness; scipy.optimize.linear_sum_assignment is an oracle (contract validated per call, sizes <= 5x5); make_line_subs/score_paf_lines are not modelled (their output is fed to the model exactly). No axioms.",
 },
 "C18": {
  "technique": "Coq proof (equality of three pipeline compositions over a shared step model) + direct framework-vs-framework differential execution on the implementation",
  "text": "24 unbounded, axiom-free theorems: the in-memory dataset, the np_chunks dataset and chunk-function + streaming compositions (written in the order each framework's code applies the shared steps) yield equal keypoints/centroids/sizes/content maps/target inputs for single-instance, centroid and bottom-up at any scale and centered-instance at scale 1 (hence equal confidence maps via C01); every listed DataPipe block equals its functional counterpart; the documented exclusion (centered-instance at scale != 1) is stated with a witness and a general size lemma so it cannot silently widen. Tie: each framework's real samples are compared with each other (images <= 1/255, points 4e-4, maps 3e-4) and with the Coq composition (sizes, keypoints, centroids, bbox corner, content map measured on ramp images); nine DataPipe blocks vs functions.",
  "note": "Trusted: Coq kernel, harness; litdata's on-disk format is not under test (its serialisers are applied in memory, StreamingDataset.__init__/__getitem__ stubbed); torch/kornia kernels modelled, not verified. No axioms.",
 },
 "C17": {
  "technique": "Coq proof (BFS invariant, induction) over an executable model of toposort_edges + exhaustive model/code correspondence",
  "text": "Theorem for every arborescence edge list of any size: the modelled toposort returns a permutation of all edge indices with each edge after the edge into its source. The model is tied to toposort_edges by exhaustive differential execution over all rooted labelled trees on 2..5 (quick) / 2..6 (thorough) nodes under all edge listings, plus sampled 7-node trees and non-tree digraphs.",
  "note": "Trusted: Coq kernel, harness; networkx insertion-order/BFS behaviour is modelled and compared, not verified. No axioms.",
 },
}
