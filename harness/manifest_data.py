"""Per-property manifest text (consumed by tools_manifest.py)."""
NOTES = ("All checks: ./check Cxx --tier quick|thorough (cwd /verif). Known findings: /verif/known_findings.txt. "
         "Trusted base and per-property limits: DESIGN.md §8 and §5.")
NOT_APPLICABLE = {}
CHECKS = {
 "C01": {
  "technique": "Coq proof over reals (exp monotonicity, max-fold) about an executable model of confidence_maps.py + model/code correspondence",
  "text": "Theorems for all keypoints, sizes, strides, sigma>0: every cell of generate_confmaps equals exp(-d^2/2(sigma*stride)^2) at image position (j*stride,i*stride); values in [0,1]; antitone in distance, =1 iff on the keypoint; multi-instance/centroid cells are the maximum over animals; missing keypoints contribute nothing (all-missing => 0); grid length ceil(n/stride). The model (cells hold the exact rational argument of exp) is tied to generate_confmaps/generate_multiconfmaps/both DataPipes by per-run differential execution within float32 tolerance, and the property statement is evaluated independently on the implementation's outputs.",
  "note": "Trusted: Coq kernel, harness, float32 kernels of torch (exp, nan_to_num, maximum, arange) modelled not verified. Axioms: the four Reals axioms of the standard library (sig_forall_dec, sig_not_dec, functional_extensionality_dep, classic).",
 },
 "C17": {
  "technique": "Coq proof (BFS invariant, induction) over an executable model of toposort_edges + exhaustive model/code correspondence",
  "text": "Theorem for every arborescence edge list of any size: the modelled toposort returns a permutation of all edge indices with each edge after the edge into its source. The model is tied to toposort_edges by exhaustive differential execution over all rooted labelled trees on 2..5 (quick) / 2..6 (thorough) nodes under all edge listings, plus sampled 7-node trees and non-tree digraphs.",
  "note": "Trusted: Coq kernel, harness; networkx insertion-order/BFS behaviour is modelled and compared, not verified. No axioms.",
 },
}
