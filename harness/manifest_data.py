"""Per-property manifest text (consumed by tools_manifest.py)."""
NOTES = ("All checks: ./check Cxx --tier quick|thorough (cwd /verif). Known findings: /verif/known_findings.txt. "
         "Trusted base and per-property limits: DESIGN.md §8 and §5.")
NOT_APPLICABLE = {}
CHECKS = {
 "C17": {
  "technique": "Coq proof (BFS invariant, induction) over an executable model of toposort_edges + exhaustive model/code correspondence",
  "text": "Theorem for every arborescence edge list of any size: the modelled toposort returns a permutation of all edge indices with each edge after the edge into its source. The model is tied to toposort_edges by exhaustive differential execution over all rooted labelled trees on 2..5 (quick) / 2..6 (thorough) nodes under all edge listings, plus sampled 7-node trees and non-tree digraphs.",
  "note": "Trusted: Coq kernel, harness; networkx insertion-order/BFS behaviour is modelled and compared, not verified. No axioms.",
 },
}
