"""C12 helper: batch independence of the centroid-only top-down pipeline
(TopDownPredictor without a centered-instance model: CentroidCrop(return_crops=False) +
FindInstancePeaksGroundTruth, LabelsReader with instances_key=True).

Every frame carries at least one labelled instance (the labels reader needs one); a frame "without
detections" holds a ghost animal whose centroid lies far outside the image, so that the centroid
network shows nothing for it.  eff_scale = 1 in the one-size cases; the "mixed" cases hold 2-3 videos of different frame sizes with
max_height/max_width size matching (eff_scale differs between batch-mates; F61 of C02 is repaired in /repo).
Model: coq/theories/C12/Batch.v (centroid_only_stream; CGt)."""
from __future__ import annotations

import json
from fractions import Fraction as F

from . import core
from . import c02_stub as S

TOL = 2e-5
GHOST = (F(-4000), F(-4000))


def tie_margin(u, os_):
    f = (u / os_ - F(1, 2)) % 1
    return min(f, 1 - f)


def _P12():
    from .props import c12 as P
    return P


def gen_case(rng, idx, mixed=False):
    P = _P12()
    n_frames = rng.randint(2, 5)
    if mixed:
        mh, mw, sizes = P.gen_mixed_sizes(rng, "centroid_only")
        vid = [0, 1] + [rng.randrange(len(sizes)) for _ in range(n_frames - 2)]
    else:
        mh = mw = None
        sizes, vid = [(rng.choice([96, 112, 128, 144]), rng.choice([96, 112, 128, 160]))], [0] * n_frames
    H, W = sizes[0]
    c = {"kind": "centroid_only", "idx": idx, "H": H, "W": W, "os_c": rng.choice([2, 4]), "ms": rng.choice([1, 8, 16]),
         "refinement": rng.choice([None, "integral"]), "max_instances": rng.choice([None, None, 1, 2, 3]),
         "n_nodes": rng.randint(1, 3), "batch_mid": rng.randint(2, 4), "n_videos": rng.choice([1, 2, 2])}
    if mixed:
        c.update({"mh": mh, "mw": mw, "sizes": [list(x) for x in sizes], "vid": vid, "n_videos": len(sizes),
                  "family": "mixed_video_sizes"})
    cells = [(i, j) for i in range(2) for j in range(2)]
    frames = []
    for f in range(n_frames):
        H, W = sizes[vid[f]]
        mx, my = P.content_maps(H, W, mh, mw)
        n_an = rng.choice([0, 1, 2, 3, 4])
        if mixed and f < 2:
            n_an = max(1, n_an)
        animals = []
        for (ci, cj) in rng.sample(cells, n_an):
            for _ in range(200):
                cx = F(rng.randrange(64 * (cj * W // 2 + 20), 64 * ((cj + 1) * W // 2 - 20)), 64)
                cy = F(rng.randrange(64 * (ci * H // 2 + 20), 64 * ((ci + 1) * H // 2 - 20)), 64)
                if tie_margin(mx[0] * cx + mx[1], c["os_c"]) >= F(1, 8) and tie_margin(my[0] * cy + my[1], c["os_c"]) >= F(1, 8):
                    break
            kps = []
            for k in range(c["n_nodes"]):
                if k > 0 and rng.random() < 0.25:
                    kps.append(None)
                    continue
                r = 3 if k == 0 else 9
                kps.append((cx + F(rng.randrange(-8 * r, 8 * r + 1), 8), cy + F(rng.randrange(-8 * r, 8 * r + 1), 8)))
            animals.append({"kps": kps, "cent": (cx, cy)})
        if n_an == 0 or rng.random() < 0.2:
            # labelled but never detected: its nodes sit in a free corner, its "centroid" far outside
            gx, gy = F(rng.randrange(8 * 4, 8 * 12), 8), F(rng.randrange(8 * 4, 8 * 12), 8)
            animals.append({"kps": [(gx + k, gy + k) for k in range(c["n_nodes"])], "cent": GHOST, "ghost": True})
        frames.append(animals)
    if all(all(a.get("ghost") for a in fr) for fr in frames):
        H, W = sizes[vid[0]]
        frames[0].insert(0, {"kps": [(F(W, 2) + F(1, 8) + k, F(H, 2) + F(3, 8)) for k in range(c["n_nodes"])],
                             "cent": (F(W, 2) + F(1, 8), F(H, 2) + F(3, 8))})
    c["frames"] = frames
    order = list(range(n_frames))
    rng.shuffle(order)
    c["perm"] = order
    return c


def case_json(c):
    j = {k: v for k, v in c.items() if k != "frames" and not k.startswith("_")}
    j["frames"] = [[{"cent": [str(a["cent"][0]), str(a["cent"][1])], "ghost": bool(a.get("ghost")),
                     "kps": [None if p is None else [str(p[0]), str(p[1])] for p in a["kps"]]}
                    for a in fr] for fr in c["frames"]]
    return j


def case_from_json(j):
    c = dict(j)
    c["frames"] = [[{"cent": (F(a["cent"][0]), F(a["cent"][1])), "ghost": bool(a.get("ghost")),
                     "kps": [None if p is None else (F(p[0]), F(p[1])) for p in a["kps"]]}
                    for a in fr] for fr in j["frames"]]
    return c


def build_scene(c):
    sc = S.Scene(c["n_nodes"])
    for f, animals in enumerate(c["frames"]):
        h, w = _P12().fsize(c, f)
        sc.add(f, h, w, animals)
    return sc


def run_once(c, mods, sc, order, batch, max_instances):
    """Returns the per-sample output records in output order:
    {"fid" (by indices), "ix": (video_idx, frame_idx), "pix": frame id read from the pixels,
     "cents": [(x, y, value)] (non-NaN rows, in row order), "crow": full padded centroid row (ids filled later),
     "peaks": (max_inst, nodes, 2) array}."""
    import numpy as np
    video, labels, where = S.make_sources(sc, order, c["n_videos"], [c["vid"][f] for f in order] if "sizes" in c else None)
    cfg = dict(os_c=c["os_c"], scale_c=1.0, ms_c=c["ms"], max_h=c.get("mh"), max_w=c.get("mw"), batch=batch,
               refinement=c["refinement"], max_instances=max_instances)
    pred, stub = S.build_topdown_centroid_only_predictor(mods, sc, cfg)
    raw, flags = S.run_predictor_raw(pred, "LabelsReader", video, labels)
    back = {w: f for f, w in zip(order, where)}
    recs, k0 = [], 0
    for ex in raw:
        b = len(ex["frame_idx"])
        peaks = np.asarray(ex["pred_instance_peaks"], dtype=np.float64)
        for k in range(b):
            vi, fi = int(ex["video_idx"][k]), int(ex["frame_idx"][k])
            cents = np.asarray(ex["centroids"][k, 0], dtype=np.float64)
            cvals = np.asarray(ex["centroid_vals"][k], dtype=np.float64)
            log = stub.log[k0 + k] if k0 + k < len(stub.log) else {"fid": None}
            recs.append({"fid": back.get((vi, fi), ("?", vi, fi)), "ix": (vi, fi), "pix": log["fid"],
                         "row": [None if np.isnan(cents[j]).any() else (float(cents[j][0]), float(cents[j][1]), float(cvals[j]))
                                 for j in range(len(cents))],
                         "peaks": peaks[k]})
        k0 += b
    entries = []
    for ex in raw:
        osz = np.asarray(ex["orig_size"], dtype=np.float64).reshape(-1, 2)
        entries.append([(int(f), int(v), float(e), int(hw[0]), int(hw[1]))
                        for f, v, e, hw in zip(np.asarray(ex["frame_idx"]).ravel(), np.asarray(ex["video_idx"]).ravel(),
                                               np.asarray(ex["eff_scale"]).ravel(), osz)])
    return {"records": recs, "where": dict(zip(order, where)), "n_raw": len(raw), "batch_sizes": [len(ex["frame_idx"]) for ex in raw],
            "entries": entries}


def somes(row):
    return [x for x in row if x is not None]


def same_cent(a, b):
    return all(abs(x - y) <= TOL + 1e-5 * abs(y) for x, y in zip(a, b))


def same_rows(a, b):
    import numpy as np
    return a.shape == b.shape and np.allclose(a, b, atol=TOL, rtol=1e-5, equal_nan=True)


def oracle(c, runs):
    import numpy as np
    fails = []
    n = len(c["frames"])
    by = {name: {r["fid"]: r for r in out["records"]} for name, out in runs.items()}
    for name, out in runs.items():
        fids = [r["fid"] for r in out["records"]]
        if sorted(fids, key=str) != sorted(range(n), key=str):
            fails.append(f"run '{name}': output records for frames {fids}, expected every frame 0..{n - 1} once")
        for r in out["records"]:
            if r["pix"] != r["fid"]:
                fails.append(f"run '{name}': record labelled {r['ix']} (frame {r['fid']}) was computed from the pixels of frame {r['pix']}")
    if fails:
        return fails
    base, ref = by["single"], by["ref"]
    for name in ("batch", "perm", "mid"):
        for fid in range(n):
            a, b = by[name][fid], base[fid]
            ca, cb = somes(a["row"]), somes(b["row"])
            if len(ca) != len(cb) or not all(same_cent(x, y) for x, y in zip(ca, cb)):
                fails.append(f"frame {fid}: run '{name}' centroids {ca} but the frame alone gives {cb}")
            if not same_rows(a["peaks"], b["peaks"]):
                fails.append(f"frame {fid}: run '{name}' instance rows {np.round(a['peaks'], 3).tolist()} but the frame alone "
                             f"gives {np.round(b['peaks'], 3).tolist()}")
    for fid, animals in enumerate(c["frames"]):
        real = [a for a in animals if not a.get("ghost")]
        full, kept = somes(ref[fid]["row"]), somes(base[fid]["row"])
        if len(full) != len(real):
            fails.append(f"frame {fid}: {len(full)} centroids for {len(real)} detectable animals (one by one)")
            continue
        for name in runs:
            r = by[name][fid]
            cs = somes(r["row"])
            if not real and (cs or not np.isnan(r["peaks"]).all()):
                fails.append(f"run '{name}': frame {fid} has no detection but yields {cs} / non-NaN instance rows")
            # each centroid's row = the labelled instance of the animal it belongs to
            for k, (x, y, v) in enumerate(cs):
                j = min(range(len(real)), key=lambda j: max(abs(x - float(real[j]["cent"][0])), abs(y - float(real[j]["cent"][1]))))
                want = np.array([[np.nan, np.nan] if p is None else [float(p[0]), float(p[1])] for p in real[j]["kps"]])
                if k >= len(r["peaks"]) or not np.allclose(r["peaks"][k], want, atol=1e-3, equal_nan=True):
                    fails.append(f"run '{name}' frame {fid}: centroid {k} near animal {j} but its instance row is "
                                 f"{np.round(r['peaks'][k], 3).tolist() if k < len(r['peaks']) else None}")
            for k in range(len(cs), len(r["peaks"])):
                if not np.isnan(r["peaks"][k]).all():
                    fails.append(f"run '{name}' frame {fid}: instance row {k} has no centroid but is not NaN")
        k = c.get("max_instances")
        if k is not None:
            if len(kept) != min(k, len(full)):
                fails.append(f"frame {fid}: max_instances={k} kept {len(kept)} of {len(full)} centroids")
            else:
                rest = [x for x in full if not any(same_cent(x, y) for y in kept)]
                if any(not any(same_cent(x, y) for y in full) for x in kept):
                    fails.append(f"frame {fid}: max_instances={k} returns a centroid the unlimited run does not have")
                elif rest and kept and min(x[2] for x in kept) < max(x[2] for x in rest) - TOL:
                    fails.append(f"frame {fid}: max_instances={k} kept value {min(x[2] for x in kept):.4f} but dropped "
                                 f"{max(x[2] for x in rest):.4f}")
        elif len(kept) != len(full) or not all(same_cent(x, y) for x, y in zip(kept, full)):
            fails.append(f"frame {fid}: two one-by-one runs differ")
    return fails


def cnat(n):
    return f"{int(n)}%nat"


def term(c, out, order, batch, mi, M, ref):
    fs = []
    for fid in order:
        vi, fi = out["where"][fid]
        peaks = [f"({cnat(j)}, {core.cq(F(float(x[2])))})" for j, x in enumerate(somes(ref[fid]["row"]))]
        fs.append(f"({cnat(fi)}, {cnat(vi)}, [{'; '.join(peaks)}])")
    mi_t = "None" if mi is None else f"(Some {cnat(mi)})"
    return f"CGt {mi_t} {cnat(M)} {cnat(batch)} [{'; '.join(fs)}]"


def impl_ids(out, ref):
    """The implementation's output in the model's vocabulary: per record (frame_idx, video_idx,
    centroid row ids, instance row ids), ids = position in the reference (one by one, unlimited) run."""
    import numpy as np
    got = []
    for r in out["records"]:
        rr = ref.get(r["fid"])
        if rr is None:
            got.append([r["ix"][1], r["ix"][0], ["?"], ["?"]])
            continue
        full = somes(rr["row"])
        crow = [None if x is None else next((j for j, y in enumerate(full) if same_cent(x, y)), "?") for x in r["row"]]
        prow = []
        for k in range(len(r["peaks"])):
            if np.isnan(r["peaks"][k]).all():
                prow.append(None)
            else:
                prow.append(next((j for j in range(len(full)) if j < len(rr["peaks"]) and
                                  np.allclose(r["peaks"][k], rr["peaks"][j], atol=TOL, equal_nan=True)), "?"))
        got.append([r["ix"][1], r["ix"][0], crow, prow])
    return got


def run_case(c, mods):
    sc = build_scene(c)
    n = len(c["frames"])
    ids = list(range(n))
    mi = c.get("max_instances")
    return {"ref": run_once(c, mods, sc, ids, 1, None), "single": run_once(c, mods, sc, ids, 1, mi),
            "batch": run_once(c, mods, sc, ids, n, mi), "perm": run_once(c, mods, sc, c["perm"], n, mi),
            "mid": run_once(c, mods, sc, ids, c["batch_mid"], mi)}


def evaluate(run, cases, mods, preamble):
    """impl runs + model + oracle + correspondence; returns (disagreements, stats)."""
    all_runs, terms, index = [], [], []
    sterms, sindex = [], []
    P = _P12()
    for ci, c in enumerate(cases):
        try:
            runs, err = run_case(c, mods), None
        except Exception as e:      # noqa
            import traceback
            runs, err = {}, f"{type(e).__name__}: {e} :: {traceback.format_exc()[-800:]}"
        all_runs.append((runs, err))
        if err:
            continue
        n = len(c["frames"])
        ids = list(range(n))
        ref = {r["fid"]: r for r in runs["ref"]["records"]}
        c["_ref"] = ref
        vals = [[x[2] for x in somes(r["row"])] for r in ref.values()]
        c["_tie"] = any(abs(a - b) < 1e-6 for v in vals for i, a in enumerate(v) for b in v[i + 1:])
        M = max(len(r["peaks"]) for r in ref.values())
        if len(ref) != n:
            continue
        for name, order, batch in (("single", ids, 1), ("batch", ids, n), ("perm", c["perm"], n), ("mid", ids, c["batch_mid"])):
            terms.append(term(c, runs[name], order, batch, c.get("max_instances"), M, ref))
            index.append((ci, name))
            sterms.append(P.eff_term(c, runs[name], order, batch))
            sindex.append((ci, name))
    model = core.coq_eval_sharded(preamble, terms, "run", "rresult", shard=60, jobs=12) if terms else []
    by_case = {}
    for ix, m in zip(index, model):
        by_case.setdefault(ix[0], []).append((ix[1], m))
    smodel = core.coq_eval_sharded(P.PREAMBLE_S, sterms, "srun", "rsres", shard=80, jobs=12) if sterms else []
    s_by_case = {}
    for ix, m in zip(sindex, smodel):
        s_by_case.setdefault(ix[0], []).append((ix[1], m))
    disagreements, ties = 0, 0
    for ci, c in enumerate(cases):
        runs, err = all_runs[ci]
        cj = case_json(c)
        run.case(cj, nontrivial=any(not a.get("ghost") for fr in c["frames"] for a in fr))
        if err:
            run.violation("failing-input", {"case": cj, "impl_error": err})
            continue
        fails = oracle(c, runs)
        diffs = []
        if c.get("_tie"):
            ties += 1
        else:
            for name, m in by_case.get(ci, []):
                got = impl_ids(runs[name], c["_ref"])
                # the model's centroid row is padded like the implementation's; compare as is
                if got != [list(x) for x in m]:
                    diffs.append(f"run '{name}': impl {got} model {m}")
        for name, m in s_by_case.get(ci, []):
            diffs += P.cmp_entries(c, name, m, runs[name]["entries"])[:1]
        if diffs:
            disagreements += 1
            if disagreements <= 4:
                run.log(f"model/impl disagree on centroid-only case {c['idx']}: {diffs[:2]}")
        if fails:
            run.violation("failing-input", {"case": cj, "oracle": fails[:6], "correspondence": diffs[:3]})
        elif diffs:
            run.proof_broken.append(f"correspondence C12 centroid-only model vs implementation, case {json.dumps(cj)[:800]}: {diffs[:2]}")
    return disagreements, {"centroid_only_cases": len(cases), "centroid_only_equal_values_skipped": ties}


def replay_case(c, mods):
    fails = oracle(c, run_case(c, mods))
    print(json.dumps({"oracle": fails}, indent=1))
    return 1 if fails else 0
