"""C12 helper: batch independence of the centroid-only top-down pipeline
(TopDownPredictor without a centered-instance model: CentroidCrop(return_crops=False) +
FindInstancePeaksGroundTruth, LabelsReader with instances_key=True).

Every frame carries at least one labelled instance (the labels reader needs one); a frame "without
detections" holds a ghost animal whose centroid lies far outside the image, so that the centroid
network shows nothing for it.  eff_scale = 1 in the one-size cases; the "mixed" cases hold 2-3 videos of different frame sizes with
max_height/max_width size matching (eff_scale differs between batch-mates; F61 of C02 is repaired in /repo).
The opposite of a ghost is a "phantom": a centroid that the centroid network shows (drawn by the stub) but that has no
labelled instance (`"unlabelled"` in c02_stub.Scene).  FindInstancePeaksGroundTruth matches it to the nearest labelled
instance of ITS OWN frame, so a frame can have MORE matched centroids than the labels file has instance rows (M): the
counts / `parsed` walk must then move past all of the frame's matches while emitting only M rows.
Model: coq/theories/C12/Batch.v (centroid_only_stream; CGtM: peaks (id, value, index of the matched labelled instance))."""
from __future__ import annotations

import json
from fractions import Fraction as F

from . import core
from . import c02_stub as S

TOL = 2e-5
GHOST = (F(-4000), F(-4000))


def tie_margin(u, os_):
    f = (u / os_ - F(1, 2)) % 1
    return min(f, 1 - f)


def _P12():
    from .props import c12 as P
    return P


def _dist_ok(p, others, mx, my, need):
    """euclidean distance of p to every point of `others`, measured in the size-matched image, >= need"""
    for q in others:
        dx, dy = float(mx[0] * (p[0] - q[0])), float(my[0] * (p[1] - q[1]))
        if dx * dx + dy * dy < need * need:
            return False
    return True


def nearest_label(p, labelled):
    """The code's rule inside ONE frame: index (in label order) of the labelled instance with the smallest
    distance from point p to any of its (non-missing) nodes, and the margin to the runner-up (inf if alone)."""
    ds = []
    for a in labelled:
        d = min((float(p[0]) - float(q[0])) ** 2 + (float(p[1]) - float(q[1])) ** 2 for q in a["kps"] if q is not None) ** 0.5
        ds.append(d)
    j = min(range(len(ds)), key=lambda i: ds[i])
    rest = [d for i, d in enumerate(ds) if i != j]
    return j, (min(rest) - ds[j] if rest else float("inf")), ds


def add_phantom(rng, c, animals, H, W, mx, my):
    """A centroid the network will show but nobody labelled: anywhere in the frame, >= 4 sigma (in the network's
    input) from every other centroid, in general position for the peak finder, and with an unambiguous nearest
    labelled instance (margin >= 2 px).  Returns True when one was placed."""
    need = 6 * c["os_c"]
    labelled = [a for a in animals if not a.get("phantom")]
    cents = [a["cent"] for a in animals if not a.get("ghost")]
    for _ in range(60):
        cx, cy = F(rng.randrange(64 * 14, 64 * (W - 14)), 64), F(rng.randrange(64 * 14, 64 * (H - 14)), 64)
        if tie_margin(mx[0] * cx + mx[1], c["os_c"]) < F(1, 8) or tie_margin(my[0] * cy + my[1], c["os_c"]) < F(1, 8):
            continue
        if not _dist_ok((cx, cy), cents, mx, my, need):
            continue
        if labelled and nearest_label((cx, cy), labelled)[1] < 2.0:
            continue
        animals.append({"kps": [None] * c["n_nodes"], "cent": (cx, cy), "phantom": True})
        return True
    return False


def gen_case(rng, idx, mixed=False, phantoms=False):
    P = _P12()
    n_frames = rng.randint(2, 5)
    if mixed:
        mh, mw, sizes = P.gen_mixed_sizes(rng, "centroid_only")
        vid = [0, 1] + [rng.randrange(len(sizes)) for _ in range(n_frames - 2)]
    else:
        mh = mw = None
        sizes, vid = [(rng.choice([96, 112, 128, 144]), rng.choice([96, 112, 128, 160]))], [0] * n_frames
    H, W = sizes[0]
    c = {"kind": "centroid_only", "idx": idx, "H": H, "W": W, "os_c": rng.choice([2, 4]), "ms": rng.choice([1, 8, 16]),
         "refinement": rng.choice([None, "integral"]), "max_instances": rng.choice([None, None, 1, 2, 3]),
         "n_nodes": rng.randint(1, 3), "batch_mid": rng.randint(2, 4), "n_videos": rng.choice([1, 2, 2])}
    if mixed:
        c.update({"mh": mh, "mw": mw, "sizes": [list(x) for x in sizes], "vid": vid, "n_videos": len(sizes),
                  "family": "mixed_video_sizes"})
    cells = [(i, j) for i in range(2) for j in range(2)]
    frames = []
    for f in range(n_frames):
        H, W = sizes[vid[f]]
        mx, my = P.content_maps(H, W, mh, mw)
        n_an = rng.choice([0, 1, 1, 2, 2, 3]) if phantoms else rng.choice([0, 1, 2, 3, 4])
        if mixed and f < 2:
            n_an = max(1, n_an)
        animals = []
        for (ci, cj) in rng.sample(cells, n_an):
            for _ in range(200):
                cx = F(rng.randrange(64 * (cj * W // 2 + 20), 64 * ((cj + 1) * W // 2 - 20)), 64)
                cy = F(rng.randrange(64 * (ci * H // 2 + 20), 64 * ((ci + 1) * H // 2 - 20)), 64)
                if tie_margin(mx[0] * cx + mx[1], c["os_c"]) >= F(1, 8) and tie_margin(my[0] * cy + my[1], c["os_c"]) >= F(1, 8):
                    break
            kps = []
            for k in range(c["n_nodes"]):
                if k > 0 and rng.random() < 0.25:
                    kps.append(None)
                    continue
                r = 3 if k == 0 else 9
                kps.append((cx + F(rng.randrange(-8 * r, 8 * r + 1), 8), cy + F(rng.randrange(-8 * r, 8 * r + 1), 8)))
            animals.append({"kps": kps, "cent": (cx, cy)})
        if n_an == 0 or rng.random() < 0.2:
            # labelled but never detected: its nodes sit in a free corner, its "centroid" far outside
            gx, gy = F(rng.randrange(8 * 4, 8 * 12), 8), F(rng.randrange(8 * 4, 8 * 12), 8)
            animals.append({"kps": [(gx + k, gy + k) for k in range(c["n_nodes"])], "cent": GHOST, "ghost": True})
        frames.append(animals)
    if all(all(a.get("ghost") for a in fr) for fr in frames):
        H, W = sizes[vid[0]]
        frames[0].insert(0, {"kps": [(F(W, 2) + F(1, 8) + k, F(H, 2) + F(3, 8)) for k in range(c["n_nodes"])],
                             "cent": (F(W, 2) + F(1, 8), F(H, 2) + F(3, 8))})
    if phantoms:
        c["family"] = (c.get("family", "") + "+phantoms").lstrip("+")
        maps = [P.content_maps(*sizes[vid[f]], mh, mw) for f in range(n_frames)]
        # scattered phantoms: any frame, any position of the batch (first included), next to ghosts or not
        for f in range(n_frames):
            if rng.random() < 0.35:
                for _ in range(rng.choice([1, 1, 2])):
                    add_phantom(rng, c, frames[f], *sizes[vid[f]], *maps[f])
        # one frame that OVER-detects: more detected centroids than the labels file has instance rows
        # (M = the largest number of labelled instances of any frame)
        M = max(sum(1 for a in fr if not a.get("phantom")) for fr in frames)
        det = [sum(1 for a in fr if not a.get("ghost")) for fr in frames]
        if rng.random() < 0.5:
            fstar = rng.randrange(n_frames)
        else:
            fstar = rng.choice([f for f in range(n_frames) if det[f] == max(det)])
        if rng.random() < 0.85:
            for _ in range(max(0, M + rng.choice([1, 1, 2]) - det[fstar])):
                if sum(1 for a in frames[fstar] if a.get("phantom")) >= 5:
                    break
                add_phantom(rng, c, frames[fstar], *sizes[vid[fstar]], *maps[fstar])
        c["over"] = fstar
        # max_instances: unlimited / below M (top-k drops detections before the matching) / above M (top-k AND
        # more matches than rows)
        c["max_instances"] = rng.choice([None, None, None, 1, 2, 3, M + 1, M + 2])
    c["frames"] = frames
    order = list(range(n_frames))
    rng.shuffle(order)
    c["perm"] = order
    return c


def case_json(c):
    j = {k: v for k, v in c.items() if k != "frames" and not k.startswith("_")}
    j["frames"] = [[{"cent": [str(a["cent"][0]), str(a["cent"][1])], "ghost": bool(a.get("ghost")),
                     "phantom": bool(a.get("phantom")),
                     "kps": [None if p is None else [str(p[0]), str(p[1])] for p in a["kps"]]}
                    for a in fr] for fr in c["frames"]]
    return j


def case_from_json(j):
    c = dict(j)
    c["frames"] = [[{"cent": (F(a["cent"][0]), F(a["cent"][1])), "ghost": bool(a.get("ghost")),
                     "phantom": bool(a.get("phantom")),
                     "kps": [None if p is None else (F(p[0]), F(p[1])) for p in a["kps"]]}
                    for a in fr] for fr in j["frames"]]
    return c


def build_scene(c):
    sc = S.Scene(c["n_nodes"])
    for f, animals in enumerate(c["frames"]):
        h, w = _P12().fsize(c, f)
        # a phantom is drawn by the stub centroid network but absent from the labels file
        sc.add(f, h, w, [dict(a, unlabelled=True) if a.get("phantom") else a for a in animals])
    return sc


def run_once(c, mods, sc, order, batch, max_instances):
    """Returns the per-sample output records in output order:
    {"fid" (by indices), "ix": (video_idx, frame_idx), "pix": frame id read from the pixels,
     "cents": [(x, y, value)] (non-NaN rows, in row order), "crow": full padded centroid row (ids filled later),
     "peaks": (max_inst, nodes, 2) array}."""
    import numpy as np
    video, labels, where = S.make_sources(sc, order, c["n_videos"], [c["vid"][f] for f in order] if "sizes" in c else None)
    cfg = dict(os_c=c["os_c"], scale_c=1.0, ms_c=c["ms"], max_h=c.get("mh"), max_w=c.get("mw"), batch=batch,
               refinement=c["refinement"], max_instances=max_instances)
    pred, stub = S.build_topdown_centroid_only_predictor(mods, sc, cfg)
    raw, flags = S.run_predictor_raw(pred, "LabelsReader", video, labels)
    back = {w: f for f, w in zip(order, where)}
    recs, k0 = [], 0
    for ex in raw:
        b = len(ex["frame_idx"])
        peaks = np.asarray(ex["pred_instance_peaks"], dtype=np.float64)
        for k in range(b):
            vi, fi = int(ex["video_idx"][k]), int(ex["frame_idx"][k])
            cents = np.asarray(ex["centroids"][k, 0], dtype=np.float64)
            cvals = np.asarray(ex["centroid_vals"][k], dtype=np.float64)
            log = stub.log[k0 + k] if k0 + k < len(stub.log) else {"fid": None}
            recs.append({"fid": back.get((vi, fi), ("?", vi, fi)), "ix": (vi, fi), "pix": log["fid"],
                         "row": [None if np.isnan(cents[j]).any() else (float(cents[j][0]), float(cents[j][1]), float(cvals[j]))
                                 for j in range(len(cents))],
                         "peaks": peaks[k]})
        k0 += b
    entries = []
    for ex in raw:
        osz = np.asarray(ex["orig_size"], dtype=np.float64).reshape(-1, 2)
        entries.append([(int(f), int(v), float(e), int(hw[0]), int(hw[1]))
                        for f, v, e, hw in zip(np.asarray(ex["frame_idx"]).ravel(), np.asarray(ex["video_idx"]).ravel(),
                                               np.asarray(ex["eff_scale"]).ravel(), osz)])
    return {"records": recs, "where": dict(zip(order, where)), "n_raw": len(raw), "batch_sizes": [len(ex["frame_idx"]) for ex in raw],
            "entries": entries}


def somes(row):
    return [x for x in row if x is not None]


def same_cent(a, b):
    return all(abs(x - y) <= TOL + 1e-5 * abs(y) for x, y in zip(a, b))


def same_rows(a, b):
    import numpy as np
    return a.shape == b.shape and np.allclose(a, b, atol=TOL, rtol=1e-5, equal_nan=True)


def oracle(c, runs):
    import numpy as np
    fails = []
    n = len(c["frames"])
    by = {name: {r["fid"]: r for r in out["records"]} for name, out in runs.items()}
    for name, out in runs.items():
        fids = [r["fid"] for r in out["records"]]
        if sorted(fids, key=str) != sorted(range(n), key=str):
            fails.append(f"run '{name}': output records for frames {fids}, expected every frame 0..{n - 1} once")
        for r in out["records"]:
            if r["pix"] != r["fid"]:
                fails.append(f"run '{name}': record labelled {r['ix']} (frame {r['fid']}) was computed from the pixels of frame {r['pix']}")
    if fails:
        return fails
    base, ref = by["single"], by["ref"]
    for name in ("batch", "perm", "mid"):
        for fid in range(n):
            a, b = by[name][fid], base[fid]
            ca, cb = somes(a["row"]), somes(b["row"])
            if len(ca) != len(cb) or not all(same_cent(x, y) for x, y in zip(ca, cb)):
                fails.append(f"frame {fid}: run '{name}' centroids {ca} but the frame alone gives {cb}")
            if not same_rows(a["peaks"], b["peaks"]):
                fails.append(f"frame {fid}: run '{name}' instance rows {np.round(a['peaks'], 3).tolist()} but the frame alone "
                             f"gives {np.round(b['peaks'], 3).tolist()}")
    def kps_arr(a):
        return np.array([[np.nan, np.nan] if p is None else [float(p[0]), float(p[1])] for p in a["kps"]])

    for fid, animals in enumerate(c["frames"]):
        real = [a for a in animals if not a.get("ghost")]         # what the centroid network shows (phantoms included)
        labelled = [a for a in animals if not a.get("phantom")]   # the frame's instances, in label order (ghosts included)
        full, kept = somes(ref[fid]["row"]), somes(base[fid]["row"])
        if len(full) != len(real):
            fails.append(f"frame {fid}: {len(full)} centroids for {len(real)} detectable animals (one by one)")
            continue
        for name in runs:
            r = by[name][fid]
            cs = somes(r["row"])
            M = len(r["peaks"])
            if not real and (cs or not np.isnan(r["peaks"]).all()):
                fails.append(f"run '{name}': frame {fid} has no detection but yields {cs} / non-NaN instance rows")
            # each centroid's row = the labelled instance of the animal it belongs to; a centroid nobody labelled
            # (phantom) = the nearest labelled instance of ITS OWN frame; centroids beyond the M instance rows have no row
            for k, (x, y, v) in enumerate(cs):
                if k >= M:
                    continue
                j = min(range(len(real)), key=lambda j: max(abs(x - float(real[j]["cent"][0])), abs(y - float(real[j]["cent"][1]))))
                if real[j].get("phantom"):
                    _, _, ds = nearest_label((x, y), labelled)
                    wants = [kps_arr(labelled[i]) for i in range(len(labelled)) if ds[i] <= min(ds) + 0.5]
                    what = "a detected centroid without a labelled instance"
                else:
                    wants = [kps_arr(real[j])]
                    what = f"centroid near animal {j}"
                if not any(np.allclose(r["peaks"][k], w, atol=1e-3, equal_nan=True) for w in wants):
                    other = [(f2, i) for f2, fr in enumerate(c["frames"]) if f2 != fid
                             for i, a in enumerate(z for z in fr if not z.get("phantom"))
                             if np.allclose(r["peaks"][k], kps_arr(a), atol=1e-3, equal_nan=True)]
                    fails.append(f"run '{name}' frame {fid}: row {k} belongs to {what} but the instance row is "
                                 f"{np.round(r['peaks'][k], 3).tolist()}"
                                 + (f" = labelled instance {other[0][1]} of frame {other[0][0]} (a batch-mate)" if other else ""))
            for k in range(len(cs), M):
                if not np.isnan(r["peaks"][k]).all():
                    fails.append(f"run '{name}' frame {fid}: instance row {k} has no centroid but is not NaN")
        k = c.get("max_instances")
        if k is not None:
            if len(kept) != min(k, len(full)):
                fails.append(f"frame {fid}: max_instances={k} kept {len(kept)} of {len(full)} centroids")
            else:
                rest = [x for x in full if not any(same_cent(x, y) for y in kept)]
                if any(not any(same_cent(x, y) for y in full) for x in kept):
                    fails.append(f"frame {fid}: max_instances={k} returns a centroid the unlimited run does not have")
                elif rest and kept and min(x[2] for x in kept) < max(x[2] for x in rest) - TOL:
                    fails.append(f"frame {fid}: max_instances={k} kept value {min(x[2] for x in kept):.4f} but dropped "
                                 f"{max(x[2] for x in rest):.4f}")
        elif len(kept) != len(full) or not all(same_cent(x, y) for x, y in zip(kept, full)):
            fails.append(f"frame {fid}: two one-by-one runs differ")
    return fails


def cnat(n):
    return f"{int(n)}%nat"


def term(c, out, order, batch, mi, M, ref):
    """CGtM: per frame (frame_idx, video_idx, [(id, value, match)]): id = position in the reference (one by one,
    unlimited) run, match = label index of the nearest labelled instance of the same frame (the per-sample rule,
    computed here from the case's labels and the reference centroid)."""
    fs = []
    for fid in order:
        vi, fi = out["where"][fid]
        labelled = [a for a in c["frames"][fid] if not a.get("phantom")]
        peaks = []
        for j, x in enumerate(somes(ref[fid]["row"])):
            m = f"(Some {cnat(nearest_label((x[0], x[1]), labelled)[0])})" if labelled else "None"
            peaks.append(f"({cnat(j)}, {core.cq(F(float(x[2])))}, {m})")
        fs.append(f"({cnat(fi)}, {cnat(vi)}, [{'; '.join(peaks)}])")
    mi_t = "None" if mi is None else f"(Some {cnat(mi)})"
    return f"CGtM {mi_t} {cnat(M)} {cnat(batch)} [{'; '.join(fs)}]"


def impl_ids(c, out, ref):
    """The implementation's output in the model's vocabulary: per record (frame_idx, video_idx,
    centroid row ids, instance row ids); centroid id = position in the reference (one by one, unlimited) run,
    instance id = label index (within the record's own frame) of the labelled instance the row equals."""
    import numpy as np
    got = []
    for r in out["records"]:
        rr = ref.get(r["fid"])
        if rr is None:
            got.append([r["ix"][1], r["ix"][0], ["?"], ["?"]])
            continue
        full = somes(rr["row"])
        crow = [None if x is None else next((j for j, y in enumerate(full) if same_cent(x, y)), "?") for x in r["row"]]
        labelled = [np.array([[np.nan, np.nan] if p is None else [float(p[0]), float(p[1])] for p in a["kps"]])
                    for a in c["frames"][r["fid"]] if not a.get("phantom")]
        prow = []
        for k in range(len(r["peaks"])):
            if np.isnan(r["peaks"][k]).all():
                prow.append(None)
            else:
                prow.append(next((j for j, w in enumerate(labelled)
                                  if np.allclose(r["peaks"][k], w, atol=1e-3, equal_nan=True)), "?"))
        got.append([r["ix"][1], r["ix"][0], crow, prow])
    return got


def run_case(c, mods):
    sc = build_scene(c)
    n = len(c["frames"])
    ids = list(range(n))
    mi = c.get("max_instances")
    return {"ref": run_once(c, mods, sc, ids, 1, None), "single": run_once(c, mods, sc, ids, 1, mi),
            "batch": run_once(c, mods, sc, ids, n, mi), "perm": run_once(c, mods, sc, c["perm"], n, mi),
            "mid": run_once(c, mods, sc, ids, c["batch_mid"], mi)}


def evaluate(run, cases, mods, preamble):
    """impl runs + model + oracle + correspondence; returns (disagreements, stats)."""
    all_runs, terms, index = [], [], []
    sterms, sindex = [], []
    P = _P12()
    for ci, c in enumerate(cases):
        try:
            runs, err = run_case(c, mods), None
        except Exception as e:      # noqa
            import traceback
            runs, err = {}, f"{type(e).__name__}: {e} :: {traceback.format_exc()[-800:]}"
        all_runs.append((runs, err))
        if err:
            continue
        n = len(c["frames"])
        ids = list(range(n))
        ref = {r["fid"]: r for r in runs["ref"]["records"]}
        c["_ref"] = ref
        vals = [[x[2] for x in somes(r["row"])] for r in ref.values()]
        c["_tie"] = any(abs(a - b) < 1e-6 for v in vals for i, a in enumerate(v) for b in v[i + 1:])
        M = max(len(r["peaks"]) for r in ref.values())
        if len(ref) != n:
            continue
        for name, order, batch in (("single", ids, 1), ("batch", ids, n), ("perm", c["perm"], n), ("mid", ids, c["batch_mid"])):
            terms.append(term(c, runs[name], order, batch, c.get("max_instances"), M, ref))
            index.append((ci, name))
            sterms.append(P.eff_term(c, runs[name], order, batch))
            sindex.append((ci, name))
    model = core.coq_eval_sharded(preamble, terms, "run", "rresult", shard=60, jobs=12) if terms else []
    by_case = {}
    for ix, m in zip(index, model):
        by_case.setdefault(ix[0], []).append((ix[1], m))
    smodel = core.coq_eval_sharded(P.PREAMBLE_S, sterms, "srun", "rsres", shard=80, jobs=12) if sterms else []
    s_by_case = {}
    for ix, m in zip(sindex, smodel):
        s_by_case.setdefault(ix[0], []).append((ix[1], m))
    disagreements, ties = 0, 0
    n_ph = n_over = n_over_followed = 0
    for ci, c in enumerate(cases):
        runs, err = all_runs[ci]
        cj = case_json(c)
        if not err:
            n_ph += any(a.get("phantom") for fr in c["frames"] for a in fr)
            over = [r["fid"] for r in runs["batch"]["records"] if len(somes(r["row"])) > len(r["peaks"])]
            n_over += bool(over)
            seq = [(r["fid"], bool(somes(r["row"]))) for r in runs["batch"]["records"]]
            n_over_followed += any(f in over and any(ne for _, ne in seq[i + 1:]) for i, (f, _) in enumerate(seq))
        run.case(cj, nontrivial=any(not a.get("ghost") for fr in c["frames"] for a in fr))
        if err:
            run.violation("failing-input", {"case": cj, "impl_error": err})
            continue
        fails = oracle(c, runs)
        diffs = []
        if c.get("_tie"):
            ties += 1
        else:
            for name, m in by_case.get(ci, []):
                got = impl_ids(c, runs[name], c["_ref"])
                # the model's centroid row is padded like the implementation's; compare as is
                if got != [list(x) for x in m]:
                    diffs.append(f"run '{name}': impl {got} model {m}")
        for name, m in s_by_case.get(ci, []):
            diffs += P.cmp_entries(c, name, m, runs[name]["entries"])[:1]
        if diffs:
            disagreements += 1
            if disagreements <= 4:
                run.log(f"model/impl disagree on centroid-only case {c['idx']}: {diffs[:2]}")
        if fails:
            run.violation("failing-input", {"case": cj, "oracle": fails[:6], "correspondence": diffs[:3]})
        elif diffs:
            run.proof_broken.append(f"correspondence C12 centroid-only model vs implementation, case {json.dumps(cj)[:800]}: {diffs[:2]}")
    return disagreements, {"centroid_only_cases": len(cases), "centroid_only_equal_values_skipped": ties,
                           "centroid_only_cases_with_detected_but_unlabelled_centroids": n_ph,
                           "centroid_only_cases_with_more_matches_than_instance_rows": n_over,
                           "centroid_only_cases_overdetecting_frame_followed_by_nonempty_batch_mate": n_over_followed}


def replay_case(c, mods):
    fails = oracle(c, run_case(c, mods))
    print(json.dumps({"oracle": fails}, indent=1))
    return 1 if fails else 0
