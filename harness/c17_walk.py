"""C17 — the edge order USED FOR GROUPING (helper of harness/props/c17.py).

`toposort_edges` / `PAFScorer.sorted_edge_inds` being right is not enough: the
property speaks about the order in which grouping consumes the edges.  This
module runs `PAFScorer.group_instances` (synthetic matches) and
`PAFScorer.predict` (real part affinity fields) on generated BATCHES through
long-lived scorer objects, observes

  * the key order of the `connections` mapping handed to
    `assign_connections_to_instances` for every sample (recorder wrapped around
    the module-level function), and
  * the inputs of `group_instances_batch` (the matches the earlier stages made),

and checks, per sample,
  (oracle, Python)  every edge type that has an accepted match is walked exactly
      once with exactly its accepted connections, an edge is walked only after
      the edge into its source node when that edge has a match in the sample,
      and the final instances are the connected components of the accepted
      matches (order-independent specification; no peak of a matched connection
      is left out);
  (model, Coq)      the walked order == `walk_batch` (Walk.v, vm_compute) and
      `walk_ok` (Walk.v) accepts the observed order.
"""
from __future__ import annotations

import itertools
import math

MIPS = [0, 0, 0, 0, 1, 2, 0.5]
MLSS = [0.25, 0.25, 0.25, 0.0, 0.5]
ATOL, RTOL = 2e-5, 3e-4
H = W = 64


# ---------------------------------------------------------------- generators
def gen_skeletons(rng, rooted_trees, quick):
    """Every rooted labelled tree on 2..5 nodes; all listings up to 4 nodes, sampled listings for 5."""
    out = []
    for n in (2, 3, 4, 5):
        for _, es in rooted_trees(n):
            if n <= 4:
                perms = list(itertools.permutations(es))
            else:
                perms = []
                for _ in range(1 if quick else 4):
                    p = list(es)
                    rng.shuffle(p)
                    perms.append(tuple(p))
            for p in perms:
                out.append((n, [tuple(e) for e in p]))
    return out


def _detections(rng, n_nodes, style, n_animals):
    det = []
    for a in range(n_animals):
        st = style if style != "mix" else rng.choice(["full", "drop1", "dropmany"])
        if st == "full":
            d = [True] * n_nodes
        elif st == "drop1":
            d = [True] * n_nodes
            d[rng.randrange(n_nodes)] = False
        else:
            d = [rng.random() < 0.6 for _ in range(n_nodes)]
        det.append(d)
    return det


def _layout(rng, n_nodes, det, coord):
    """Flat peak list in a random channel interleaving; returns (peaks, rank[(animal, node)])."""
    labels = [(v, a) for a, d in enumerate(det) for v in range(n_nodes) if d[v]]
    rng.shuffle(labels)
    rank, cnt, peaks = {}, {}, []
    for v, a in labels:
        rank[(a, v)] = cnt.get(v, 0)
        cnt[v] = cnt.get(v, 0) + 1
        x, y = coord(a, v)
        peaks.append([v, x, y, rng.randrange(1, 65) / 64])
    return peaks, rank


def gen_sample_group(rng, n_nodes, edges, mls):
    style = rng.choice(["empty", "full", "full", "drop1", "drop1", "drop1", "dropmany", "mix", "mix"])
    if style == "empty":
        return {"style": style, "peaks": [], "matches": []}
    n_animals = rng.choice([1, 1, 1, 2, 2, 3])
    det = _detections(rng, n_nodes, style, n_animals)
    peaks, rank = _layout(rng, n_nodes, det,
                          lambda a, v: (a * 64 + v * 8 + 1 + rng.randrange(8) / 8, rng.randrange(0, 256) / 4))
    cross = rng.random() < 0.25
    plow = rng.choice([0.0, 0.0, 0.12, 0.3])
    matches = []
    for k, (u, v) in enumerate(edges):
        both = [a for a in range(n_animals) if det[a][u] and det[a][v]]
        dst = list(both)
        if cross and len(dst) > 1:
            rng.shuffle(dst)
        pairs = list(zip(both, dst))
        if cross:
            su = [a for a in range(n_animals) if det[a][u] and not det[a][v]]
            dv = [a for a in range(n_animals) if det[a][v] and not det[a][u]]
            if su and dv and rng.random() < 0.5:
                pairs.append((rng.choice(su), rng.choice(dv)))
        for a, b in pairs:
            if rng.random() < 0.08:
                continue                                   # the matcher found nothing for this pair
            if rng.random() < plow:
                sc = mls - rng.randrange(1, 5) / 16         # a match below min_line_scores: not accepted
            else:
                sc = min(1.0, mls + rng.randrange(0, 9) / 16)
            matches.append([k, rank[(a, u)], rank[(b, v)], sc])
    if rng.random() < 0.25:
        rng.shuffle(matches)
    return {"style": style, "peaks": peaks, "matches": matches}


def gen_sample_predict(rng, n_nodes, edges):
    style = rng.choice(["empty", "full", "full", "drop1", "drop1", "drop1", "dropmany", "mix"])
    if style == "empty":
        return {"style": style, "peaks": [], "animals": [], "blank": []}
    n_animals = rng.choice([1, 1, 2, 2, 3])
    det = _detections(rng, n_nodes, style, n_animals)
    pos = {}
    for a in range(n_animals):
        for v in range(n_nodes):
            pos[(a, v)] = (5 + 10 * v + rng.randrange(0, 9) / 4, 4 + 20 * a + 5 * ((v * v) % 3) + rng.randrange(0, 9) / 4)
    peaks, _ = _layout(rng, n_nodes, det, lambda a, v: pos[(a, v)])
    animals = [[list(pos[(a, v)]) for v in range(n_nodes)] for a in range(n_animals)]
    blank = [k for k in range(len(edges)) if rng.random() < 0.1]      # edge types whose field is missing in this frame
    return {"style": style, "peaks": peaks, "animals": animals, "blank": blank}


def gen_cases(rng, rooted_trees, quick):
    skels = gen_skeletons(rng, rooted_trees, quick)
    cases = []
    for q, (n, es) in enumerate(skels):
        n_nodes = n + (1 if rng.random() < 0.1 else 0)          # sometimes a part that occurs in no edge
        mls = rng.choice(MLSS)
        c = {"stream": "group", "n_nodes": n_nodes, "edges": [list(e) for e in es],
             "via": "from_config" if q % 2 else "init", "mip": rng.choice(MIPS), "mls": mls, "batches": []}
        for _ in range(rng.choice([1, 1, 2])):
            nb = rng.choice([1, 2, 2, 3, 3, 4])
            c["batches"].append([gen_sample_group(rng, n_nodes, es, mls) for _ in range(nb)])
        cases.append(c)
    pool = [s for s in skels if s[0] >= 3]
    for q in range(170 if quick else 900):
        n, es = rng.choice(pool)
        c = {"stream": "predict", "n_nodes": n, "edges": [list(e) for e in es],
             "via": "from_config" if q % 2 else "init", "mip": rng.choice(MIPS), "mls": 0.25, "batches": []}
        for _ in range(rng.choice([1, 1, 2])):
            nb = rng.choice([2, 2, 3, 4])
            c["batches"].append([gen_sample_predict(rng, n, es) for _ in range(nb)])
        cases.append(c)
    return cases


# ---------------------------------------------------------------- implementation side
class Recorder:
    """Wraps paf_grouping.assign_connections_to_instances / group_instances_batch (module globals, looked up
    at call time by group_instances_sample / PAFScorer.group_instances) and records what they receive."""

    def __init__(self, pg):
        self.pg = pg
        self.walks = []
        self.batch_inputs = []

    def __enter__(self):
        pg = self.pg
        self._assign, self._batch = pg.assign_connections_to_instances, pg.group_instances_batch

        def assign(connections, *a, **kw):
            self.walks.append([((int(et.src_node_ind), int(et.dst_node_ind)),
                                [(int(c.src_peak_ind), int(c.dst_peak_ind), float(c.score)) for c in conns])
                               for et, conns in connections.items()])
            return self._assign(connections, *a, **kw)

        def batch(peaks, peak_vals, peak_channel_inds, match_edge_inds, match_src_peak_inds, match_dst_peak_inds,
                  match_line_scores, *a, **kw):
            n = peaks.size(0)
            self.batch_inputs.append([
                {"peaks": [[int(c), float(p[0]), float(p[1]), float(v)] for c, p, v in
                           zip(peak_channel_inds[s].tolist(), peaks[s].tolist(), peak_vals[s].tolist())],
                 "matches": [[int(k), int(i), int(j), float(x)] for k, i, j, x in
                             zip(match_edge_inds[s].tolist(), match_src_peak_inds[s].tolist(),
                                 match_dst_peak_inds[s].tolist(), match_line_scores[s].tolist())]}
                for s in range(n)])
            return self._batch(peaks, peak_vals, peak_channel_inds, match_edge_inds, match_src_peak_inds,
                               match_dst_peak_inds, match_line_scores, *a, **kw)

        pg.assign_connections_to_instances, pg.group_instances_batch = assign, batch
        return self

    def __exit__(self, *exc):
        self.pg.assign_connections_to_instances, self.pg.group_instances_batch = self._assign, self._batch
        return False


def make_scorer(c, pg):
    n = c["n_nodes"]
    names = [f"p{i}" for i in range(n)]
    named = [(names[u], names[v]) for u, v in c["edges"]]
    kw = dict(max_edge_length_ratio=1.0, dist_penalty_weight=1.0, n_points=10, min_instance_peaks=c["mip"],
              min_line_scores=c["mls"])
    if c["via"] == "from_config":
        from omegaconf import OmegaConf
        cfg = OmegaConf.create({"confmaps": {"part_names": names},
                                "pafs": {"edges": [list(e) for e in named], "output_stride": 1}})
        return pg.PAFScorer.from_config(cfg, **kw)
    return pg.PAFScorer(part_names=names, edges=named, pafs_stride=1, **kw)


def make_pafs(c, batch, torch, np):
    """Unit vectors along every edge of every animal in a band of half-width 1.5 px (channels 2k, 2k+1)."""
    ne = len(c["edges"])
    out = np.zeros((len(batch), H, W, 2 * ne), dtype="float32")
    yy, xx = np.mgrid[0:H, 0:W].astype("float64")
    for b, s in enumerate(batch):
        for animal in s["animals"]:
            for k, (u, v) in enumerate(c["edges"]):
                if k in s["blank"]:
                    continue
                (x0, y0), (x1, y1) = animal[u], animal[v]
                dx, dy = x1 - x0, y1 - y0
                ln = math.hypot(dx, dy)
                t = np.clip(((xx - x0) * dx + (yy - y0) * dy) / (ln * ln), 0, 1)
                near = np.hypot(xx - (x0 + t * dx), yy - (y0 + t * dy)) <= 1.5
                out[b, near, 2 * k] = dx / ln
                out[b, near, 2 * k + 1] = dy / ln
    return torch.tensor(out)


def _nest(torch, rows, dtype, shape=None):
    ts = []
    for r in rows:
        t = torch.tensor(r, dtype=dtype)
        ts.append(t.reshape(shape) if shape else t.reshape(-1))
    return torch.nested.nested_tensor(ts)


def run_batch(c, batch, scorer, pg, torch, np):
    """One call of the implementation on one batch.  Returns a result dict (or {'err': kind})."""
    peaks = _nest(torch, [[[p[1], p[2]] for p in s["peaks"]] for s in batch], torch.float32, (-1, 2))
    vals = _nest(torch, [[p[3] for p in s["peaks"]] for s in batch], torch.float32)
    chans = _nest(torch, [[p[0] for p in s["peaks"]] for s in batch], torch.int32)
    with Recorder(pg) as rec:
        try:
            if c["stream"] == "group":
                out = scorer.group_instances(
                    peaks, vals, chans,
                    _nest(torch, [[m[0] for m in s["matches"]] for s in batch], torch.int32),
                    _nest(torch, [[m[1] for m in s["matches"]] for s in batch], torch.int32),
                    _nest(torch, [[m[2] for m in s["matches"]] for s in batch], torch.int32),
                    _nest(torch, [[m[3] for m in s["matches"]] for s in batch], torch.float32))
            else:
                out = scorer.predict(make_pafs(c, batch, torch, np), peaks, vals, chans)
        except Exception as e:                                        # noqa: BLE001
            return {"err": f"{type(e).__name__}: {e}"[:300], "walks": rec.walks}
    res = {"walks": rec.walks, "inputs": rec.batch_inputs, "out": []}
    for b in range(len(batch)):
        inst, ps, isc = np.asarray(out[0][b]), np.asarray(out[1][b]), np.asarray(out[2][b])
        rows = []
        for i in range(inst.shape[0]):
            row = []
            for j in range(inst.shape[1]):
                x, y, v = float(inst[i, j, 0]), float(inst[i, j, 1]), float(ps[i, j])
                row.append(None if (x != x and y != y and v != v) else [x, y, v])
            rows.append(row)
        res["out"].append([rows, [float(x) for x in isc.tolist()]])
    return res


# ---------------------------------------------------------------- the property, executable (independent of Coq)
def threshold(mip, n_nodes):
    if not mip > 0:
        return None
    return int(mip * n_nodes) if isinstance(mip, float) else mip


def close(a, b):
    return abs(a - b) <= ATOL + RTOL * abs(b)


def accepted(matches, mls):
    return [m for m in matches if m[3] == m[3] and m[3] >= mls]


def walked_present(c, walk):
    """Edge indices, in walked order, of the keys that carry at least one connection (None: unknown edge type)."""
    es = [tuple(e) for e in c["edges"]]
    return [es.index(et) if et in es else None for et, conns in walk if conns]


def oracle_walk(c, sample_in, walk):
    es = [tuple(e) for e in c["edges"]]
    acc = accepted(sample_in["matches"], c["mls"])
    present = sorted({m[0] for m in acc})
    keys = [et for et, _ in walk]
    if len(set(keys)) != len(keys):
        return "an edge type is walked twice"
    order = []
    for et, conns in walk:
        if et not in es:
            if conns:
                return f"walked edge type {et} is not an edge of the skeleton"
            continue
        k = es.index(et)
        want = sorted((m[1], m[2]) for m in acc if m[0] == k)
        got = sorted((s, d) for s, d, _ in conns)
        if want != got:
            return (f"edge {k}={et}: connections walked {got} are not the accepted matches {want} of that edge type "
                    f"(every edge type that has connections must be walked exactly once)")
        for s, d, x in conns:
            w = [m[3] for m in acc if m[0] == k and m[1] == s and m[2] == d][0]
            if not close(x, w):
                return f"edge {k}={et}: connection score {x} != match score {w}"
        if conns:
            order.append(k)
    if sorted(order) != present:
        return f"edge types with accepted matches {present} are not walked exactly once (walked: {order})"
    into = {v: k for k, (_, v) in enumerate(es)}
    pos = {k: i for i, k in enumerate(order)}
    for k in order:
        pj = into.get(es[k][0])
        if pj is not None and pj in pos and pos[pj] > pos[k]:
            return (f"edge {k}={es[k]} is walked before edge {pj}={es[pj]} leading into its source node "
                    f"(walked order {order})")
    return None


def oracle_instances(c, sample_in, out):
    """Instances == connected components of the accepted matches that survive the size filter; every keypoint is
    the input peak of its node type; instance score == sum of the accepted edge scores."""
    es = [tuple(e) for e in c["edges"]]
    n_nodes = c["n_nodes"]
    by_node = {}
    for ch, x, y, v in sample_in["peaks"]:
        by_node.setdefault(ch, []).append([x, y, v])
    parent = {}

    def find(p):
        while parent.setdefault(p, p) != p:
            parent[p] = parent[parent[p]]
            p = parent[p]
        return p
    acc = accepted(sample_in["matches"], c["mls"])
    for k, i, j, x in acc:
        u, v = es[k]
        if i >= len(by_node.get(u, [])) or j >= len(by_node.get(v, [])):
            return f"match {(k, i, j)} refers to a peak that does not exist"
        parent[find((u, i))] = find((v, j))
    comps = {}
    for p in list(parent):
        comps.setdefault(find(p), {"peaks": [], "score": 0.0})["peaks"].append(p)
    for k, i, j, x in acc:
        comps[find((es[k][0], i))]["score"] += x
    thr = threshold(c["mip"], n_nodes)
    want = []
    for cmp_ in comps.values():
        if thr is not None and len(cmp_["peaks"]) < thr:
            continue
        row = [None] * n_nodes
        for node, rk in cmp_["peaks"]:
            if row[node] is not None:
                return None          # outside the domain (matches not one-to-one): no expectation
            row[node] = by_node[node][rk]
        want.append((row, cmp_["score"]))
    got = [(r, s) for r, s in zip(out[0], out[1])]
    key = lambda rs: [[-1e9, 0, 0] if p is None else p for p in rs[0]]
    want.sort(key=key)
    got.sort(key=key)
    if len(want) != len(got):
        return (f"{len(got)} instances returned, the accepted matches have {len(want)} connected components "
                f"(after the size filter)")
    for (wr, ws), (gr, gs) in zip(want, got):
        if wr != gr:
            miss = [j for j in range(n_nodes) if wr[j] is not None and gr[j] is None]
            return (f"instance {gr} is not a connected component of the accepted matches (expected {wr})"
                    + (f"; body parts {miss} were left ungrouped" if miss else ""))
        if not close(gs, ws):
            return f"instance score {gs} != sum of the accepted edge scores {ws}"
    return None


def judge_batch(c, batch, res):
    """Per sample: (sample_inputs, walk, oracle failure or None).  A structural problem of the observation
    itself is returned as ('obs', text)."""
    nb = len(batch)
    if "err" in res:
        # the walks recorded before the exception tell which sample it was and what was wrong with its order
        walks = res.get("walks") or []
        b = max(len(walks) - 1, 0)
        why = f"grouping raised {res['err']}"
        if c["stream"] == "group" and walks and len(walks) <= nb:
            sin = {"peaks": batch[b]["peaks"], "matches": batch[b]["matches"]}
            bad = oracle_walk(c, sin, walks[b])
            return [("fail", b, sin, walks[b], why + (f" in sample {b}; {bad}" if bad else f" in sample {b}"))]
        return [("fail", b, None, None, why)]
    if c["stream"] == "group":
        ins = [{"peaks": s["peaks"], "matches": s["matches"]} for s in batch]
    else:
        if len(res["inputs"]) != 1 or len(res["inputs"][0]) != nb:
            return [("obs", 0, None, None, f"group_instances_batch was entered {len(res['inputs'])} times for one "
                                            f"predict call on {nb} samples")]
        ins = res["inputs"][0]
    if len(res["walks"]) != nb:
        return [("obs", 0, None, None, f"assign_connections_to_instances was entered {len(res['walks'])} times "
                                        f"for a batch of {nb} samples")]
    out = []
    for b in range(nb):
        bad = oracle_walk(c, ins[b], res["walks"][b]) or oracle_instances(c, ins[b], res["out"][b])
        out.append(("fail" if bad else "ok", b, ins[b], res["walks"][b], bad))
    return out


# ---------------------------------------------------------------- Coq side
def clist(xs, f=str):
    return "[" + "; ".join(f(x) for x in xs) + "]"


def model_term(c, items):
    """items: [(present, observed order)] for every sample of every batch of the case."""
    es = clist(c["edges"], lambda e: f"({e[0]},{e[1]})")
    return f"({es}, {clist(items, lambda po: '(' + clist(po[0]) + ', ' + clist(po[1]) + ')')})"


# ---------------------------------------------------------------- replay of one case
def replay_case(c, pg, torch, np):
    scorer = make_scorer(c, pg)
    bad = []
    for bi, batch in enumerate(c["batches"]):
        res = run_batch(c, batch, scorer, pg, torch, np)
        for kind, b, _, walk, why in judge_batch(c, batch, res):
            if kind != "ok":
                bad.append({"batch": bi, "sample": b, "why": why,
                            "walked": None if walk is None else walked_present(c, walk)})
    return bad
