"""Ramp images + stub network for the end-to-end bottom-up runs of C03.

"The network outputs the ideal maps for the frame it is given" is made literal:

* a test frame is a 3-channel *ramp image*  R = x/K, G = y/K, B = 1 (valid mask);
  linear ramps survive bilinear (antialiased) resizing and zero padding;
* the frame is preprocessed with the repo's own functions in the order of
  `Predictor._predict_generator` (apply_sizematcher -> resize_image(scale) ->
  apply_pad_to_stride);
* the stub `torch_model` never sees scales, strides-to-original or offsets: it fits
  the affine map "network-input pixel -> original coordinate" from the pixels it
  receives, maps the ground-truth keypoints into its own input frame and returns
  the repo's own target generators (`generate_multiconfmaps`, `generate_pafs`,
  covered by C01/C05) evaluated at those positions.

Registration convention (`registration`):
  "target"  : p' = p / slope      — the convention of the training targets
              (`instances * eff_scale`, `apply_resizer: instances * scale`): this is
              what "ideal maps for a frame" means for a network trained by this repo;
  "content" : p' = (p - offset) / slope — where the image content really is after
              half-pixel-centre resizing (differs by the C04/F11 registration term).
"""
from __future__ import annotations

import numpy as np

K_RAMP = 512.0


def ramp_image(torch, H: int, W: int):
    """(1, 3, H, W) float32 image: R = x/K, G = y/K, B = 1."""
    xs = torch.arange(W, dtype=torch.float32) / K_RAMP
    ys = torch.arange(H, dtype=torch.float32) / K_RAMP
    img = torch.ones((1, 3, H, W), dtype=torch.float32)
    img[0, 0] = xs.view(1, W).expand(H, W)
    img[0, 1] = ys.view(H, 1).expand(H, W)
    return img


def preprocess(torch, resizing, img, max_h, max_w, scale, max_stride):
    """The preprocessing of Predictor._predict_generator (preprocess=True) with
    the repo's own functions.  Returns (image (1,3,H_in,W_in), eff_scale)."""
    img, eff = resizing.apply_sizematcher(img, max_h, max_w)
    if scale != 1.0:
        img = resizing.resize_image(img, scale)
    img = resizing.apply_pad_to_stride(img, max_stride)
    return img, eff


def fit_axis(vals: np.ndarray, mask: np.ndarray):
    """Least-squares line through vals[i] ~ a*i + b over the eroded valid run
    (float64).  Returns (a, b, n_used)."""
    idx = np.nonzero(mask)[0]
    if len(idx) < 6:
        raise ValueError("stub: too few valid pixels to fit the ramp")
    idx = idx[2:-2]                           # erode: border pixels of a resize are blends
    a, b = np.polyfit(idx.astype(np.float64), vals[idx].astype(np.float64), 1)
    return float(a), float(b), len(idx)


def fit_affine(image):
    """image: (3,H,W) tensor.  Returns ((ax,bx),(ay,by)): original = a*pixel + b."""
    arr = image.detach().cpu().numpy().astype(np.float64)
    valid = arr[2] > 0.999
    rows = np.nonzero(valid.any(axis=1))[0]
    cols = np.nonzero(valid.any(axis=0))[0]
    if len(rows) < 6 or len(cols) < 6:
        raise ValueError("stub: valid region too small")
    r0, r1 = rows[2], rows[-3]
    c0, c1 = cols[2], cols[-3]
    # R depends on the column only (inside the valid region): average interior rows
    xprof = arr[0, r0:r1 + 1, :].mean(axis=0) * K_RAMP
    yprof = arr[1, :, c0:c1 + 1].mean(axis=1) * K_RAMP
    colmask = valid[r0:r1 + 1, :].all(axis=0)
    rowmask = valid[:, c0:c1 + 1].all(axis=1)
    ax, bx, _ = fit_axis(xprof, colmask)
    ay, by, _ = fit_axis(yprof, rowmask)
    return (ax, bx), (ay, by)


def make_stub(torch, confidence_maps, edge_maps, *, truths, n_nodes, edge_inds, cms_stride, paf_stride,
              sigma_cms, sigma_paf, registration="target", record=None):
    """A torch.nn.Module whose forward(images) returns the ideal bottom-up maps
    for the ground truth `truths[b]` ((n_inst, n_nodes, 2) float tensors in
    ORIGINAL image coordinates, NaN = missing) of the b-th image of the batch.

    What belongs to the FRAME (truths, sigmas, registration, record) is held in the mutable dict
    `net.frame`, so that ONE stub (inside one long-lived BottomUpInferenceModel) can be given the
    next frame with `net.set_frame(...)`; what belongs to the MODEL (skeleton, strides) is fixed."""

    edge_t = torch.tensor(edge_inds, dtype=torch.int32).reshape(-1, 2)

    class Stub(torch.nn.Module):
        def __init__(self):
            super().__init__()
            self.frame = {}
            self.set_frame(truths=truths, sigma_cms=sigma_cms, sigma_paf=sigma_paf,
                           registration=registration, record=record)

        def set_frame(self, *, truths, sigma_cms, sigma_paf, registration="target", record=None):
            self.frame = {"truths": truths, "sigma_cms": sigma_cms, "sigma_paf": sigma_paf,
                          "registration": registration, "record": record}

        def forward(self, images):
            fr = self.frame
            if images.dim() == 5:
                images = images[:, 0]
            B, _, H, W = images.shape
            cms_all, pafs_all = [], []
            for b in range(B):
                (ax, bx), (ay, by) = fit_affine(images[b])
                gt = fr["truths"][b].to(torch.float64)
                if fr["registration"] == "content":
                    px = (gt[..., 0] - bx) / ax
                    py = (gt[..., 1] - by) / ay
                else:
                    px = gt[..., 0] / ax
                    py = gt[..., 1] / ay
                pts = torch.stack([px, py], dim=-1).to(torch.float32).unsqueeze(0)   # (1, n_inst, n_nodes, 2)
                if fr["record"] is not None:
                    fr["record"].append({"ax": ax, "bx": bx, "ay": ay, "by": by, "H": H, "W": W,
                                         "pts": pts[0].clone()})
                cms = confidence_maps.generate_multiconfmaps(
                    pts.clone(), (H, W), pts.shape[1], fr["sigma_cms"], cms_stride, False)
                pafs = edge_maps.generate_pafs(
                    pts.clone(), (H, W), fr["sigma_paf"], paf_stride, edge_t, True)
                cms_all.append(cms[0] if cms.dim() == 4 else cms)
                pafs_all.append(pafs)
            return {"MultiInstanceConfmapsHead": torch.stack(cms_all, 0),
                    "PartAffinityFieldsHead": torch.stack(pafs_all, 0)}

    return Stub()
