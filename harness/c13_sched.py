"""C13 — deterministic scheduling of the REAL reader thread and consumer loop.

The real `VideoReader.run` / `LabelsReader.run` (producer thread "P") and the real
`Predictor._predict_generator` (consumer thread "C") are executed under a
*controller*: both threads stop ("park") at every scheduling point

    P: before each frame read (`video[idx]` / `labels[idx]`), before each `frame_buffer.put`
    C: before each `frame_buffer.get`, before `pipeline.join()`

and the controller (the calling thread) repeatedly waits until every live thread
is parked, computes which of them are *enabled* (a put on a full queue, a get on
an empty queue and a join of a live thread are not), picks one according to a
prescribed choice word over {P, C} (consulted only when both are enabled) and
lets it run to its next scheduling point.  No thread ever blocks inside
`queue.Queue`; a state with a live thread and nobody enabled is reported as a
deadlock at once; a thread that fails to come back within the watchdog time is
reported as a hang.  All threads are daemon threads and are aborted (by a
BaseException raised at their scheduling point) before `run_schedule` returns.

Nothing in this file imports sleap_nn at module import time.
"""
from __future__ import annotations

import queue
import threading
import time

WATCHDOG_S = 20.0
MAX_STEPS = 4000        # scheduling steps per execution (the proved bound is 4(end-start)+8 LTS steps)


class Abort(BaseException):
    """Raised inside a controlled thread at its scheduling point to end a run."""


class Controller:
    def __init__(self, choices: str, default: str = "P"):
        self.cv = threading.Condition()
        self.pending: dict[str, tuple | None] = {}     # tid -> declared next operation while parked
        self.live: dict[str, bool] = {}                # tid -> registered and not finished
        self.turn: str | None = None
        self.abort = False
        self.choices = choices
        self.default = default
        self.taken: list[str] = []          # the letters actually used at choice points
        self.n_choice_points = 0
        self.trace: list[list] = []         # observable events, in execution order
        self.errors: dict[str, str] = {}    # tid -> repr of an exception that escaped the thread
        self.queue_ref = None
        self.coarse_states: list = []       # queue length at every decision (evidence only)
        # fairness for polling code: a non-blocking / timed put or get that failed (Full / Empty) is not
        # scheduled again until the shared state has changed (a put, a get or a thread ending), i.e. a
        # timeout is allowed to expire once per state, not for ever while the other thread is starved
        self.version = 0
        self.timed_out_at: dict[str, int] = {}
        self.steps = 0

    # ---- called from the controlled threads --------------------------------
    def register(self, tid: str):
        with self.cv:
            self.live[tid] = True
            self.pending[tid] = None
            self.cv.notify_all()

    def finished(self, tid: str, err: BaseException | None = None):
        with self.cv:
            self.live[tid] = False
            self.pending[tid] = None
            if err is not None and not isinstance(err, Abort):
                self.errors[tid] = f"{type(err).__name__}: {err}"
            if self.turn == tid:
                self.turn = None
            self.version += 1
            self.cv.notify_all()

    def park(self, tid: str, op: tuple):
        """Declare the next operation and wait for the turn."""
        with self.cv:
            if self.abort:
                raise Abort()
            self.pending[tid] = op
            if self.turn == tid:
                self.turn = None
            self.cv.notify_all()
            ok = self.cv.wait_for(lambda: self.turn == tid or self.abort, timeout=WATCHDOG_S * 3)
            if self.abort or not ok:
                raise Abort()
            self.pending[tid] = None

    def event(self, *ev):
        self.trace.append(list(ev))
        if ev and ev[0] in ("put", "get"):
            self.version += 1

    def timed_out(self, tid: str):
        self.timed_out_at[tid] = self.version

    # ---- enabledness ----------------------------------------------------------
    def _enabled(self, tid: str) -> bool:
        op = self.pending[tid]
        q = self.queue_ref
        if op is None:
            return False
        if op[0] == "put":
            if q.maxsize <= 0 or q.qsize() < q.maxsize:
                return True
            return (not op[2]) and self.timed_out_at.get(tid) != self.version
        if op[0] == "get":
            if q.qsize() > 0:
                return True
            return (not op[2]) and self.timed_out_at.get(tid) != self.version
        if op[0] == "join":
            return not self.live.get("P", False)
        return True     # read

    # ---- the controller loop (calling thread) -----------------------------------
    def drive(self) -> str:
        """Returns 'ok' | 'deadlock' | 'hang'."""
        deadline = time.time() + WATCHDOG_S
        status = "ok"
        while True:
            with self.cv:
                settled = self.cv.wait_for(
                    lambda: self.turn is None and all((not lv) or self.pending[t] is not None
                                                      for t, lv in self.live.items()),
                    timeout=max(0.0, deadline - time.time()))
                if not settled:
                    status = "hang"
                    break
                alive = [t for t, lv in self.live.items() if lv]
                if not alive:
                    break
                en = sorted(t for t in alive if self._enabled(t))
                if not en:
                    status = "deadlock"
                    break
                if len(en) == 1:
                    pick = en[0]
                else:
                    k = self.n_choice_points
                    pick = self.choices[k] if k < len(self.choices) else self.default
                    self.n_choice_points += 1
                    self.taken.append(pick)
                self.turn = pick
                self.steps += 1
                if self.steps > MAX_STEPS:
                    status = "livelock"
                    break
                deadline = time.time() + WATCHDOG_S
                self.cv.notify_all()
        self.stuck = {t: self.pending.get(t) for t, lv in self.live.items() if lv}
        with self.cv:
            self.abort = True
            self.cv.notify_all()
        return status


class SchedQueue(queue.Queue):
    """The frame buffer handed to the reader: a real bounded `queue.Queue` whose
    put/get first obtain a turn from the controller and record what passed."""

    def __init__(self, maxsize: int, ctl: Controller, describe):
        super().__init__(maxsize=maxsize)
        self.ctl = ctl
        self.describe = describe          # item -> JSON-able description
        ctl.queue_ref = self

    def put(self, item, block=True, timeout=None):
        d = self.describe(item)
        # a non-blocking / timed put is always enabled: on a full queue it raises queue.Full
        # (the adversarial schedule lets the timeout expire)
        waits = bool(block) and timeout is None
        self.ctl.park("P", ("put", d, waits))
        # enabled => not full (when waiting); never block for real
        try:
            super().put(item, block=False)
        except queue.Full:
            self.ctl.timed_out("P")
            raise
        self.ctl.event("put", d)

    def get(self, block=True, timeout=None):
        waits = bool(block) and timeout is None
        self.ctl.park("C", ("get", None, waits))
        try:
            item = super().get(block=False)
        except queue.Empty:
            self.ctl.timed_out("C")
            self.ctl.event("get_timeout")
            raise
        self.ctl.event("get", self.describe(item))
        return item


class PollingQueue(SchedQueue):
    """Harness-side polling consumers around the REAL `_predict_generator` (which calls a blocking
    `get()`): the blocking get is performed as a retry loop of timed gets under the controller.
      giveup=False  `except Empty: continue`                       (Poll.v: Polling — correct)
      giveup=True   `except Empty: if not reader.is_alive(): return {"image": None}`
                                                                    (Poll.v: GiveUp — the race of C13_m4)
    Used for the polling stream and the positive control of the exploration order."""

    def __init__(self, maxsize, ctl, describe, giveup=False):
        super().__init__(maxsize, ctl, describe)
        self.giveup = giveup
        self.reader = None

    def get(self, block=True, timeout=None):
        if not (block and timeout is None):
            return SchedQueue.get(self, block, timeout)
        while True:
            try:
                return SchedQueue.get(self, True, 1.0)
            except queue.Empty:
                if self.giveup and not self.reader.is_alive():
                    return {"image": None}


def describe_item(item):
    """What the consumer can see of a queue item: sentinel, or (frame_idx, orig_size)."""
    if not isinstance(item, dict) or "image" not in item:
        return {"other": repr(item)[:80]}
    if item["image"] is None:
        return {"sentinel": True, "all_none": all(v is None for v in item.values())}
    return {"frame_idx": int(item["frame_idx"]), "size": [int(x) for x in item["orig_size"].tolist()],
            "video_idx": int(item["video_idx"])}


# ----------------------------------------------------------------------------
# fake data sources (duck-typed: exactly what the readers touch)

class ReadFault(RuntimeError):
    pass


def frame_size(i: int):
    """Every frame has its own size so that `orig_size` identifies it."""
    return 2 + (i % 3), 2 + (i % 5)


def frame_label(i: int) -> int:
    """LabelsReader reports lf.frame_idx (not the position); make them differ."""
    return 7 * i + 3


class FakeVideo:
    def __init__(self, n_total: int, fault, ctl: Controller):
        import numpy as np
        self.np = np
        self.shape = (n_total, 4, 6, 1)
        self.fault = fault
        self.ctl = ctl

    def __getitem__(self, idx):
        self.ctl.park("P", ("read", int(idx)))
        if not 0 <= idx < self.shape[0]:
            # like a real sio.Video (HDF5Video both ways, MediaVideo past the end): "Frame index N out of range."
            # (the check replays this on a real video every run: props/c13.py real_video_fidelity)
            self.ctl.event("read_fail", int(idx))
            raise IndexError(f"Frame index {idx} out of range.")
        if self.fault is not None and idx == self.fault:
            self.ctl.event("read_fail", int(idx))
            raise ReadFault(f"cannot decode frame {idx}")
        self.ctl.event("read_ok", int(idx))
        h, w = frame_size(int(idx))
        return self.np.full((h, w, 1), int(idx) % 251, dtype="uint8")


VID_PATTERN = [1, 0, 0, 2, 1, 2, 0]


def vid_of(i: int, n_videos: int) -> int:
    """Which video of a multi-video Labels the labelled frame at position i belongs to."""
    return VID_PATTERN[i % len(VID_PATTERN)] % n_videos


def vid_shape(v: int):
    return (1, 4 + v, 6 + 2 * ((v + 1) % 3), 1)


class _FakeInst:
    def __init__(self, np, i, empty=False):
        self.is_empty = empty
        self._a = np.array([[float(i), 1.0], [2.0, float(i) + 3.0]], dtype="float32")
        if empty:
            self._a = self._a * np.nan

    def numpy(self):
        return self._a


class _FakeLF:
    def __init__(self, owner, i):
        self.owner, self.i = owner, i
        self.frame_idx = frame_label(i)
        self.video = owner.videos[vid_of(i, len(owner.videos))]
        # one animal per frame (used when instances_key=True); a "bare" frame has no non-empty instance
        if i in owner.bare:
            self.instances = [_FakeInst(owner.np, i, empty=True)] if i % 2 else []
        elif owner.multi and i % 3 == 2:
            self.instances = [_FakeInst(owner.np, i), _FakeInst(owner.np, i + 100)]     # max_instances = 2: NaN padding elsewhere
        else:
            self.instances = [_FakeInst(owner.np, i)]

    @property
    def image(self):
        o = self.owner
        if o.fault is not None and self.i == o.fault and o.fault_in_image:
            o.ctl.event("read_fail", self.i)
            raise ReadFault(f"cannot decode image of labelled frame {self.i}")
        o.ctl.event("read_ok", self.i)
        h, w = frame_size(self.i)
        return o.np.full((h, w, 1), self.i % 251, dtype="uint8")

    def __iter__(self):
        return iter(self.instances)


class _FakeVid:
    def __init__(self, v=0):
        self.shape = vid_shape(v)


class _FakeNodes:
    nodes = ["a", "b"]


class FakeLabels:
    """labels[idx] is a scheduling point; the fault is raised either by labels[idx]
    or by lf.image (fault_in_image)."""

    def __init__(self, n: int, fault, ctl: Controller, fault_in_image: bool, n_videos: int = 1, bare=(),
                 multi: bool = False):
        import numpy as np
        self.np = np
        self.n, self.fault, self.ctl, self.fault_in_image = n, fault, ctl, fault_in_image
        self.videos = [_FakeVid(v) for v in range(n_videos)]
        self.bare = set(bare)
        self.multi = multi
        self.skeletons = [_FakeNodes()]

    def __len__(self):
        return self.n

    def __iter__(self):                       # used by get_max_instances in the constructor: no fault, no turn
        return iter([_FakeLF(self, i) for i in range(self.n)])

    def __getitem__(self, idx):
        self.ctl.park("P", ("read", int(idx)))
        if self.fault is not None and idx == self.fault and not self.fault_in_image:
            self.ctl.event("read_fail", int(idx))
            raise ReadFault(f"cannot load labelled frame {idx}")
        return _FakeLF(self, int(idx))


# ----------------------------------------------------------------------------
# the real classes, minimally subclassed (run / _predict_generator are the repo's)

_CLASSES = {}


def repo_classes():
    if _CLASSES:
        return _CLASSES
    import attrs
    from sleap_nn.data.providers import VideoReader, LabelsReader
    from sleap_nn.inference.predictors import Predictor
    from threading import Thread

    def controlled(base):
        class Controlled(base):
            def _sv_init(self, ctl):
                self._sv_ctl = ctl
                self.daemon = True

            def start(self):
                self._sv_ctl.register("P")
                self._sv_ctl.event("start")
                Thread.start(self)

            def run(self):
                err = None
                try:
                    base.run(self)            # the repo's run()
                except BaseException as e:    # noqa: BLE001
                    err = e
                finally:
                    self._sv_ctl.finished("P", err)

            def join(self, timeout=None):
                self._sv_ctl.park("C", ("join",))
                Thread.join(self, timeout=WATCHDOG_S)
                self._sv_ctl.event("join", not Thread.is_alive(self))

            def is_alive(self):
                # a scheduling point of its own (code that polls the reader's liveness races with the
                # reader's last puts); answered from the controller's view of the reader
                import threading
                if threading.current_thread() is not self and self._sv_ctl.live.get("C", False):
                    self._sv_ctl.park("C", ("alive",))
                    a = bool(self._sv_ctl.live.get("P", False))
                    self._sv_ctl.event("alive", a)
                    return a
                return Thread.is_alive(self)
        Controlled.__name__ = "Controlled" + base.__name__
        return Controlled

    @attrs.define
    class StubPredictor(Predictor):
        """Concrete Predictor: everything abstract is trivial, `_predict_generator` is inherited."""

        @classmethod
        def from_trained_models(cls, *a, **k):
            raise NotImplementedError

        @property
        def data_config(self):
            return None

        def make_pipeline(self, *a, **k):
            raise NotImplementedError

        def _initialize_inference_model(self):
            raise NotImplementedError

        def _make_labeled_frames_from_generator(self, generator):
            raise NotImplementedError

    _CLASSES.update(VideoReader=controlled(VideoReader), LabelsReader=controlled(LabelsReader),
                    Predictor=StubPredictor)
    return _CLASSES


def stub_inference_model(ex):
    """One output dict per batch: what the consumer saw."""
    out = {"frame_idx": ex["frame_idx"], "orig_size": ex["orig_size"], "video_idx": ex["video_idx"],
           "n_img": ex["image"].shape[0]}
    if "instances" in ex:
        # x / y of the first keypoint of the frame's animal = its position (both are scaled by eff_scale)
        if ex["instances"].shape[2] == 0:      # no frame of the labels lists an instance: max_instances = 0
            import torch
            out["inst0"] = torch.full((ex["instances"].shape[0],), float("nan"))
        else:
            out["inst0"] = ex["instances"][:, 0, 0, 0, 0] / ex["instances"][:, 0, 0, 0, 1]
        # rows of the instance tensor and how many of them are not NaN padding
        out["inst_rows"] = [int(ex["instances"].shape[2])] * int(ex["instances"].shape[0])
        out["inst_real"] = (~ex["instances"][:, 0, :, 0, 0].isnan()).sum(dim=1)
    return [out]


def run_schedule(reader: str, start: int, end: int, cap: int, batch: int, fault, choices: str,
                 default: str = "P", fault_in_image: bool = False, defaults: bool = False,
                 instances_key: bool = False, yield_point: bool = False, ctor: str = "direct",
                 args=None, n_videos: int = 1, bare=(), poll: str = "none", infer_raises_at=None,
                 multi_inst: bool = False) -> dict:
    """One controlled execution.  `reader` is 'video' or 'labels' (labels: start must be 0).
    `yield_point`: make the hand-over of a yielded batch a scheduling point too.
    `defaults`: construct the VideoReader with start_idx=None, end_idx=None (start must be 0; the
    fake video then has exactly `end` frames).
    `args` = [start_idx, end_idx, n_total] as given to the constructor (None = argument omitted / None);
    (start, end) must be the range these resolve to.  `ctor` = 'direct' (the class constructor) or
    'from_filename' (the classmethod: sio.load_video / sio.load_slp and the Queue class it builds its
    buffer from are substituted in the providers module for the duration of the call).
    `n_videos`, `bare`: multi-video labels; positions whose labelled frame has no non-empty instance.
    `multi_inst`: the frames at positions i = 2 (mod 3) hold two animals (max_instances = 2, NaN padding elsewhere).
    `poll`: 'none' | 'retry' | 'giveup' (see PollingQueue).  `infer_raises_at`: the inference callable
    raises at its k-th call (observation stream).
    Returns the trace, the yielded batches, the status and the choice letters used."""
    cl = repo_classes()
    ctl = Controller(choices, default)

    def make_queue(maxsize=0):
        if poll == "none":
            return SchedQueue(maxsize, ctl, describe_item)
        return PollingQueue(maxsize, ctl, describe_item, giveup=(poll == "giveup"))

    if reader == "video":
        if args is not None:
            a_start, a_end, n_total = args
        elif defaults:
            assert start == 0
            a_start, a_end, n_total = None, None, end
        else:
            a_start, a_end, n_total = start, end, max(end, start) + 2
        src = FakeVideo(n_total, fault, ctl)
    else:
        assert start == 0
        src = FakeLabels(end, fault, ctl, fault_in_image, n_videos=n_videos, bare=bare, multi=multi_inst)
    if ctor == "from_filename":
        import sleap_nn.data.providers as prov
        saved = (prov.Queue, prov.sio.load_video, prov.sio.load_slp)
        prov.Queue = make_queue
        prov.sio.load_video = lambda filename: src
        prov.sio.load_slp = lambda filename: src
        try:
            if reader == "video":
                kw = {}
                if a_start is not None or args is None:
                    kw["start_idx"] = a_start
                if a_end is not None or args is None:
                    kw["end_idx"] = a_end
                rd = cl["VideoReader"].from_filename("fake.mp4", cap, **kw)
            else:
                rd = cl["LabelsReader"].from_filename("fake.slp", cap, instances_key=instances_key)
        finally:
            prov.Queue, prov.sio.load_video, prov.sio.load_slp = saved
        fb = rd.frame_buffer
    else:
        fb = make_queue(cap)
        if reader == "video":
            rd = cl["VideoReader"](src, fb, a_start, a_end)
        else:
            rd = cl["LabelsReader"](src, fb, instances_key=instances_key)
    if poll != "none":
        fb.reader = rd
    rd._sv_init(ctl)
    total_len = rd.total_len()
    max_hw = [int(x) for x in rd.max_height_and_width]
    calls = [0]

    def infer(ex):
        calls[0] += 1
        if infer_raises_at is not None and calls[0] == infer_raises_at:
            raise ValueError("inference callable failed (injected)")
        return stub_inference_model(ex)

    pred = cl["Predictor"](preprocess=False,
                           preprocess_config={"batch_size": batch, "scale": 1.0, "is_rgb": False,
                                              "max_stride": 1, "max_height": 8, "max_width": 8},
                           pipeline=rd, inference_model=infer,
                           instances_key=bool(instances_key and reader == "labels"))
    yielded = []

    def consumer():
        err = None
        try:
            for out in pred._predict_generator():          # the repo's generator
                rec = {"frame_idx": [int(x) for x in out["frame_idx"]],
                       "size": [[int(v) for v in r] for r in out["orig_size"]],
                       "video_idx": [int(x) for x in out["video_idx"]],
                       "n_img": int(out["n_img"])}
                if "inst0" in out:
                    rec["inst0"] = [None if x != x else float(x) for x in out["inst0"].tolist()]
                    rec["inst_rows"] = [int(x) for x in out["inst_rows"]]
                    rec["inst_real"] = [int(x) for x in out["inst_real"]]
                yielded.append(rec)
                if yield_point:
                    # the caller of the generator is slow: the reader may run between the last get of a
                    # batch and the moment the batch is handed over
                    ctl.park("C", ("yield",))
                ctl.event("yield", rec["frame_idx"])
        except BaseException as e:      # noqa: BLE001
            err = e
        finally:
            ctl.finished("C", err)

    ctl.register("C")
    ct = threading.Thread(target=consumer, daemon=True, name="sv-c13-consumer")
    ct.start()
    status = ctl.drive()
    grace = WATCHDOG_S if status == "ok" else 2.0      # after a hang the hung (daemon) thread is abandoned
    ct.join(timeout=grace)
    if rd.ident is not None:
        threading.Thread.join(rd, timeout=grace)
    leaked = [t for t in (ct, rd) if t.ident is not None and t.is_alive()]
    return {"status": status, "trace": ctl.trace, "yielded": yielded, "taken": "".join(ctl.taken),
            "choice_points": ctl.n_choice_points, "errors": ctl.errors,
            "stuck": {k: list(v) if v else None for k, v in getattr(ctl, "stuck", {}).items()},
            "leaked_threads": len(leaked), "queue_left": fb.qsize(),
            "total_len": int(total_len), "max_hw": max_hw, "steps": ctl.steps}
