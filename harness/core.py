"""Shared machinery for the /verif checks.

Every check (`./check Cxx --tier quick|thorough`) does, in this order:

  1. audit the Coq development (no Admitted/Axiom/... anywhere),
  2. (re)build the Coq development (`make`, full .vo build) and re-compile the
     property's statement file `theories/Cxx/Props.v` from scratch, collecting
     the `Print Assumptions` output of every theorem (= proof obligations),
  3. run the property's tie to /repo (translator obligations and/or the
     correspondence run: model evaluated inside Coq by vm_compute, the
     implementation run under this interpreter, results compared),
  4. evaluate the executable oracle of the property on the implementation's
     outputs, replay the known findings,
  5. write evidence/Cxx.json and print VIOLATION / KNOWN-FINDING lines.

Nothing here is specific to one property.
"""
from __future__ import annotations

import hashlib
import json
import os
import random
import re
import shutil
import subprocess
import sys
import tempfile
import time
from fractions import Fraction
from pathlib import Path

VERIF = Path(__file__).resolve().parent.parent
REPO = Path(os.environ.get("VERIF_REPO", "/repo"))
COQ = VERIF / "coq"
THEORIES = COQ / "theories"
# a run against a mutated copy (VERIF_REPO=<worktree>) must not overwrite the evidence / replays of /repo itself
_MUT = REPO.resolve() != Path("/repo")
EVIDENCE = Path(os.environ.get("VERIF_EVIDENCE_DIR", VERIF / (".scratch/evidence_mut" if _MUT else "evidence")))
REPLAYS = Path(os.environ.get("VERIF_REPLAY_DIR", VERIF / (".scratch/replays_mut" if _MUT else "replays")))
CORPUS = VERIF / "corpus"
KNOWN_FILE = VERIF / "known_findings.txt"

COQ_FLAGS = ["-Q", str(THEORIES), "SV", "-w",
             "-notation-overridden,-deprecated-hint-without-locality,-deprecated-instance-without-locality"]

FORBIDDEN = re.compile(
    r"\b(Admitted|admit|Axiom|Axioms|Parameter|Parameters|Conjecture|Conjectures|"
    r"Admit\s+Obligations|bypass_check|Unset\s+Guard\s+Checking|Unset\s+Positivity\s+Checking|"
    r"Unset\s+Universe\s+Checking|type-in-type|impredicative-set)\b")


# --------------------------------------------------------------------------
# small utilities

def scratch_dir(prefix: str = "sv_") -> Path:
    """A scratch directory outside /repo and /verif, removed by the caller."""
    return Path(tempfile.mkdtemp(prefix=prefix))


def sh(cmd, timeout=600, cwd=None, env=None, inp=None):
    """Run a command under a timeout; returns (rc, combined output)."""
    try:
        p = subprocess.run(cmd, cwd=cwd, env=env, input=inp, timeout=timeout,
                           stdout=subprocess.PIPE, stderr=subprocess.STDOUT, text=True)
        return p.returncode, p.stdout
    except subprocess.TimeoutExpired as e:
        out = e.stdout if isinstance(e.stdout, str) else (e.stdout or b"").decode("utf8", "replace")
        return 124, (out or "") + "\n[timeout after %ss]" % timeout


def strip_coq_comments(text: str) -> str:
    out, depth, i = [], 0, 0
    while i < len(text):
        if text.startswith("(*", i):
            depth += 1
            i += 2
        elif text.startswith("*)", i) and depth:
            depth -= 1
            i += 2
        else:
            if not depth:
                out.append(text[i])
            i += 1
    return "".join(out)


# --------------------------------------------------------------------------
# Coq side

def audit() -> list[str]:
    """Scan every .v file of the development for constructs the brief forbids.
    Returns a list of offending 'file:line: text'."""
    bad = []
    for f in sorted(THEORIES.rglob("*.v")):
        try:
            text = strip_coq_comments(f.read_text())
        except FileNotFoundError:       # Gen/* is rewritten by other properties' runs: a file may vanish meanwhile
            continue
        # strings may legitimately contain words; drop string literals
        text_nos = re.sub(r'"(?:[^"]|"")*"', '""', text)
        for ln, line in enumerate(text_nos.splitlines(), 1):
            if FORBIDDEN.search(line):
                bad.append(f"{f.relative_to(VERIF)}:{ln}: {line.strip()[:120]}")
        # Variable / Hypothesis outside a Section
        depth = 0
        for ln, line in enumerate(text_nos.splitlines(), 1):
            s = line.strip()
            if re.match(r"Section\s+\w+", s):
                depth += 1
            elif re.match(r"End\s+\w+\s*\.", s) and depth:
                depth -= 1
            elif depth == 0 and re.match(r"(Variables?|Hypothes[ie]s|Context)\b", s):
                bad.append(f"{f.relative_to(VERIF)}:{ln}: {s[:120]} (outside a Section)")
    return bad


def coq_project_files() -> list[str]:
    files = []
    for line in (COQ / "_CoqProject").read_text().splitlines():
        line = line.strip()
        if line.endswith(".v"):
            files.append(line)
    return files


def coq_make(timeout=3000, jobs=8, targets=None):
    """Full .vo build (never -vos) of the given targets (default: everything)."""
    if not (COQ / "Makefile").exists() or \
            (COQ / "Makefile").stat().st_mtime < (COQ / "_CoqProject").stat().st_mtime:
        rc, out = sh(["coq_makefile", "-f", "_CoqProject", "-o", "Makefile"], cwd=COQ, timeout=120)
        if rc != 0:
            return rc, out
    return sh(["make", "-j", str(jobs), *(targets or [])], cwd=COQ, timeout=timeout)


def coqc(path: Path, timeout=900, cwd=None):
    return sh(["coqc", *COQ_FLAGS, str(path)], timeout=timeout, cwd=cwd or COQ)


_PA_START = re.compile(r"^(Closed under the global context|Axioms:|Fetching opaque proofs)", re.M)


def parse_print_assumptions(output: str) -> list[list[str]]:
    """Split coqc's stdout into one block per `Print Assumptions` command.
    Each block is the list of axiom names (empty = closed)."""
    blocks = []
    cur = None
    for line in output.splitlines():
        if line.startswith("Closed under the global context"):
            if cur is not None:
                blocks.append(cur)
            blocks.append([])
            cur = None
        elif line.startswith("Axioms:"):
            if cur is not None:
                blocks.append(cur)
            cur = []
        elif cur is not None:
            m = re.match(r"^([A-Za-z_][\w.']*)\s*(:|$)", line)
            if m and not line.startswith(" "):
                cur.append(m.group(1))
    if cur is not None:
        blocks.append(cur)
    return blocks


# axioms the standard library itself declares and that this development may rely on
STDLIB_AXIOMS = {
    "ClassicalDedekindReals.sig_forall_dec",
    "ClassicalDedekindReals.sig_not_dec",
    "FunctionalExtensionality.functional_extensionality_dep",
    "functional_extensionality_dep",
    "Classical_Prop.classic",
    "classic",
    "sig_forall_dec",
    "sig_not_dec",
}


def check_props(prop_file: Path, timeout=900):
    """Re-compile a statement file from scratch.  Returns a dict with the
    theorem names, the axioms each depends on, and whether all compiled."""
    text = strip_coq_comments(prop_file.read_text())
    names = re.findall(r"Print\s+Assumptions\s+([\w.']+)\s*\.", text)
    thms = re.findall(r"^\s*(?:Theorem|Lemma|Corollary|Example)\s+([\w']+)", text, re.M)
    t0 = time.time()
    rc, out = coqc(prop_file, timeout=timeout)
    res = {"file": str(prop_file.relative_to(VERIF)), "rc": rc, "theorems": thms,
           "printed": names, "wall_s": round(time.time() - t0, 2), "axioms": {},
           "foreign_axioms": [], "log_tail": out[-3000:] if rc != 0 else ""}
    if rc == 0:
        blocks = parse_print_assumptions(out)
        if len(blocks) != len(names):
            res["rc"] = 3
            res["log_tail"] = "could not attribute Print Assumptions output: %d blocks for %d commands\n%s" % (
                len(blocks), len(names), out[-2000:])
        else:
            for n, b in zip(names, blocks):
                res["axioms"][n] = b
                for a in b:
                    if a not in STDLIB_AXIOMS and a.split(".")[-1] not in STDLIB_AXIOMS:
                        res["foreign_axioms"].append(f"{n}: {a}")
        missing = [t for t in thms if t not in names and not t.startswith("ex_")]
        res["unprinted"] = missing
    return res


def coq_eval_lines(preamble: str, expr: str, timeout=900, keep: Path | None = None) -> list:
    """Evaluate `expr : string` (built with SV.Base.Render) by vm_compute inside
    coqc and return the parsed JSON value of every output line."""
    d = scratch_dir("sv_eval_")
    try:
        src = d / "cases.v"
        outbase = d / "result"
        src.write_text(
            "From SV Require Import Base.Render.\n" + preamble +
            f"\nDefinition sv_result : String.string := ({expr}).\n"
            "From Coq Require Import String.\nOpen Scope string_scope.\n"
            f'Redirect "{outbase}" Eval vm_compute in sv_result.\n')
        rc, out = sh(["bash", "-c", 'ulimit -s unlimited 2>/dev/null || ulimit -s 1000000; exec coqc "$@"', "coqc",
                      *COQ_FLAGS, str(src)], timeout=timeout, cwd=d)
        if keep is not None:
            keep.parent.mkdir(parents=True, exist_ok=True)
            shutil.copy(src, keep)
        if rc != 0:
            raise CoqEvalError(out[-4000:])
        raw = (d / "result.out").read_text()
        i, j = raw.index('"'), raw.rindex('"')
        body = raw[i + 1:j].replace('""', '"')
        return [json.loads(l) for l in body.split("\n") if l.strip()]
    finally:
        shutil.rmtree(d, ignore_errors=True)


class CoqEvalError(Exception):
    pass


def coq_eval_sharded(preamble: str, case_terms: list[str], run_fn: str, renderer: str,
                     shard=250, timeout=900, jobs=8) -> list:
    """Evaluate `run_fn case` for every case term, `shard` cases per coqc
    process, processes in parallel.  Returns one parsed JSON value per case."""
    from concurrent.futures import ThreadPoolExecutor
    shards = [case_terms[i:i + shard] for i in range(0, len(case_terms), shard)]

    def one(terms):
        expr = f"render_lines ({renderer}) (List.map ({run_fn}) [\n" + ";\n".join(terms) + "\n])"
        return coq_eval_lines(preamble, expr, timeout=timeout)

    with ThreadPoolExecutor(max_workers=jobs) as ex:
        parts = list(ex.map(one, shards))
    out = []
    for p, s in zip(parts, shards):
        if len(p) != len(s):
            raise CoqEvalError(f"model produced {len(p)} results for {len(s)} cases")
        out.extend(p)
    return out


# --- Coq literal helpers ---------------------------------------------------

def cq(x) -> str:
    """A Fraction / int as a Coq Q literal."""
    f = Fraction(x)
    n, d = f.numerator, f.denominator
    return f"(({n})#{d})" if n < 0 else f"({n}#{d})"


def cz(n: int) -> str:
    return f"({int(n)})%Z"


def cnat(n: int) -> str:
    return f"{int(n)}%nat"


def clist(items, elem=str) -> str:
    return "[" + "; ".join(elem(i) for i in items) + "]"


def copt(x, elem=str) -> str:
    return "None" if x is None else f"(Some {elem(x)})"


def cbool(b) -> str:
    return "true" if b else "false"


def frac(j) -> Fraction | None:
    """JSON value rendered by rQ ([num, den]) -> Fraction; null -> None."""
    if j is None:
        return None
    return Fraction(j[0], j[1])


# --------------------------------------------------------------------------
# known findings

def load_known(prop: str):
    known, fixed = [], []
    if KNOWN_FILE.exists():
        for line in KNOWN_FILE.read_text().splitlines():
            line = line.strip()
            if not line or line.startswith("#"):
                continue
            if line.startswith("known:") and f"property={prop} " in line:
                head, _, what = line[len("known:"):].partition("::")
                kv = dict(t.split("=", 1) for t in head.split() if "=" in t)
                kv["what"] = what.strip()
                known.append(kv)
            elif line.startswith("fixed:") and f"property={prop} " in line:
                fixed.append(line)
    return known, fixed


# --------------------------------------------------------------------------
# one run of one check

class Run:
    def __init__(self, prop: str, tier: str, seed: int):
        self.prop, self.tier, self.seed = prop, tier, seed
        self.t0 = time.time()
        self.rng = random.Random((seed * 1000003) ^ int(hashlib.sha1(prop.encode()).hexdigest()[:8], 16))
        self.violations: list[dict] = []
        self.known_hits: dict[str, dict] = {}
        self.obligations = 0
        self.discharged = 0
        self.axioms: set[str] = set()
        self.coverage: dict = {"samples": [], "evaluations": 0, "distinct_nontrivial": 0}
        self.assumptions: list[str] = []
        self.trusted: list[str] = [
            "Coq 8.16.1 kernel (coqc), vm_compute used for model evaluation and finite/certificate obligations; native_compute not used",
            "harness (generators, runners, canonicalisation, oracles) in /verif/harness",
        ]
        self.notes: list[str] = []
        self.proof_broken: list[str] = []      # names of obligations / correspondences that no longer check
        self.known, self.fixed = load_known(prop)
        self.distinct = set()
        self.max_replays = 5
        self.suppressed = 0

    # -- bookkeeping ------------------------------------------------------
    def log(self, msg: str):
        print(f"[{self.prop}] {msg}", flush=True)

    def sample(self, obj, limit=6):
        if len(self.coverage["samples"]) < limit:
            self.coverage["samples"].append(obj)

    def count(self, key: str, n: int = 1):
        self.coverage[key] = self.coverage.get(key, 0) + n

    def case(self, canonical, nontrivial: bool):
        """Record one evaluated case; distinct non-trivial ones are counted by hash."""
        self.coverage["evaluations"] += 1
        if nontrivial:
            h = hashlib.sha1(json.dumps(canonical, sort_keys=True, default=str).encode()).hexdigest()
            self.distinct.add(h)

    def obligation(self, name: str, ok: bool, detail: str = ""):
        self.obligations += 1
        if ok:
            self.discharged += 1
        else:
            self.proof_broken.append(name + (": " + detail if detail else ""))
            self.log(f"obligation FAILED: {name} {detail[:500]}")

    # -- step 1/2: Coq ----------------------------------------------------
    def build_and_prove(self, prop_files: list[Path], extra_targets: list[str] | None = None):
        bad = audit()
        self.obligation("audit: no Admitted/admit/Axiom/Parameter/Conjecture/guard switches", not bad,
                        "; ".join(bad[:5]))
        targets = [str(pf.relative_to(COQ))[:-2] + ".vo" for pf in prop_files] + list(extra_targets or [])
        rc, out = coq_make(targets=targets)
        self.obligation("make (full .vo build of this property's model, lemma and statement files)", rc == 0,
                        out[-1500:] if rc else "")
        if rc != 0:
            return False
        ok_all = True
        for pf in prop_files:
            res = check_props(pf)
            ok = res["rc"] == 0 and not res["foreign_axioms"] and not res.get("unprinted")
            if res["rc"] == 0:
                for n in res["printed"]:
                    self.obligation(f"theorem {n}", True)
                    self.axioms.update(res["axioms"].get(n, []))
                if res["foreign_axioms"]:
                    self.obligation(f"{res['file']}: only standard-library axioms", False,
                                    "; ".join(res["foreign_axioms"]))
                if res.get("unprinted"):
                    self.obligation(f"{res['file']}: every theorem has Print Assumptions", False,
                                    ", ".join(res["unprinted"]))
            else:
                self.obligation(f"compile {res['file']}", False, res["log_tail"])
            self.coverage.setdefault("prop_files", []).append(
                {k: res[k] for k in ("file", "rc", "printed", "wall_s")})
            ok_all = ok_all and ok
        return ok_all

    # -- violations -------------------------------------------------------
    def selector_known(self, selector: str):
        for k in self.known:
            if k.get("selector") == selector:
                return k
        return None

    def violation(self, kind: str, replay: dict, selector: str | None = None, name: str | None = None):
        """Report a failing input.  If it falls under a listed known finding
        (by selector) it is recorded as KNOWN-FINDING instead."""
        if selector:
            k = self.selector_known(selector)
            if k is not None:
                hit = self.known_hits.setdefault(selector, {"k": k, "n": 0, "example": replay})
                hit["n"] += 1
                return False
        if kind == "failing-input" and sum(v["kind"] == kind for v in self.violations) >= self.max_replays:
            self.suppressed += 1        # same kind of failure again: counted, not written out
            return True
        replay = dict(replay)
        replay.update({"property": self.prop, "kind": kind, "seed": self.seed, "tier": self.tier})
        (REPLAYS / self.prop).mkdir(parents=True, exist_ok=True)
        nm = name or f"{kind}_{len(self.violations)}"
        path = REPLAYS / self.prop / f"{nm}.json"
        path.write_text(json.dumps(replay, indent=1, default=str))
        self.violations.append({"kind": kind, "replay": str(path), "selector": selector})
        return True

    # -- final ------------------------------------------------------------
    def finish(self, level="proof", checker_cmd=None, explanation=None) -> int:
        # a broken obligation with no failing input found is still a violation
        if self.proof_broken and not any(v["kind"] == "failing-input" for v in self.violations):
            self.violation("no-failing-input-found", {
                "broken": self.proof_broken,
                "note": "a proof obligation or the model/code correspondence no longer checks; "
                        "the search over generated inputs, corpus and refutation witnesses found no input "
                        "on which the property itself fails"}, name="broken_obligation")
        self.coverage["distinct_nontrivial"] = len(self.distinct)
        self.coverage["obligations"] = self.obligations
        self.coverage["discharged"] = self.discharged
        self.coverage["checker_cmd"] = checker_cmd or f"./check {self.prop} --tier {self.tier}"
        self.coverage["trusted_base"] = self.trusted + [
            "axioms (Print Assumptions, all declared by the Coq standard library): " +
            (", ".join(sorted(self.axioms)) if self.axioms else "none — closed under the global context")]
        if explanation:
            self.coverage["explanation"] = explanation
        self.coverage["broken_obligations"] = self.proof_broken
        self.coverage["known_findings_reproduced"] = [
            {"selector": s, "id": h["k"].get("id"), "cases": h["n"]} for s, h in self.known_hits.items()]
        self.coverage["notes"] = self.notes
        self.coverage["further_failing_inputs_not_written"] = self.suppressed
        ev = {
            "property_id": self.prop, "tier": self.tier, "seed": self.seed, "level": level,
            "coverage": self.coverage, "assumptions": self.assumptions,
            "wall_s": round(time.time() - self.t0, 2), "violations": len(self.violations) + self.suppressed,
        }
        EVIDENCE.mkdir(parents=True, exist_ok=True)
        (EVIDENCE / f"{self.prop}.json").write_text(json.dumps(ev, indent=1, default=str) + "\n")
        for s, h in self.known_hits.items():
            print(f"KNOWN-FINDING: property={self.prop} id={h['k'].get('id')} selector={s} "
                  f"cases={h['n']} {h['k'].get('what', '')}", flush=True)
        for v in self.violations:
            tail = " no-failing-input-found" if v["kind"] == "no-failing-input-found" else ""
            print(f"VIOLATION property={self.prop} replay={v['replay']}{tail}", flush=True)
        self.log(f"obligations {self.discharged}/{self.obligations}, evaluations {self.coverage['evaluations']}, "
                 f"distinct non-trivial {len(self.distinct)}, violations {len(self.violations)}, "
                 f"wall {ev['wall_s']}s")
        return 1 if self.violations else 0


class ImplTimeout(Exception):
    """An implementation call exceeded its time limit (see `time_limit`)."""


class time_limit:
    """`with core.time_limit(5): f(x)` raises ImplTimeout when the (pure-Python, main-thread) call
    runs longer than `seconds`.  Used around single calls into /repo whose termination is part of
    the property (a changed implementation may loop).  Nested use keeps the outer deadline."""

    def __init__(self, seconds: float):
        self.seconds = seconds

    def __enter__(self):
        import signal
        self._old_handler = signal.signal(signal.SIGALRM, self._raise)
        self._old_timer = signal.setitimer(signal.ITIMER_REAL, self.seconds)
        self._t0 = time.time()
        return self

    @staticmethod
    def _raise(signum, frame):
        raise ImplTimeout()

    def __exit__(self, *exc):
        import signal
        signal.setitimer(signal.ITIMER_REAL, 0)
        signal.signal(signal.SIGALRM, self._old_handler)
        remaining, _ = self._old_timer
        if remaining > 0:       # re-arm the enclosing deadline (the watchdog of harness.main)
            signal.setitimer(signal.ITIMER_REAL, max(0.01, remaining - (time.time() - self._t0)))
        return False


def impl_env_setup():
    """Process-wide settings for running /repo code under this interpreter."""
    os.environ.setdefault("CUDA_VISIBLE_DEVICES", "")
    os.environ["WANDB_MODE"] = "offline"
    os.environ.setdefault("WANDB_SILENT", "true")
    repo = str(REPO)
    if repo in sys.path:
        sys.path.remove(repo)
    sys.path.insert(0, repo)
    # drop any other copy of sleap_nn that might shadow /repo's working tree
    for m in [m for m in sys.modules if m == "sleap_nn" or m.startswith("sleap_nn.")]:
        del sys.modules[m]
    try:
        import torch
        torch.set_num_threads(1)
        import kornia.core
        if not hasattr(kornia.core, "Tensor"):
            kornia.core.Tensor = torch.Tensor       # environment shim, see DESIGN.md §2
    except Exception:  # pragma: no cover
        pass
    import sleap_nn
    got = Path(sleap_nn.__file__).resolve().parent.parent
    if got != REPO.resolve():
        raise RuntimeError(f"sleap_nn imported from {got}, expected {REPO}")
