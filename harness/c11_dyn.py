"""C11 — dynamic side: JSON-able case specs, builders, snapshots, duck-typed labels.

Everything random comes from the `random.Random` handed in (run.rng)."""
from __future__ import annotations

import inspect
import math
from fractions import Fraction

import numpy as np
import torch

NAN = float("nan")


# ----------------------------------------------------------------------------
# specs -> objects

def kp_array(pts, dtype=np.float64):
    """nested lists with None (= missing) -> ndarray with NaN."""
    def conv(x):
        if x is None:
            return [NAN, NAN]
        if isinstance(x, (list, tuple)) and x and not isinstance(x[0], (list, tuple, type(None))) \
                and all(isinstance(v, (int, float)) for v in x):
            return [float(v) for v in x]
        return [conv(v) for v in x]
    return np.array(conv(pts), dtype=dtype)


def build(spec):
    """spec -> python object handed to the implementation."""
    if isinstance(spec, dict) and "t" in spec:
        t = spec["t"]
        if t == "kps":          # keypoint tensor: nested lists of [x, y] / None
            a = kp_array(spec["data"], np.float32)
            if a.size == 0:
                a = a.reshape(spec.get("shape", a.shape))
            return torch.from_numpy(a.copy())
        if t == "tensor":
            return torch.tensor(spec["data"], dtype=getattr(torch, spec.get("dtype", "float32")))
        if t == "image":        # content from a seed (keeps replays small)
            g = np.random.RandomState(spec["seed"])
            shape = spec["shape"]
            if spec["dtype"] == "uint8":
                return torch.from_numpy(g.randint(0, 256, size=shape).astype(np.uint8))
            return torch.from_numpy((g.randint(0, 256, size=shape) / 255.0).astype(np.float32))
        if t == "arange":       # grid vector
            return torch.arange(0, spec["n"], step=spec["step"], dtype=torch.float32)
        if t == "tuple":
            return tuple(build(x) for x in spec["items"])
        if t == "labels":
            return build_labels(spec["labels"])
        if t == "lf":
            labels = build_labels(spec["labels"])
            return labels[spec["index"]]
        if t == "omegaconf":
            from omegaconf import OmegaConf
            return OmegaConf.create(spec["data"])
        raise ValueError(t)
    return spec


# ----------------------------------------------------------------------------
# memory ranges, snapshots

def mem_range(x):
    if isinstance(x, torch.Tensor):
        st = x.untyped_storage()
        return (st.data_ptr(), st.data_ptr() + st.nbytes()) if st.nbytes() else None
    if isinstance(x, np.ndarray):
        b = x
        while isinstance(getattr(b, "base", None), np.ndarray):
            b = b.base
        lo = b.__array_interface__["data"][0]
        return (lo, lo + b.nbytes) if b.nbytes else None
    return None


def leaves(x, path="", seen=None, depth=0):
    """(path, tensor/ndarray) leaves reachable from x through containers and the
    duck-typed label objects."""
    seen = set() if seen is None else seen
    if id(x) in seen or depth > 8:
        return
    if isinstance(x, (torch.Tensor, np.ndarray)):
        yield path, x
        return
    if isinstance(x, (str, bytes, int, float, bool, type(None))):
        return
    seen.add(id(x))
    if isinstance(x, dict):
        for k, v in x.items():
            yield from leaves(v, f"{path}[{k!r}]", seen, depth + 1)
    elif isinstance(x, (list, tuple)):
        for k, v in enumerate(x):
            yield from leaves(v, f"{path}[{k}]", seen, depth + 1)
    elif hasattr(x, "_c11_children"):
        for k, v in x._c11_children():
            yield from leaves(v, f"{path}.{k}", seen, depth + 1)


def struct_fields(x, path="", seen=None, depth=0):
    """(path, owner, attribute) of the object-list fields reachable from x: the instance list of a
    labelled frame (round 4: `lf.instances = ...` is a change of the labels that no array leaf shows)."""
    seen = set() if seen is None else seen
    if id(x) in seen or depth > 8 or \
            isinstance(x, (torch.Tensor, np.ndarray, str, bytes, int, float, bool, type(None))):
        return
    seen.add(id(x))
    if hasattr(x, "_c11_struct"):
        for name in x._c11_struct():
            yield f"{path}.{name}", x, name
    if isinstance(x, dict):
        for k, v in x.items():
            yield from struct_fields(v, f"{path}[{k!r}]", seen, depth + 1)
    elif isinstance(x, (list, tuple)):
        for k, v in enumerate(x):
            yield from struct_fields(v, f"{path}[{k}]", seen, depth + 1)
    elif hasattr(x, "_c11_children"):
        for k, v in x._c11_children():
            yield from struct_fields(v, f"{path}.{k}", seen, depth + 1)


def describe_objs(objs):
    return [("pred" if getattr(o, "predicted", False) else "user") + f"@{id(o) & 0xffff:04x}" for o in objs]


def raw_bytes(a) -> bytes:
    if isinstance(a, torch.Tensor):
        a = a.detach().contiguous().cpu().numpy() if a.dtype != torch.bfloat16 else a.float().numpy()
    return np.ascontiguousarray(a).tobytes()


class Snapshot:
    """deep copies of every tensor / array reachable from an object, and the identity of the
    elements of every object-list field (the instance list of a labelled frame)."""

    def __init__(self, obj):
        self.items = []
        for path, leaf in leaves(obj):
            copy = leaf.clone() if isinstance(leaf, torch.Tensor) else leaf.copy()
            self.items.append((path, leaf, copy, tuple(leaf.shape), str(leaf.dtype)))
        self.structs = []
        for path, owner, name in struct_fields(obj):
            objs = list(getattr(owner, name))
            self.structs.append((path, owner, name, objs))       # holds the objects: ids stay unique

    def changed(self):
        """[(path, before, after)] for leaves whose bytes / shape / dtype changed."""
        out = []
        for path, leaf, copy, shape, dtype in self.items:
            if tuple(leaf.shape) != shape or str(leaf.dtype) != dtype or raw_bytes(leaf) != raw_bytes(copy):
                out.append((path, copy, leaf))
        for path, owner, name, objs in self.structs:
            now = list(getattr(owner, name))
            if [id(o) for o in now] != [id(o) for o in objs]:
                out.append((path, describe_objs(objs), describe_objs(now)))
        return out

    def ranges(self):
        return [r for r in (mem_range(l) for _, l, *_ in self.items) if r]


def overlaps(r, rs):
    return any(r[0] < q[1] and q[0] < r[1] for q in rs)


def same_value(a, b) -> bool:
    """bit-for-bit equality of two samples / values (dicts of tensors, scalars)."""
    if isinstance(a, dict) and isinstance(b, dict):
        return list(a.keys()) == list(b.keys()) and all(same_value(a[k], b[k]) for k in a)
    if isinstance(a, (list, tuple)) and isinstance(b, (list, tuple)):
        return len(a) == len(b) and all(same_value(x, y) for x, y in zip(a, b))
    if isinstance(a, (torch.Tensor, np.ndarray)) and isinstance(b, (torch.Tensor, np.ndarray)):
        return type(a) is type(b) and tuple(a.shape) == tuple(b.shape) and str(a.dtype) == str(b.dtype) \
            and raw_bytes(a) == raw_bytes(b)
    return type(a) is type(b) and a == b


def first_difference(a, b):
    if isinstance(a, dict) and isinstance(b, dict):
        if list(a.keys()) != list(b.keys()):
            return f"keys {list(a.keys())} vs {list(b.keys())}"
        for k in a:
            if not same_value(a[k], b[k]):
                return f"key {k!r}"
    return "value"


def to_json(x):
    """tensor -> nested lists with None for NaN (for replay files)."""
    if isinstance(x, torch.Tensor):
        x = x.detach().cpu().numpy()
    if isinstance(x, np.ndarray):
        def conv(v):
            if isinstance(v, list):
                return [conv(u) for u in v]
            if isinstance(v, float) and math.isnan(v):
                return None
            return v
        return conv(x.tolist())
    return x


# ----------------------------------------------------------------------------
# duck-typed labels exposing exactly what the repo reads

class DInst:
    def __init__(self, pts, predicted=False):
        self._pts = kp_array(pts, np.float64)       # (n_nodes, 2)
        self.predicted = predicted

    def numpy(self):
        return self._pts                            # shared on purpose: a write would alter the labels

    @property
    def is_empty(self):
        return bool(np.isnan(self._pts).all())

    def _c11_children(self):
        return [("points", self._pts)]


class DVideo:
    def __init__(self, shape):
        self.shape = shape
        self.closed = 0

    def close(self):
        self.closed += 1


class DFrame:
    def __init__(self, video, frame_idx, instances, image):
        self.video, self.frame_idx, self.instances, self._image = video, frame_idx, instances, image
        self._all = list(instances)

    @property
    def user_instances(self):
        return [i for i in self.instances if not i.predicted]

    @property
    def image(self):
        return self._image                          # (H, W, C) uint8, shared on purpose

    def __iter__(self):
        return iter(self.instances)

    def __len__(self):
        return len(self.instances)

    def __getitem__(self, k):
        return self.instances[k]

    def _c11_children(self):
        return [("image", self._image)] + [(f"inst{k}", i) for k, i in enumerate(self._all)]

    def _c11_struct(self):
        return ["instances"]


class DSkeleton:
    def __init__(self, n_nodes, edges):
        self.edge_inds = [tuple(e) for e in edges]
        self.node_names = [f"n{k}" for k in range(n_nodes)]


class DLabels:
    def __init__(self, frames, videos, skeletons):
        self.labeled_frames, self.videos, self.skeletons = frames, videos, skeletons

    def __iter__(self):
        return iter(self.labeled_frames)

    def __len__(self):
        return len(self.labeled_frames)

    def __getitem__(self, k):
        return self.labeled_frames[k]

    def _c11_children(self):
        return [(f"lf{k}", f) for k, f in enumerate(self.labeled_frames)]


def build_labels(spec, real_sio=None):
    """Label-set spec -> duck-typed labels (or real sleap-io objects on the
    asset video when `real_sio` = (sio module, loaded asset labels))."""
    n_nodes = spec["n_nodes"]
    H, W, C = spec["H"], spec["W"], spec["C"]
    if real_sio is None:
        videos = [DVideo((len(spec["frames"]), H, W, C)) for _ in range(spec.get("n_videos", 1))]
        frames = []
        for fi, fr in enumerate(spec["frames"]):
            g = np.random.RandomState(spec["img_seed"] + fi)
            img = g.randint(0, 256, size=(H, W, C)).astype(np.uint8)
            insts = [DInst(i["pts"], i["pred"]) for i in fr["insts"]]
            frames.append(DFrame(videos[fr.get("video", 0)], fr.get("frame_idx", fi), insts, img))
        return DLabels(frames, videos, [DSkeleton(n_nodes, spec["edges"])])
    sio, asset = real_sio
    sk = sio.Skeleton(nodes=[f"n{k}" for k in range(n_nodes)],
                      edges=[(f"n{a}", f"n{b}") for a, b in spec["edges"]])
    video = asset.videos[0]
    lfs = []
    for fi, fr in enumerate(spec["frames"]):
        insts = []
        for i in fr["insts"]:
            pts = kp_array(i["pts"], np.float64)
            if i["pred"]:
                insts.append(sio.PredictedInstance.from_numpy(points_data=pts, skeleton=sk, score=0.5))
            else:
                insts.append(sio.Instance.from_numpy(points_data=pts, skeleton=sk))
        lfs.append(sio.LabeledFrame(video=video, frame_idx=0, instances=insts))
    return sio.Labels(labeled_frames=lfs, videos=[video], skeletons=[sk])


# ----------------------------------------------------------------------------
# generators (all specs are JSON-able)

def dy(rng, lo, hi, den=4):
    """a dyadic coordinate in [lo, hi] (exact in float32)."""
    return rng.randint(int(lo * den), int(hi * den)) / den


def gen_instance(rng, n_nodes, W, H, p_missing=0.3, force=None):
    """list of [x, y] / None.  force: 'empty' | 'full' | ('missing', k)"""
    pts = []
    for k in range(n_nodes):
        if force == "empty" or (force != "full" and rng.random() < p_missing):
            pts.append(None)
        else:
            pts.append([dy(rng, 1, W - 2), dy(rng, 1, H - 2)])
    if isinstance(force, tuple) and force[0] == "missing":
        pts[force[1]] = None
        if all(p is None for p in pts):              # keep it non-empty
            j = (force[1] + 1) % n_nodes
            pts[j] = [dy(rng, 1, W - 2), dy(rng, 1, H - 2)]
    return pts


def gen_kps(rng, lead_shape, n_nodes, W=32, H=32, p_missing=0.3, missing_node=None):
    def rec(shape):
        if not shape:
            force = ("missing", missing_node) if (missing_node is not None and rng.random() < 0.6) else \
                rng.choice([None, None, None, "empty", "full"])
            return gen_instance(rng, n_nodes, W, H, p_missing, force)
        return [rec(shape[1:]) for _ in range(shape[0])]
    return {"t": "kps", "data": rec(list(lead_shape)), "shape": list(lead_shape) + [n_nodes, 2]}


def gen_image(rng, C=None, H=None, W=None, dtype=None):
    C = C or rng.choice([1, 3])
    H = H or rng.choice([12, 16, 24, 30])
    W = W or rng.choice([12, 16, 24, 30])
    return {"t": "image", "shape": [1, C, H, W], "dtype": dtype or rng.choice(["uint8", "float32"]),
            "seed": rng.randrange(1 << 30)}


def gen_label_set(rng, single=False):
    n_nodes = rng.randint(2, 4)
    H, W = rng.choice([16, 24, 32]), rng.choice([16, 24, 32])
    C = rng.choice([1, 3])
    n_frames = rng.randint(1, 4)
    anchor = rng.choice([None] + list(range(n_nodes)))
    frames = []
    n_videos = 1 if (single or rng.random() < 0.7) else 2
    for _ in range(n_frames):
        n_user = 1 if single else rng.randint(1, 3)
        pred_only = (not single) and rng.random() < 0.12      # a frame without any user instance
        if pred_only:
            n_user = 0
        insts = []
        for _ in range(n_user):
            r = rng.random()
            if r < 0.15:
                force = "empty"
            elif r < 0.45 and anchor is not None:
                force = ("missing", anchor)
            elif r < 0.55:
                force = "full"
            else:
                force = None
            insts.append({"pts": gen_instance(rng, n_nodes, W, H, 0.25, force), "pred": False})
        if n_user >= 2 and rng.random() < 0.45:
            # round 5: several animals with COMPLEMENTARY NaN patterns (each node labelled in some animals and
            # missing in the others; sometimes one node missing in all): partial occlusion
            dead = rng.randrange(n_nodes) if rng.random() < 0.3 else None
            off = rng.randrange(len(insts))
            for a, inst in enumerate(insts):
                inst["pts"] = [[dy(rng, 1, W - 2), dy(rng, 1, H - 2)] if (k + a + off) % len(insts) == 0 and k != dead
                               else (None if (k == dead or rng.random() < 0.7) else [dy(rng, 1, W - 2), dy(rng, 1, H - 2)])
                               for k in range(n_nodes)]
        if pred_only or (not single and rng.random() < 0.4):      # predicted instances next to user ones
            for _ in range(rng.randint(1, 2)):
                insts.insert(rng.randint(0, len(insts)),
                             {"pts": gen_instance(rng, n_nodes, W, H, 0.2, "empty" if rng.random() < 0.1 else None),
                              "pred": True})
        frames.append({"insts": insts, "video": rng.randrange(n_videos), "frame_idx": rng.randint(0, 40)})
    edges = [[k, k + 1] for k in range(n_nodes - 1)]
    if n_nodes >= 3 and rng.random() < 0.5:
        edges = [[0, k] for k in range(1, n_nodes)]
    return {"n_nodes": n_nodes, "H": H, "W": W, "C": C, "frames": frames, "edges": edges,
            "img_seed": rng.randrange(1 << 30), "anchor": anchor, "n_videos": n_videos}


def gen_dense_label_set(rng):
    """label sets on which nothing forces a copy: an anchor is configured and labelled in EVERY instance,
    every frame has the same number of instances (no NaN padding row), no predicted instances"""
    n_nodes = rng.randint(2, 4)
    H, W = rng.choice([16, 24, 32]), rng.choice([16, 24, 32])
    anchor = rng.randrange(n_nodes)
    n_inst = rng.randint(1, 3)
    frames = []
    for _ in range(rng.randint(1, 3)):
        insts = []
        for _ in range(n_inst):
            pts = gen_instance(rng, n_nodes, W, H, 0.25, "full" if rng.random() < 0.4 else None)
            if pts[anchor] is None:
                pts[anchor] = [dy(rng, 1, W - 2), dy(rng, 1, H - 2)]
            insts.append({"pts": pts, "pred": False})
        frames.append({"insts": insts, "video": 0, "frame_idx": rng.randint(0, 40)})
    edges = [[k, k + 1] for k in range(n_nodes - 1)]
    return {"n_nodes": n_nodes, "H": H, "W": W, "C": rng.choice([1, 3]), "frames": frames, "edges": edges,
            "img_seed": rng.randrange(1 << 30), "anchor": anchor, "n_videos": 1}


CHUNK_FNS = ("bottomup_data_chunks", "centered_instance_data_chunks", "centroid_data_chunks",
             "single_instance_data_chunks")


def gen_chunk_case(rng, name):
    """one call of a litdata chunk function (sleap_nn/data/get_data_chunks.py) on a labelled frame"""
    ls = gen_dense_label_set(rng) if rng.random() < 0.5 else gen_label_set(rng)
    idx = rng.randrange(len(ls["frames"]))
    uo = rng.random() < 0.8
    cons = considered(ls["frames"][idx], uo)
    r = rng.random()
    if r < 0.08:                                # OUTSIDE process_lf's domain (round 4): the code must raise
        for i in cons:
            i["pts"] = [None] * len(i["pts"])
    elif all(is_empty(i) for i in cons):        # process_lf's domain: a non-empty considered instance
        cons[0]["pts"][0] = [2.0, 3.0]
    H, W = ls["H"], ls["W"]
    mh, mw = rng.choice([(None, None), (None, None), (2 * H, 2 * W), (2 * H, 3 * W), (2 * H, None)])
    a = {"x": {"t": "tuple", "items": [{"t": "lf", "labels": ls, "index": idx}, ls["frames"][idx].get("video", 0)]},
         "data_config": {"t": "omegaconf", "data": {"preprocessing": {"is_rgb": rng.random() < 0.4, "max_height": mh,
                                                                      "max_width": mw}}},
         "max_hw": {"t": "tuple", "items": [H, W]},
         "user_instances_only": uo,
         "scale": rng.choice([0.5, 2.0, 0.5, 2.0, 1.0])}
    if name != "single_instance_data_chunks":
        a["max_instances"] = max(len(f["insts"]) for f in ls["frames"])
    if name in ("centroid_data_chunks", "centered_instance_data_chunks"):
        a["anchor_ind"] = ls["anchor"] if rng.random() >= 0.04 else ls["n_nodes"]     # 4 %: not a node (IndexError)
    if name == "centered_instance_data_chunks":
        a["crop_size"] = {"t": "tuple", "items": rng.choice([[8, 8], [12, 12]])}
    return {"fn": name, "args": a, "torch_seed": rng.randrange(1 << 30)}


def chunk_facts(case):
    """what the property expects of a chunk call (or of a process_lf call), from the SPEC only:
    (considered non-empty label instances, eff_scale, scale, max_instances as the function uses it, anchor)"""
    a = case["args"]
    if case["fn"] == "process_lf":
        lf = a["lf"]
        ls = lf["labels"]
        fr = ls["frames"][lf["index"]]
        cons = [i for i in considered(fr, a["user_instances_only"]) if not is_empty(i)]
        return {"ls": ls, "frame": fr, "cons": cons, "eff": 1.0, "scale": 1.0, "maxi": a["max_instances"],
                "anchor": None, "uo": a["user_instances_only"]}
    lf = a["x"]["items"][0]
    ls = lf["labels"]
    fr = ls["frames"][lf["index"]]
    cons = [i for i in considered(fr, a["user_instances_only"]) if not is_empty(i)]
    pre = a["data_config"]["data"]["preprocessing"]
    mh = pre["max_height"] if pre["max_height"] is not None else a["max_hw"]["items"][0]
    mw = pre["max_width"] if pre["max_width"] is not None else a["max_hw"]["items"][1]
    eff = min(mh / ls["H"], mw / ls["W"])
    maxi = 1 if case["fn"] == "single_instance_data_chunks" else a["max_instances"]
    return {"ls": ls, "frame": fr, "cons": cons, "eff": eff, "scale": a["scale"], "maxi": maxi,
            "anchor": a.get("anchor_ind"), "uo": a["user_instances_only"]}


def chunk_in_domain(case) -> bool:
    """spec-level domain of a chunk / process_lf call: a non-empty considered instance, and the anchor
    (centroid / centered-instance chunks) is a node"""
    f = chunk_facts(case)
    if not f["cons"]:
        return False
    if case["fn"] in ("centroid_data_chunks", "centered_instance_data_chunks") and f["anchor"] is not None:
        return 0 <= f["anchor"] < f["ls"]["n_nodes"]
    return True


def frame_mixed(fr) -> bool:
    return any(i["pred"] for i in fr["insts"]) and any(not i["pred"] for i in fr["insts"])


def chunk_summary(case, res):
    """JSON-able digest of a chunk result for the comparison with the Coq model"""
    name = case["fn"]
    s = case["args"].get("scale", 1.0)
    if name == "centered_instance_data_chunks":
        return {"crops": [{"rel": to_json(r["instance"][0] / s - r["centroid"][0]),
                           "cen_nan": bool(torch.isnan(r["centroid"]).any())} for r in res]}
    out = {"rows": to_json(res["instances"][0]), "n": int(res["num_instances"])}
    if name == "centroid_data_chunks":
        out["cents"] = to_json(res["centroids"][0])
    return out


def check_chunk(case, res):
    """The property's clauses on the result of a chunk call (model independent).  Returns failures."""
    f = chunk_facts(case)
    name, cons, eff, s, anchor = case["fn"], f["cons"], f["eff"], f["scale"], f["anchor"]
    n_nodes = f["ls"]["n_nodes"]
    fails = []

    def bad(clause, detail):
        fails.append({"clause": clause, "detail": detail})

    def cmp_rows(got, factor, what):
        """got: ndarray (rows, nodes, 2) vs the labels * factor"""
        for j, lab in enumerate(cons):
            for k, p in enumerate(lab["pts"]):
                g = got[j, k]
                if p is None:
                    if not np.isnan(g).all():
                        bad("missing keypoint is NaN in the sample", f"{what} row {j} node {k}: {g.tolist()}")
                elif not np.allclose(g, np.array(p) * factor, atol=1e-3, rtol=1e-4):
                    bad(f"keypoints = labels * {'eff_scale' if name == 'centroid_data_chunks' else 'eff_scale * scale'}",
                        f"{what} row {j} node {k}: sample {g.tolist()} label*factor {(np.array(p) * factor).tolist()}")
        for j in range(len(cons), got.shape[0]):
            if not np.isnan(got[j]).all():
                bad("padding rows are NaN", f"{what} row {j}: {got[j].tolist()}")

    def want_centroid(lab, factor):
        pts = [np.array(p) * factor for p in lab["pts"] if p is not None]
        a = lab["pts"][anchor] if anchor is not None else None
        return np.array(a) * factor if a is not None else (np.max(pts, 0) + np.min(pts, 0)) * 0.5

    fr = f["frame"]
    if name == "centered_instance_data_chunks":
        if not isinstance(res, list) or len(res) != len(cons):
            bad("one crop per non-empty instance", f"{len(res) if isinstance(res, list) else type(res)} vs {len(cons)}")
            return fails
        for j, (r, lab) in enumerate(zip(res, cons)):
            inst, cen = r["instance"].numpy(), r["centroid"].numpy()
            if inst.shape != (1, n_nodes, 2) or cen.shape != (1, 2):
                bad("shape", f"crop {j}: instance {inst.shape} centroid {cen.shape}")
                continue
            if int(r["num_instances"]) != len(cons) or int(r["frame_idx"]) != fr.get("frame_idx") \
                    or int(r["video_idx"]) != case["args"]["x"]["items"][1]:
                bad("num_instances / frame_idx / video_idx of the labelled frame", f"crop {j}")
            wc = want_centroid(lab, eff)
            rel = inst[0] / s - cen[0]
            for k, p in enumerate(lab["pts"]):
                if p is None:
                    if not np.isnan(inst[0, k]).all():
                        bad("missing keypoint is NaN in the sample", f"crop {j} node {k}: {inst[0, k].tolist()}")
                elif not np.allclose(rel[k], np.array(p) * eff - wc, atol=1e-3, rtol=1e-4):
                    bad("crop keypoints = label * eff_scale relative to the instance's centroid (anchor or bbox midpoint)",
                        f"crop {j} node {k}: {rel[k].tolist()} vs {(np.array(p) * eff - wc).tolist()}")
        return fails
    if not isinstance(res, dict):
        bad("returns a sample dict", str(type(res)))
        return fails
    if int(res["num_instances"]) != len(cons):
        bad("num_instances = number of non-empty instances of the frame", f"{int(res['num_instances'])} vs {len(cons)}")
        return fails
    if int(res["frame_idx"]) != fr.get("frame_idx") or int(res["video_idx"]) != case["args"]["x"]["items"][1]:
        bad("frame_idx / video_idx of the labelled frame", f"{int(res['frame_idx'])}, {int(res['video_idx'])}")
    insts = res["instances"].numpy()
    rows = len(cons) if f["maxi"] == 1 else len(cons) + abs(f["maxi"] - len(cons))
    if insts.shape != (1, rows, n_nodes, 2):
        bad("shape", f"instances {insts.shape}, expected (1, {rows}, {n_nodes}, 2)")
        return fails
    cmp_rows(insts[0], eff if name == "centroid_data_chunks" else eff * s, "instances")
    if name == "centroid_data_chunks":
        cen = res["centroids"].numpy()
        if cen.shape != (1, rows, 2):
            bad("shape", f"centroids {cen.shape}")
            return fails
        for j in range(rows):
            if j >= len(cons):
                if not np.isnan(cen[0, j]).all():
                    bad("padding centroids are NaN", f"row {j}")
            elif not np.allclose(cen[0, j], want_centroid(cons[j], eff * s), atol=1e-3, rtol=1e-4):
                bad("centroid = (anchor or bbox midpoint of the labelled keypoints) * eff_scale * scale",
                    f"row {j}: {cen[0, j].tolist()} vs {want_centroid(cons[j], eff * s).tolist()}")
    return fails


def gen_dataset_cfg(rng, ls):
    H, W = ls["H"], ls["W"]
    grow = rng.random() < 0.25
    return {
        "user_instances_only": rng.random() < 0.8,
        "is_rgb": rng.random() < 0.4,
        "scale": rng.choice([1.0, 1.0, 0.5]),
        "max_stride": rng.choice([1, 2, 8]),
        "max_hw": [2 * H, 2 * W] if grow else [None, None],
        "sigma": rng.choice([1.5, 2.5]),
        "output_stride": rng.choice([1, 2]),
        "paf_sigma": rng.choice([2.0, 4.0]),
        "paf_stride": rng.choice([2, 4]),
        "crop_hw": rng.choice([[8, 8], [12, 12]]),
        "anchor": ls["anchor"],
    }


# ----------------------------------------------------------------------------
# what the property expects of a label set (computed from the spec, never from
# the possibly-mutated label objects)

def rebound_frames(ls, user_only):
    """spec-level `map (rebind uo)`: the instance dicts each frame holds after the user filter was applied
    to the label objects (finding F110)"""
    return [considered(fr, user_only) for fr in ls["frames"]]


def considered(frame, user_only):
    insts = frame["insts"]
    if user_only:
        users = [i for i in insts if not i["pred"]]
        if users:
            return users
    return insts


def is_empty(inst):
    return all(p is None for p in inst["pts"])


def expected_indices(ls, user_only):
    lf_idx, inst_idx = [], []
    for fi, fr in enumerate(ls["frames"]):
        cons = considered(fr, user_only)
        if any(not is_empty(i) for i in cons):
            lf_idx.append(fi)
        for ii, i in enumerate(cons):
            if not is_empty(i):
                inst_idx.append((fi, ii))
    return lf_idx, inst_idx


def call_with_signature(fn, args: dict):
    """Call fn(**args); returns (result, ordered parameter names)."""
    names = list(inspect.signature(fn).parameters)
    return fn(**args), names


def frac(x):
    return Fraction(x).limit_denominator(1 << 20)
