"""C07 helper: the PUBLIC entry points that wrap global peak finding.

`FindInstancePeaks.forward` (sleap_nn/inference/topdown.py) and
`SingleInstanceInferenceModel.forward` (sleap_nn/inference/single_instance.py) are run
with a stub / identity network that returns hand-made maps, over the option grid
(peak_threshold omitted = the layer's default / 0.0 / equal to a map maximum / between the
maxima / ...; refinement omitted / None / "integral" / another string; integral_patch_size
omitted / 2..7; output_stride; input_scale; per-sample eff_scale; max_stride;
return_confmaps), plus `find_global_peaks` called with keyword arguments omitted (the
callee's own defaults).  Model: coq/theories/C07/Layer.v (`layer_peaks`,
`find_global_peaks_kw`).  The oracle is the property statement evaluated on the layer's
outputs at the CONFIGURED options (independent of the Coq model).
"""
from __future__ import annotations

import inspect
import math
from fractions import Fraction as F

from . import core
from . import c06_maps as M

PREAMBLE = ("From SV Require Import C06.Peaks C07.Global C07.Layer.\nFrom Coq Require Import List QArith.\n"
            "Import ListNotations.\nOpen Scope Q_scope.\n")
RUN, RENDER = "C07.Layer.run", "C07.Layer.rresult"
ATOL, RTOL = 2e-5, 3e-4
SEL_F2 = "F2_first_max_row_and_column_miss"
SEL_F9 = "F9_patch_negative_or_peak_nonpositive"
SEL_F25 = "F25_refinement_patch_sticks_out_of_map"
ENTRIES = ["find_instance_peaks"] * 5 + ["single_instance"] * 3 + ["function_kw"] * 2
REF_PY = {"none": None, "integral": "integral", "local": "local"}
REF_COQ = {"none": "RefNone", "integral": "RefIntegral", "local": "RefOther"}
WEAK = [F(1, 16), F(1, 32), F(1, 32), F(1, 64)]


# ---------------------------------------------------------------- generation
def scale_batch(cms, k):
    return [[[[v * k for v in row] for row in m] for m in smp] for smp in cms]


def gen_case(rng, thorough=False):
    edge = rng.random() < 0.1
    if edge:                       # non-dyadic threshold, channel maxima at / next to dtype(threshold)
        cms, ethr, edt = M.gen_thr_edge(rng)
        fam = "thr_edge"
    else:
        cms, fam = M.gen_batch(rng, 8)
    if not edge and rng.random() < 0.55:        # low-confidence maps: maxima between 0 and the usual thresholds (0.1 .. 0.3)
        cms, fam = scale_batch(cms, rng.choice(WEAK)), fam + "/weak"
    entry = rng.choice(ENTRIES)
    mxs = sorted({max(v for row in m for v in row) for smp in cms for m in smp})
    t = rng.random()
    if edge:                       # 0.2 is find_global_peaks' own default: sometimes leave it to the callee
        thr = None if (ethr == F(1, 5) and entry == "function_kw" and t < 0.5) else ethr
    elif t < 0.2:
        thr = None                                                  # omitted: the entry point's own default
    elif t < 0.45:
        thr = F(0)
    elif t < 0.6:
        thr = rng.choice(mxs)                                       # exactly a channel's maximum
    elif t < 0.7:
        thr = (mxs[0] + mxs[-1]) / 2 if len(mxs) > 1 else mxs[0]    # between the maxima
    elif t < 0.78:
        thr = mxs[-1] + F(rng.randint(1, 8), 64)                    # above everything
    elif t < 0.9:
        thr = rng.choice([F(1, 8), F(3, 16), F(1, 4), F(1, 16), F(-1, 8)])
    else:
        thr = M.gen_threshold(rng, cms)
    k = rng.random()
    ref = "omitted" if k < 0.2 else ("none" if k < 0.45 else ("local" if k < 0.55 else "integral"))
    p = None if rng.random() < 0.3 else M.gen_patch_size(rng)
    opts = {"thr": None if thr is None else str(thr), "refinement": ref, "p": p}
    c = {"kind": "layer", "entry": entry, "cms": cms, "family": fam, "opts": opts}
    if entry != "function_kw":
        opts["stride"] = rng.choice([1, 1, 2, 4, 8, 16, 3])
        opts["scale"] = rng.choice([None, None, "1", "1/2", "2", "1/4", "3/2", "3/4"])
        opts["return_confmaps"] = rng.random() < 0.3
        opts["max_stride"] = rng.choice([1, 1, 2, 4]) if entry == "find_instance_peaks" else 1
        c["net"] = "stub" if opts["max_stride"] != 1 or rng.random() < 0.5 else "identity"
        c["effs"] = [rng.choice(["1", "1", "1/2", "2", "3/4", "5/4", "1/4"]) for _ in cms]
    c["dtype"] = "float32"         # set by finish_case once the effective refinement is known
    c["_dt"] = rng.random()
    if edge:
        c["dtype"] = edt
        del c["_dt"]
    return c


def finish_case(c, mods):
    """dtype needs the effective refinement (defaults are read from the code)."""
    r = c.pop("_dt", None)
    if r is None:
        return c
    e = effective(c, mods)
    dt = "float32" if r < 0.8 else ("float64" if r < 0.9 else "float16")
    cms = c["cms"]
    if dt == "float16" and e["refinement"] == "integral" and (len(cms[0][0]) == 1 or len(cms[0][0][0]) == 1):
        dt = "float64"             # kornia raises on float16 crops of singleton axes (see C06)
    c["dtype"] = dt
    return c


def case_json(c):
    j = {k: v for k, v in c.items() if k not in ("cms", "_dt")}
    j["cms"] = M.cms_json(c["cms"])
    return j


def case_from_json(j):
    c = dict(j)
    c["cms"] = M.cms_from_json(j["cms"])
    return c


# ---------------------------------------------------------------- options actually in force
def _defaults(fn):
    return {k: p.default for k, p in inspect.signature(fn).parameters.items() if p.default is not inspect.Parameter.empty}


def effective(c, mods):
    """The options the call is CONFIGURED with: what is passed, else the declared default of
    the entry point that is called (read from its signature)."""
    torch, pf, FIP, SIM = mods
    o = c["opts"]
    if c["entry"] == "function_kw":
        d = _defaults(pf.find_global_peaks)
        dk = {"thr": "threshold", "refinement": "refinement", "p": "integral_patch_size"}
    else:
        d = _defaults((FIP if c["entry"] == "find_instance_peaks" else SIM).__init__)
        dk = {"thr": "peak_threshold", "refinement": "refinement", "p": "integral_patch_size", "scale": "input_scale"}
    thr = F(o["thr"]) if o["thr"] is not None else F(str(d[dk["thr"]]))
    if o["refinement"] == "omitted":
        dr = d[dk["refinement"]]
        ref = "none" if dr is None else ("integral" if dr == "integral" else "local")
    else:
        ref = o["refinement"]
    p = o["p"] if o["p"] is not None else int(d[dk["p"]])
    # thr_cmp: the threshold as the code compares it (rounded to the map's dtype) — the model's and the oracle's `thr`
    e = {"thr": thr, "thr_cmp": M.thr_in_dtype(thr, c.get("dtype", "float32")), "refinement": ref, "p": p,
         "stride": F(1), "scale": F(1)}
    if c["entry"] != "function_kw":
        e["stride"] = F(o["stride"])
        e["scale"] = F(o["scale"]) if o["scale"] is not None else F(str(d[dk["scale"]]))
    return e


def factors(c, e):
    """Per sample: output_stride / input_scale / eff_scale (image units per map cell)."""
    if c["entry"] == "function_kw":
        return [F(1)] * len(c["cms"])
    return [e["stride"] / e["scale"] / F(f) for f in c["effs"]]


def callee_defaults_lit(mods, dtype="float32"):
    """find_global_peaks' declared defaults (read from its signature) as a Coq `defaults`; the threshold as the
    code compares it with a map of the given dtype."""
    d = _defaults(mods[1].find_global_peaks)
    dr = d["refinement"]
    ref = "RefNone" if dr is None else ("RefIntegral" if dr == "integral" else "RefOther")
    return (f"(mk_defaults {core.cq(M.thr_in_dtype(F(str(d['threshold'])), dtype))} {ref} "
            f"{int(d['integral_patch_size'])}%nat)")


def term(c, fixed, mods):
    e = effective(c, mods)
    o = c["opts"]
    dl = callee_defaults_lit(mods, c.get("dtype", "float32"))
    if c["entry"] == "function_kw":
        kw = (f"(mk_kw {core.copt(None if o['thr'] is None else e['thr_cmp'], core.cq)} "
              f"{core.copt(None if o['refinement'] == 'omitted' else REF_COQ[o['refinement']])} "
              f"{core.copt(None if o['p'] is None else str(o['p']) + '%nat')})")
        return f"LKw {dl} {core.cbool(fixed)} {kw} {M.cms_lit(c['cms'])}"
    opts = (f"(mk_opts {core.cq(e['thr_cmp'])} {REF_COQ[e['refinement']]} {e['p']}%nat {core.cq(e['stride'])} "
            f"{core.cq(e['scale'])})")
    return (f"LPeaks {dl} {core.cbool(fixed)} {opts} {core.clist([F(f) for f in c['effs']], core.cq)} "
            f"{M.cms_lit(c['cms'])}")


# ---------------------------------------------------------------- implementation
def load_mods():
    import torch
    from sleap_nn.inference import peak_finding as pf
    from sleap_nn.inference.topdown import FindInstancePeaks
    from sleap_nn.inference.single_instance import SingleInstanceInferenceModel
    return torch, pf, FindInstancePeaks, SingleInstanceInferenceModel


def canon(pts, vals):
    return [[[p, v] for p, v in zip(ps, vs)] for ps, vs in zip(pts.tolist(), vals.tolist())]


def run_impl(c, mods, refinement=None, extra=None):
    """Runs the entry point; `refinement` overrides the option (used by the oracle to obtain
    the grid-aligned answer of the same layer).  Returns the canonical (samples, channels)
    table of [[x, y], value]; `extra` (a dict) receives the other outputs."""
    torch, pf, FIP, SIM = mods
    o = dict(c["opts"])
    if refinement is not None:
        o["refinement"] = refinement
    t = M.to_tensor(c["cms"], torch, c.get("dtype", "float32"))
    kw = {}
    if o["thr"] is not None:
        kw["threshold" if c["entry"] == "function_kw" else "peak_threshold"] = float(F(o["thr"]))
    if o["refinement"] != "omitted":
        kw["refinement"] = REF_PY[o["refinement"]]
    if o["p"] is not None:
        kw["integral_patch_size"] = o["p"]
    if c["entry"] == "function_kw":
        return canon(*pf.find_global_peaks(t, **kw))
    if o["scale"] is not None:
        kw["input_scale"] = float(F(o["scale"]))
    if o["return_confmaps"]:
        kw["return_confmaps"] = True
    B, H, W = t.shape[0], t.shape[2], t.shape[3]

    class Net(torch.nn.Module):
        def forward(self, x):
            self.seen = tuple(x.shape)
            return x if c["net"] == "identity" else t

    net = Net()
    image = t.clone() if c["net"] == "identity" else torch.zeros(B, 1, 2 * H + 1, 2 * W + 3)
    eff = torch.tensor([float(F(f)) for f in c["effs"]], dtype=torch.float32)
    if c["entry"] == "find_instance_peaks":
        if o["max_stride"] != 1:
            kw["max_stride"] = o["max_stride"]
        layer = FIP(torch_model=net, output_stride=o["stride"], **kw)
        bbox = torch.tensor([[[[0., 0.], [8., 0.], [8., 6.], [0., 6.]]]] * B)
        out = layer({"instance_image": image, "eff_scale": eff, "instance_bbox": bbox.clone(), "video_idx": 7})
    else:
        layer = SIM(torch_model=net, output_stride=o["stride"], **kw)
        out = layer({"image": image, "eff_scale": eff, "video_idx": 7})
        if not (isinstance(out, list) and len(out) == 1):
            raise TypeError(f"SingleInstanceInferenceModel.forward returned {type(out).__name__}")
        out = out[0]
    if extra is not None:
        extra["keys"] = sorted(out.keys())
        extra["confmaps_equal"] = ("pred_confmaps" in out and torch.equal(out["pred_confmaps"], t))
        extra["seen"] = net.seen
        if "instance_bbox" in out:
            extra["bbox"] = out["instance_bbox"].tolist()
    return canon(out["pred_instance_peaks"], out["pred_peak_values"])


# ---------------------------------------------------------------- the property, executable
def isnan(v):
    return isinstance(v, float) and math.isnan(v)


def selector_F2(m):
    mx = max(v for row in m for v in row)
    y = min(i for i, row in enumerate(m) if mx in row)
    x = min(j for j in range(len(m[0])) if any(row[j] == mx for row in m))
    return m[y][x] != mx


def oracle(c, out, mods, extra=None):
    """The property at the public entry point: with the options it is CONFIGURED with, every
    (sample, channel) whose maximum is below the threshold gives NaN / 0; every other one
    reports the maximum as value and, in map units (coordinates / (output_stride /
    input_scale / eff_scale)), a cell attaining it — refined by at most half a patch, unmoved
    on a symmetric window; each channel run alone through the same entry point gives the same
    answer.  Returns [(reason, selector)]."""
    fails = []
    e = effective(c, mods)
    cms, thr, p = c["cms"], e["thr_cmp"], e["p"]
    B, C = len(cms), len(cms[0])
    H, W = len(cms[0][0]), len(cms[0][0][0])
    if len(out) != B or any(len(o) != C for o in out):
        return [("output shape is not (samples, channels)", None)]
    refine = e["refinement"] == "integral"
    ts = M.tol_scale(c.get("dtype", "float32"))
    ks = [float(k) for k in factors(c, e)]
    rough = run_impl(c, mods, refinement="none") if refine else out
    name = c["entry"]
    for s in range(B):
        for ch in range(C):
            m = cms[s][ch]
            (pt, v), (rpt, rv) = out[s][ch], rough[s][ch]
            mx = max(x for row in m for x in row)
            where = f"{name}: map (sample {s}, channel {ch})"
            if mx < thr:
                if not (isnan(pt[0]) and isnan(pt[1]) and v == 0):
                    fails.append((f"{where}: maximum {mx} < configured threshold {thr} but reported {pt}, {v}", None))
                continue
            if isnan(v) or F(v) != mx:
                fails.append((f"{where}: maximum {mx} >= configured threshold {thr}: reported value {v} at {pt}", None))
                continue
            u = [rpt[0] / ks[s], rpt[1] / ks[s]]            # the grid-aligned answer in map units
            if any(isnan(t) for t in u) or any(abs(t - round(t)) > 1e-4 * (1 + abs(t)) for t in u) \
                    or not (0 <= round(u[0]) < W and 0 <= round(u[1]) < H):
                fails.append((f"{where}: grid-aligned peak {rpt} / factor {ks[s]} = {u} is not a cell of the map", None))
                continue
            x0, y0 = int(round(u[0])), int(round(u[1]))
            if m[y0][x0] != mx:
                fails.append((f"{where}: reported cell (x={x0}, y={y0}) holds {m[y0][x0]}, the maximum {mx} is "
                              f"elsewhere", SEL_F2 if selector_F2(m) else None))
            if refine:
                r = p // 2
                w = [pt[0] / ks[s], pt[1] / ks[s]]
                ok = all(math.isfinite(t) for t in w) and abs(w[0] - x0) <= p / 2 + 1e-4 and abs(w[1] - y0) <= p / 2 + 1e-4
                if not ok:
                    fails.append((f"{where}: refined {pt} (map units {w}) is more than half a patch (p={p}) from cell "
                                  f"{(x0, y0)}", SEL_F9 if M.selector_F9(m, x0, y0, r) else None))
                    continue
                moved = abs(w[0] - x0) > 1e-4 * ts or abs(w[1] - y0) > 1e-4 * ts                # (f), see props/c07.py
                if moved and not M.selector_F9(m, x0, y0, r):
                    P = M.patch_values(m, x0, y0, r)
                    n = 2 * r + 1
                    if all(P[i][j] == P[n - 1 - i][n - 1 - j] for i in range(n) for j in range(n)):
                        fails.append((f"{where}: window symmetric about {(x0, y0)} but refined to {w} (map units)", None))
                    elif M.patch_sticks_out(m, x0, y0, p) and M.radially_symmetric(m, x0, y0, r):
                        fails.append((f"{where}: bump symmetric about {(x0, y0)} (cut by the edge of the map) but refined "
                                      f"to {w} (map units)", SEL_F25))
    if B > 1 or C > 1:                                       # each channel alone through the same entry point
        for s in range(B):
            for ch in range(C):
                one = {**c, "cms": [[cms[s][ch]]]}
                if "effs" in c:
                    one["effs"] = [c["effs"][s]]
                alone = run_impl(one, mods)[0][0]
                here = out[s][ch]
                okp = all((isnan(a) and isnan(b)) or a == b or (not math.isfinite(a) and not math.isfinite(b)) or
                          (math.isfinite(a) and math.isfinite(b) and abs(a - b) <= 1e-4 * ts * (1 + abs(a)))
                          for a, b in zip(alone[0], here[0]))
                if not okp or alone[1] != here[1]:
                    fails.append((f"{name}: map (sample {s}, channel {ch}): in the batch {here}, alone {alone}", None))
    if extra is not None and c["entry"] != "function_kw":
        want = c["opts"]["return_confmaps"]
        if ("pred_confmaps" in extra["keys"]) != want or (want and not extra["confmaps_equal"]):
            fails.append((f"{name}: return_confmaps={want} but output keys {extra['keys']} / maps differ", None))
        if "video_idx" not in extra["keys"]:
            fails.append((f"{name}: input keys are not passed on: {extra['keys']}", None))
    return fails


# ---------------------------------------------------------------- correspondence
def rough_cell(m, fixed):
    mx = max(vv for row in m for vv in row)
    x0 = min(j for j in range(len(m[0])) if any(row[j] == mx for row in m))
    y0 = min(i for i, row in enumerate(m) if (row[x0] == mx if fixed else mx in row))
    return x0, y0


def compare(c, model, out, fixed, mods):
    """Model (exact rationals, image units) vs the entry point's output: values and NaN pattern
    exact; coordinates compared in map units with the tolerance of the C07 function-level tie."""
    e = effective(c, mods)
    skipped = 0
    if len(model) != len(out) or any(len(a) != len(b) for a, b in zip(model, out)):
        return "shape differs", 0
    refine = e["refinement"] == "integral"
    p = e["p"] if refine else 1
    r = p // 2
    ts = M.tol_scale(c.get("dtype", "float32"))
    ks = [float(k) for k in factors(c, e)]
    for s, (ms, os_) in enumerate(zip(model, out)):
        for ch, ((mpt, mv), (pt, v)) in enumerate(zip(ms, os_)):
            if float(core.frac(mv)) != v:
                return f"map ({s},{ch}): value impl {v} model {float(core.frac(mv))}", 0
            if mpt is None:
                if refine and v != 0:
                    skipped += 1
                    continue
                if refine and v == 0 and not (isnan(pt[0]) and isnan(pt[1])):
                    mx = max(vv for row in c["cms"][s][ch] for vv in row)
                    if mx >= e["thr_cmp"]:      # a valid peak of value 0 with a zero patch sum: non-finite in exact arithmetic
                        skipped += 1
                        continue
                if not (isnan(pt[0]) and isnan(pt[1])):
                    return f"map ({s},{ch}): impl {pt}, model NaN", 0
                continue
            a = [float(core.frac(mpt[0])) / ks[s], float(core.frac(mpt[1])) / ks[s]]
            w = [pt[0] / ks[s], pt[1] / ks[s]]
            if not refine:
                if not all(math.isfinite(y) and abs(x - y) <= 2e-6 * (1 + abs(x)) for x, y in zip(a, w)):
                    return f"map ({s},{ch}): impl {pt} model {[float(core.frac(q)) for q in mpt]}", 0
                continue
            m = c["cms"][s][ch]
            x0, y0 = rough_cell(m, fixed)
            sm, ab = M.patch_condition_p(m, x0, y0, p)
            cond = float(ab / abs(sm)) if sm != 0 else 1e9
            for x, y in zip(a, w):
                tol = ts * (ATOL + RTOL * abs(x) + 2e-5 * cond * (abs(x) + r + 1))
                if not (math.isfinite(y) and abs(x - y) <= tol):
                    return f"map ({s},{ch}): impl {pt} model {[float(core.frac(q)) for q in mpt]} (map units {w} vs {a})", 0
    return None, skipped
