"""cfg2coq — regenerate the C20 Coq model from the configuration sources.

Reads (stdlib `ast` only, nothing is imported or executed):

    sleap_nn/__init__.py                      (__version__)
    sleap_nn/config/utils.py                  (oneof — hand-modelled, pinned by AST hash)
    sleap_nn/config/data_config.py
    sleap_nn/config/model_config.py
    sleap_nn/config/trainer_config.py
    sleap_nn/config/training_job_config.py    (class translated; to_sleap_nn_cfg and
                                               verify_training_cfg hand-modelled, pinned)
    sleap_nn/train.py                         (the six get_* builders)

and writes

    coq/theories/Gen/C20_Schema.v    one `class_def` per attrs class (fields in attrs
                                     order incl. inherited ones, declared type,
                                     default, validator as a Gallina function, oneof
                                     flag, bases), the validator functions/methods
    coq/theories/Gen/C20_Builders.v  the builders as Gallina functions
                                     `(string -> cfg) -> res cfg` over SV.C20.CfgTree

FRESH OBJECT PER CALL.  The generated builders are closed Gallina functions of their
arguments: a name that is not a parameter or a local assigned on every path is rejected
(`Unsupported`), so a builder cannot read module-level (mutable) state, and module-level
statements other than imports / classes / functions are rejected in the config modules.
The one remaining channel for shared state is a schema default written as a mutable
literal or an instance instead of a factory (attrs hands the same object to every
instance); such fields are listed in the summary (`mutable_literal_defaults`) and the
check compares the list with what the implementation is seen to share in call - mutate -
call sequences.

FAIL-CLOSED: any AST shape outside the recognised fragment raises `Unsupported`
with the source location; nothing is written in that case (stale files are
removed) and the check treats the tie as broken.

The recognised fragment (statements): docstrings, `logger.<x>(...)` calls
(ignored), assignment to a local name, assignment to an attribute path rooted
at a local name, `if/elif/else`, `for x in <list>`, `for k, v in d.items()` with
`break`, `raise <Kind>(...)`, `return [expr]`.  Expressions: constants, tuples,
lists, dict literals with constant string keys, f-strings (opaque), names,
`isinstance(x, str|list|dict|int|float|bool)`, `x == "lit"`, `x is [not] None`,
`"k" in d`, `x [not] in ["a", ...]`, numeric comparison chains, `and/or/not`,
`x.startswith("lit")`, `all(<cond> for y in x)`, `d[k]`, `obj.attr`,
`Cls(k=v, **d)`, calls of other translated functions, `self.method(...)`,
`Cls.staticmethod(...)`.
"""
from __future__ import annotations

import ast
import hashlib
import json
import sys
from fractions import Fraction
from pathlib import Path

CONFIG_MODULES = ["data_config", "model_config", "trainer_config", "training_job_config"]
BUILDERS = ["get_aug_config", "get_backbone_config", "get_head_configs",
            "get_data_config", "get_model_config", "get_trainer_config"]

# Functions whose semantics is modelled by hand in C20/CfgTree.v (oneof_check,
# to_sleap_nn_cfg, normalise).  The hand model is tied to this exact AST
# (docstrings stripped, positions ignored).
PINNED = {
    ("config/utils.py", "oneof"): "PIN_ONEOF",
    ("config/training_job_config.py", "TrainingJobConfig.to_sleap_nn_cfg"): "PIN_TOCFG",
    ("config/training_job_config.py", "verify_training_cfg"): "PIN_VERIFY",
}
# methods that are not part of construction/validation and are ignored
IGNORED_METHODS = {("TrainingJobConfig", "check_output_strides"), ("TrainingJobConfig", "to_sleap_nn_cfg")}

EXC_KINDS = {"ValueError": "ValueError", "TypeError": "TypeError", "KeyError": "KeyError",
             "AttributeError": "AttributeError"}


class Unsupported(Exception):
    pass


def _loc(file, node):
    return f"{file}:{getattr(node, 'lineno', '?')}:{getattr(node, 'col_offset', '?')}"


def fail(file, node, msg):
    try:
        dump = ast.dump(node)[:160]
    except Exception:
        dump = repr(node)
    raise Unsupported(f"{_loc(file, node)}: {msg}: {dump}")


def strip_docstrings(tree):
    for n in ast.walk(tree):
        if isinstance(n, (ast.FunctionDef, ast.ClassDef, ast.Module, ast.AsyncFunctionDef)):
            if n.body and isinstance(n.body[0], ast.Expr) and isinstance(n.body[0].value, ast.Constant) \
                    and isinstance(n.body[0].value.value, str):
                n.body = n.body[1:] or [ast.Pass()]
    return tree


def ast_hash(node) -> str:
    import copy
    n = strip_docstrings(copy.deepcopy(node))
    return hashlib.sha1(ast.unparse(n).encode()).hexdigest()[:16]


# ------------------------------------------------------------------ Coq text

def cstr(s: str) -> str:
    if any(ord(ch) < 32 or ord(ch) > 126 for ch in s):
        raise Unsupported(f"non-printable string literal {s!r}")
    return '"' + s.replace('"', '""') + '"'


def cnum_int(n: int) -> str:
    return f"(VInt ({n})%Z)"


def cnum_float(x: float) -> str:
    f = Fraction(repr(x))
    return f"(VFloat (({f.numerator}) # {f.denominator}))"


def const_code(file, node) -> str:
    """A literal (constants, tuples, lists, dicts of literals) as a Coq cfg term."""
    if isinstance(node, ast.Constant):
        v = node.value
        if v is None:
            return "VNone"
        if isinstance(v, bool):
            return "(VBool true)" if v else "(VBool false)"
        if isinstance(v, int):
            return cnum_int(v)
        if isinstance(v, float):
            return cnum_float(v)
        if isinstance(v, str):
            return f"(VStr {cstr(v)})"
        fail(file, node, "constant of unsupported type")
    if isinstance(node, ast.UnaryOp) and isinstance(node.op, ast.USub) and isinstance(node.operand, ast.Constant) \
            and isinstance(node.operand.value, (int, float)) and not isinstance(node.operand.value, bool):
        v = -node.operand.value
        return cnum_int(v) if isinstance(v, int) else cnum_float(v)
    if isinstance(node, ast.Tuple):
        return "(VTup [" + "; ".join(const_code(file, e) for e in node.elts) + "])"
    if isinstance(node, ast.List):
        return "(VList [" + "; ".join(const_code(file, e) for e in node.elts) + "])"
    if isinstance(node, ast.Dict):
        items = []
        for k, v in zip(node.keys, node.values):
            if not (isinstance(k, ast.Constant) and isinstance(k.value, str)):
                fail(file, node, "dict literal key is not a constant string")
            items.append(f"({cstr(k.value)}, {const_code(file, v)})")
        return "(VDict [" + "; ".join(items) + "])"
    fail(file, node, "not a literal")


def is_literal(node) -> bool:
    try:
        const_code("?", node)
        return True
    except Unsupported:
        return False


class R:
    """Result of translating an expression."""
    __slots__ = ("kind", "code", "pure")

    def __init__(self, kind, code, pure):
        self.kind, self.code, self.pure = kind, code, pure


def tup(names):
    if not names:
        return "tt"
    if len(names) == 1:
        return names[0]
    return "(" + ", ".join(names) + ")"


def tup_pat(names):
    if not names:
        return "_"
    if len(names) == 1:
        return names[0]
    return "'(" + ", ".join(names) + ")"


def mkbind(code, pat, k):
    """bind code (fun pat => k), with the right-identity law applied when k is `Ok pat`."""
    if k.strip() == "Ok " + pat and not pat.startswith("'") and pat != "_":
        return code
    return f"bind ({code}) (fun {pat} =>\n  {k})"


def tup_ty(names):
    if not names:
        return "unit"
    if len(names) == 1:
        return "cfg"
    return "(" + " * ".join("cfg" for _ in names) + ")%type"


# ------------------------------------------------------------ function bodies

class Fn:
    """Translates one Python function body."""

    def __init__(self, tr, file, qualname, cls=None):
        self.tr, self.file, self.qualname, self.cls = tr, file, qualname, cls
        self.defined: set[str] = set()
        self.used: set[str] = set()
        self.tmp = 0
        self.aux: list[str] = []          # lambda-lifted loop bodies (Coq definitions)
        self.loop_names: list[str] = []
        self.escaped: set[str] = set()    # locals whose object has been stored elsewhere
        self.params_set: set[str] = set()
        self.ret_mode = "value"

    # -- names
    def v(self, name):
        return "v_" + name

    def fresh(self):
        self.tmp += 1
        return f"t{self.tmp}"

    # -- sequencing of possibly-raising sub-expressions, left to right
    def seq(self, results, k, k_returns_res=True):
        names, wraps = [], []
        for r in results:
            if r.pure:
                names.append(r.code)
            else:
                t = self.fresh()
                wraps.append((t, r.code))
                names.append(t)
        inner = k(names)
        for t, c in reversed(wraps):
            inner = f"bind ({c}) (fun {t} => {inner})"
        return inner

    def combine(self, kind, results, f, op_pure):
        """op_pure: f(names) has type cfg/bool; else f(names) has type res _."""
        if op_pure and all(r.pure for r in results):
            return R(kind, f([r.code for r in results]), True)
        if op_pure:
            return R(kind, self.seq(results, lambda ns: "Ok (" + f(ns) + ")"), False)
        return R(kind, self.seq(results, f), False)

    def as_bool(self, r: R) -> R:
        if r.kind == "bool":
            return r
        if r.pure:
            return R("bool", f"(py_truthy {r.code})", True)
        return R("bool", f"bind ({r.code}) (fun x => Ok (py_truthy x))", False)

    def as_res(self, r: R) -> str:
        return r.code if not r.pure else f"Ok {r.code}"

    # -- expressions
    def expr(self, e) -> R:
        f = self.file
        if is_literal(e):
            return R("cfg", const_code(f, e), True)
        if isinstance(e, ast.Name):
            if e.id in self.defined:
                self.used.add(e.id)
                return R("cfg", self.v(e.id), True)
            if e.id == "MISSING":
                return R("cfg", "VMissing", True)
            fail(f, e, f"name '{e.id}' is not a local variable defined on every path")
        if isinstance(e, ast.JoinedStr):
            return R("cfg", '(VStr "<f-string>")', True)          # message text only
        if isinstance(e, (ast.Tuple, ast.List)):
            rs = [self.expr(x) for x in e.elts]
            con = "VTup" if isinstance(e, ast.Tuple) else "VList"
            self.mark_escaped(e.elts)
            return self.combine("cfg", rs, lambda ns: f"({con} [" + "; ".join(ns) + "])", True)
        if isinstance(e, ast.Dict):
            keys = []
            for k in e.keys:
                if not (isinstance(k, ast.Constant) and isinstance(k.value, str)):
                    fail(f, e, "dict literal key is not a constant string")
                keys.append(k.value)
            rs = [self.expr(x) for x in e.values]
            self.mark_escaped(e.values)
            return self.combine("cfg", rs, lambda ns: "(VDict [" + "; ".join(
                f"({cstr(k)}, {n})" for k, n in zip(keys, ns)) + "])", True)
        if isinstance(e, ast.Attribute) and isinstance(e.ctx, ast.Load):
            r = self.expr(e.value)
            return self.combine("cfg", [r], lambda ns: f"py_getattr {ns[0]} {cstr(e.attr)}", False)
        if isinstance(e, ast.Subscript) and isinstance(e.ctx, ast.Load):
            rs = [self.expr(e.value), self.expr(e.slice)]
            return self.combine("cfg", rs, lambda ns: f"py_subscript {ns[0]} {ns[1]}", False)
        if isinstance(e, ast.UnaryOp) and isinstance(e.op, ast.Not):
            r = self.as_bool(self.expr(e.operand))
            return self.combine("bool", [r], lambda ns: f"(negb {ns[0]})", True)
        if isinstance(e, ast.BoolOp):
            rs = [self.as_bool(self.expr(x)) for x in e.values]
            if all(r.pure for r in rs):
                op = "andb" if isinstance(e.op, ast.And) else "orb"
                code = rs[-1].code
                for r in reversed(rs[:-1]):
                    code = f"({op} {r.code} {code})"
                return R("bool", code, True)
            op = "py_and" if isinstance(e.op, ast.And) else "py_or"
            code = self.as_res(rs[-1])
            for r in reversed(rs[:-1]):
                code = f"{op} ({self.as_res(r)}) (fun _ => {code})"
            return R("bool", code, False)
        if isinstance(e, ast.Compare):
            return self.compare(e)
        if isinstance(e, ast.Call):
            return self.call(e)
        fail(f, e, "unsupported expression")

    def mark_escaped(self, nodes):
        for n in nodes:
            if isinstance(n, ast.Name):
                self.escaped.add(n.id)

    def compare(self, e) -> R:
        f = self.file
        if len(e.ops) == 1:
            op, a, b = e.ops[0], e.left, e.comparators[0]
            if isinstance(op, (ast.Is, ast.IsNot)) and isinstance(b, ast.Constant) and b.value is None:
                r = self.expr(a)
                neg = isinstance(op, ast.IsNot)
                return self.combine("bool", [r], lambda ns: (f"(negb (is_none {ns[0]}))" if neg
                                                              else f"(is_none {ns[0]})"), True)
            if isinstance(op, (ast.Eq, ast.NotEq)) and isinstance(b, ast.Constant) and isinstance(b.value, str):
                r = self.expr(a)
                neg = isinstance(op, ast.NotEq)
                return self.combine("bool", [r], lambda ns: (f"(negb (py_eq_str {ns[0]} {cstr(b.value)}))" if neg
                                                              else f"(py_eq_str {ns[0]} {cstr(b.value)})"), True)
            if isinstance(op, (ast.In, ast.NotIn)):
                neg = isinstance(op, ast.NotIn)
                if isinstance(b, ast.List) and all(isinstance(x, ast.Constant) and isinstance(x.value, str)
                                                   for x in b.elts):
                    lst = "[" + "; ".join(cstr(x.value) for x in b.elts) + "]"
                    r = self.expr(a)
                    return self.combine("bool", [r], lambda ns: (f"(negb (py_in_strs {ns[0]} {lst}))" if neg
                                                                  else f"(py_in_strs {ns[0]} {lst})"), True)
                rs = [self.expr(b), self.expr(a)]
                if neg:
                    return self.combine("bool", rs, lambda ns: f"bind (py_contains {ns[0]} {ns[1]}) (fun x => Ok (negb x))",
                                        False)
                return self.combine("bool", rs, lambda ns: f"py_contains {ns[0]} {ns[1]}", False)
        # numeric comparison chain  a <= b <= c
        table = {ast.LtE: "py_le", ast.Lt: "py_lt", ast.GtE: "py_ge", ast.Gt: "py_gt"}
        if all(type(o) in table for o in e.ops):
            operands = [e.left] + list(e.comparators)
            for x in operands:
                if not (is_literal(x) or isinstance(x, (ast.Name, ast.Attribute))):
                    fail(f, e, "comparison operand must be a literal, a name or an attribute")
            rs = [self.expr(x) for x in operands]
            # operands are evaluated once, left to right; attribute reads may raise
            def k(ns):
                parts = [f"{table[type(o)]} {ns[i]} {ns[i + 1]}" for i, o in enumerate(e.ops)]
                code = parts[-1]
                for p in reversed(parts[:-1]):
                    code = f"py_and ({p}) (fun _ => {code})"
                return code
            return self.combine("bool", rs, k, False)
        fail(f, e, "unsupported comparison")

    def call(self, e) -> R:
        f = self.file
        fn = e.func
        if isinstance(fn, ast.Name):
            name = fn.id
            if name == "isinstance" and len(e.args) == 2 and isinstance(e.args[1], ast.Name) and not e.keywords:
                t = {"str": "py_is_str", "list": "py_is_list", "dict": "py_is_dict", "int": "py_is_int",
                     "float": "py_is_float", "bool": "py_is_bool"}.get(e.args[1].id)
                if t is None:
                    fail(f, e, "isinstance against an unsupported type")
                r = self.expr(e.args[0])
                return self.combine("bool", [r], lambda ns: f"({t} {ns[0]})", True)
            if name == "all" and len(e.args) == 1 and isinstance(e.args[0], ast.GeneratorExp) and not e.keywords:
                g = e.args[0]
                if len(g.generators) != 1 or g.generators[0].ifs or g.generators[0].is_async \
                        or not isinstance(g.generators[0].target, ast.Name):
                    fail(f, e, "unsupported generator expression")
                it = self.expr(g.generators[0].iter)
                x = g.generators[0].target.id
                saved = set(self.defined)
                self.defined.add(x)
                body = self.as_bool(self.expr(g.elt))
                self.defined = saved
                return self.combine("bool", [it],
                                    lambda ns: f"py_all {ns[0]} (fun {self.v(x)} => {self.as_res(body)})", False)
            if name in self.tr.classes:
                return self.construct(name, e)
            if name in self.tr.functions:
                return self.call_function(name, e)
            fail(f, e, f"call of unknown function '{name}'")
        if isinstance(fn, ast.Attribute):
            # x.startswith("lit")
            if fn.attr == "startswith" and len(e.args) == 1 and isinstance(e.args[0], ast.Constant) \
                    and isinstance(e.args[0].value, str) and not e.keywords:
                r = self.expr(fn.value)
                return self.combine("bool", [r], lambda ns: f"py_startswith {ns[0]} {cstr(e.args[0].value)}", False)
            # Cls.static(args)
            if isinstance(fn.value, ast.Name) and fn.value.id in self.tr.class_nodes and fn.value.id not in self.defined:
                return self.call_method(fn.value.id, fn.attr, None, e)
            # obj.method(args) where obj is `self`-like: only inside a class
            if isinstance(fn.value, ast.Name) and fn.value.id in self.defined and self.cls is not None:
                return self.call_method(self.cls, fn.attr, fn.value, e)
        fail(f, e, "unsupported call")

    def construct(self, cname, e) -> R:
        f = self.file
        if e.args:
            fail(f, e, "positional constructor arguments are not supported")
        keys, vals, stars = [], [], []
        for kw in e.keywords:
            if kw.arg is None:
                stars.append(self.expr(kw.value))
            else:
                if stars:
                    fail(f, e, "keyword after ** expansion")
                keys.append(kw.arg)
                vals.append(self.expr(kw.value))
        self.mark_escaped([kw.value for kw in e.keywords])
        nk = len(keys)

        def k(ns):
            ex = "[" + "; ".join(f"({cstr(a)}, {n})" for a, n in zip(keys, ns[:nk])) + "]"
            st = "[" + "; ".join(ns[nk:]) + "]"
            return f"mk_kw cls_{cname} {ex} {st}"
        return self.combine("cfg", vals + stars, k, False)

    def call_function(self, name, e) -> R:
        f = self.file
        info = self.tr.functions[name]
        params = info["params"]
        if info["style"] == "env":
            keys, vals = [], []
            if len(e.args) > len(params):
                fail(f, e, "too many positional arguments")
            for p, a in zip(params, e.args):
                keys.append(p)
                vals.append(self.expr(a))
            for kw in e.keywords:
                if kw.arg is None:
                    fail(f, e, "** expansion in a builder call")
                if kw.arg not in params or kw.arg in keys:
                    fail(f, e, f"unknown or repeated keyword '{kw.arg}'")
                keys.append(kw.arg)
                vals.append(self.expr(kw.value))
            for p in info["required"]:
                if p not in keys:
                    fail(f, e, f"required parameter '{p}' not supplied")
            self.mark_escaped(list(e.args) + [kw.value for kw in e.keywords])
            return self.combine("cfg", vals, lambda ns: f"{info['coq']} (env_of [" + "; ".join(
                f"({cstr(k)}, {n})" for k, n in zip(keys, ns)) + f"] {info['coq']}_defaults)", False)
        # positional style (validators)
        if e.keywords or len(e.args) != len(params):
            fail(f, e, "validator functions are called positionally with all arguments")
        vals = [self.expr(a) for a in e.args]
        return self.combine("cfg", vals, lambda ns: f"{info['coq']} " + " ".join(ns), False)

    def call_method(self, cname, mname, selfnode, e) -> R:
        f = self.file
        m = self.tr.method(cname, mname, self.file, e)
        if e.keywords:
            fail(f, e, "keyword arguments in a method call")
        args = ([selfnode] if (selfnode is not None and not m["static"]) else []) + list(e.args)
        if selfnode is None and not m["static"]:
            fail(f, e, "instance method called on the class")
        if len(args) != len(m["params"]):
            fail(f, e, "wrong number of arguments in a method call")
        vals = [self.expr(a) for a in args]
        return self.combine("cfg", vals, lambda ns: f"{m['coq']} " + " ".join(ns), False)

    # -- statements
    @staticmethod
    def assigned(stmts) -> set:
        out = set()
        for s in stmts:
            for n in ast.walk(s):
                if isinstance(n, ast.Assign):
                    for t in n.targets:
                        root = t
                        while isinstance(root, ast.Attribute):
                            root = root.value
                        if isinstance(root, ast.Name):
                            out.add(root.id)
        return out

    @staticmethod
    def has_jump(stmts) -> bool:
        """A return anywhere, or a break/continue that belongs to an enclosing loop
        (not to a loop nested inside these statements)."""
        def walk(n, in_loop):
            if isinstance(n, ast.Return):
                return True
            if isinstance(n, (ast.Break, ast.Continue)):
                return not in_loop
            if isinstance(n, (ast.For, ast.While)):
                return any(walk(c, True) for c in n.body) or any(walk(c, in_loop) for c in n.orelse)
            return any(walk(c, in_loop) for c in ast.iter_child_nodes(n))
        return any(walk(s, False) for s in stmts)

    def block(self, stmts, k, brk=None):
        """Code (type res T) of the statements followed by the continuation k().
        brk: code generator for `break` (inside an items loop)."""
        f = self.file
        if not stmts:
            return k()
        s, rest = stmts[0], stmts[1:]

        def cont():
            return self.block(rest, k, brk)

        def dead():
            if rest:
                fail(f, rest[0], "unreachable statement after return/raise/break")

        if isinstance(s, ast.Pass):
            return cont()
        if isinstance(s, ast.Expr):
            v = s.value
            if isinstance(v, ast.Constant) and isinstance(v.value, str):
                return cont()
            if isinstance(v, ast.Call) and isinstance(v.func, ast.Attribute) and isinstance(v.func.value, ast.Name) \
                    and v.func.value.id == "logger":
                return cont()
            fail(f, s, "expression statement with possible effects")
        if isinstance(s, ast.Return):
            dead()
            if s.value is None:
                return "Ok VNone"
            if self.ret_mode != "value":
                fail(f, s, "return inside a loop")
            r = self.expr(s.value)
            if r.kind == "bool":
                r = self.combine("cfg", [r], lambda ns: f"(VBool {ns[0]})", True)
            return self.as_res(r)
        if isinstance(s, ast.Raise):
            dead()
            exc = s.exc
            name = exc.func.id if isinstance(exc, ast.Call) and isinstance(exc.func, ast.Name) else \
                exc.id if isinstance(exc, ast.Name) else None
            if name not in EXC_KINDS or s.cause is not None:
                fail(f, s, "raise of an unsupported exception")
            return f"Err {EXC_KINDS[name]}"
        if isinstance(s, ast.Break):
            dead()
            if brk is None:
                fail(f, s, "break outside a supported loop")
            return brk()
        if isinstance(s, ast.Assign):
            if len(s.targets) != 1:
                fail(f, s, "multiple assignment targets")
            t = s.targets[0]
            r = self.expr(s.value)
            if r.kind == "bool":
                r = self.combine("cfg", [r], lambda ns: f"(VBool {ns[0]})", True)
            if isinstance(t, ast.Name):
                if isinstance(s.value, ast.Name):
                    fail(f, s, "aliasing assignment between local names")
                self.escaped.discard(t.id)
                if r.pure:
                    self.defined.add(t.id)
                    return f"let {self.v(t.id)} := {r.code} in\n  {cont()}"
                # the bound name is defined only inside the continuation
                code_r = r.code
                self.defined.add(t.id)
                return mkbind(code_r, self.v(t.id), cont())
            if isinstance(t, ast.Attribute):
                path, root = [], t
                while isinstance(root, ast.Attribute):
                    path.append(root.attr)
                    root = root.value
                path.reverse()
                if not (isinstance(root, ast.Name) and root.id in self.defined):
                    fail(f, s, "attribute assignment not rooted at a local variable")
                if root.id in self.escaped or root.id in self.params_set:
                    fail(f, s, f"'{root.id}' is mutated after it has been stored elsewhere / is a parameter "
                               "(aliasing is outside the tree model)")
                self.mark_escaped([s.value])
                self.used.add(root.id)
                pth = "[" + "; ".join(cstr(p) for p in path) + "]"
                x = self.v(root.id)
                code = self.seq([r], lambda ns: f"py_setattr_path classes {x} {pth} {ns[0]}")
                return mkbind(code, x, cont())
            fail(f, s, "unsupported assignment target")
        if isinstance(s, ast.If):
            c = self.as_bool(self.expr(s.test))
            saved = set(self.defined)
            saved_esc = set(self.escaped)
            if self.has_jump([s]):
                # continuation is duplicated into the branches
                a = self.block(list(s.body), lambda: self.block(list(rest), k, brk), brk)
                esc_a = set(self.escaped)
                self.defined = set(saved)
                self.escaped = set(saved_esc)
                b = self.block(list(s.orelse), lambda: self.block(list(rest), k, brk), brk)
                self.escaped |= esc_a
                self.defined = set(saved)      # (conservative; nothing follows)
                body = lambda cn: f"(if {cn} then\n  {a}\n else\n  {b})"
                return body(c.code) if c.pure else f"bind ({c.code}) (fun c => {body('c')})"
            m = sorted(self.assigned([s]) & saved)
            ret = lambda: "Ok " + tup([self.v(x) for x in m])
            a = self.block(list(s.body), ret, brk)
            esc_a = set(self.escaped)
            self.defined = set(saved)
            self.escaped = set(saved_esc)
            b = self.block(list(s.orelse), ret, brk)
            self.escaped |= esc_a
            self.defined = set(saved)
            for x in m:
                self.used.add(x)
            ite = (lambda cn: f"(if {cn} then\n  {a}\n else\n  {b})")
            head = ite(c.code) if c.pure else f"bind ({c.code}) (fun c => {ite('c')})"
            return mkbind(head, tup_pat([self.v(x) for x in m]), cont())
        if isinstance(s, ast.For):
            if s.orelse:
                fail(f, s, "for/else")
            return self.for_loop(s, cont)
        fail(f, s, "unsupported statement")

    def for_loop(self, s, cont):
        f = self.file
        saved = set(self.defined)
        # for k, v in d.items(): ... break
        if isinstance(s.target, ast.Tuple):
            if not (len(s.target.elts) == 2 and all(isinstance(x, ast.Name) for x in s.target.elts)
                    and isinstance(s.iter, ast.Call) and isinstance(s.iter.func, ast.Attribute)
                    and s.iter.func.attr == "items" and not s.iter.args and not s.iter.keywords):
                fail(f, s, "unsupported for-loop shape")
            if any(isinstance(n, (ast.Return, ast.Continue, ast.For, ast.While)) for b in s.body for n in ast.walk(b)):
                fail(f, s, "return/continue/nested loop inside an items loop")
            d = self.expr(s.iter.func.value)
            kname, vname = s.target.elts[0].id, s.target.elts[1].id
            m = sorted(self.assigned(s.body) & saved - {kname, vname})
            st = [self.v(x) for x in m]
            self.defined |= {kname, vname}
            old_mode, self.ret_mode = self.ret_mode, "loop"
            body = self.block(list(s.body), lambda: f"Ok ({tup(st)}, false)", brk=lambda: f"Ok ({tup(st)}, true)")
            self.ret_mode = old_mode
            self.defined = set(saved)
            code = self.seq([d], lambda ns: f"py_for_items {ns[0]} {tup(st)} "
                                            f"(fun {tup_pat(st)} {self.v(kname)} {self.v(vname)} =>\n  {body})")
            return mkbind(code, tup_pat(st), cont())
        if not isinstance(s.target, ast.Name):
            fail(f, s, "unsupported for-loop target")
        if any(isinstance(n, (ast.Return, ast.Break, ast.Continue, ast.For, ast.While))
               for b in s.body for n in ast.walk(b)):
            fail(f, s, "return/break/continue/nested loop inside a list loop")
        it = self.expr(s.iter)
        x = s.target.id
        m = sorted(self.assigned(s.body) & saved - {x})
        st = [self.v(y) for y in m]
        used_before = set(self.used)
        self.used = set()
        self.defined.add(x)
        old_mode, self.ret_mode = self.ret_mode, "loop"
        body = self.block(list(s.body), lambda: "Ok " + tup(st))
        self.ret_mode = old_mode
        captured = sorted((self.used & saved) - set(m) - {x})
        self.used |= used_before
        self.defined = set(saved)
        base = self.qualname.replace(".", "__")
        suffix = s.iter.id if isinstance(s.iter, ast.Name) else str(len(self.loop_names) + 1)
        lname = f"{base}__for_{suffix}"
        if lname in self.loop_names:
            lname += f"_{len(self.loop_names) + 1}"
        self.loop_names.append(lname)
        caps = "".join(f" ({self.v(c)} : cfg)" for c in captured)
        self.aux.append(
            f"Definition {lname}{caps} (st : {tup_ty(st)}) ({self.v(x)} : cfg) : res {tup_ty(st)} :=\n"
            f"  let {tup_pat(st)} := st in\n  {body}.\n")
        call = lname + "".join(f" {self.v(c)}" for c in captured)
        code = self.seq([it], lambda ns: f"py_for {ns[0]} {tup(st)} ({call})")
        return mkbind(code, tup_pat(st), cont())

    def function(self, fd: ast.FunctionDef, params, style):
        """Returns the Coq body (type res cfg)."""
        self.defined = set(params)
        self.params_set = set(params) if style == "env" else set()
        self.ret_mode = "value"
        a = fd.args
        if a.vararg or a.kwarg or a.kwonlyargs or a.posonlyargs:
            fail(self.file, fd, "unsupported parameter kinds")
        return self.block(list(fd.body), lambda: "Ok VNone")


# ------------------------------------------------------------------ modules

class Translator:
    def __init__(self, repo: Path):
        self.repo = Path(repo)
        self.pkg = self.repo / "sleap_nn"
        self.classes: dict[str, dict] = {}        # name -> info
        self.class_order: list[str] = []
        self.functions: dict[str, dict] = {}      # module-level functions translated
        self.methods: dict[tuple, dict] = {}
        self.schema_defs: list[str] = []          # Coq text, in order
        self.builder_defs: list[str] = []
        self.summary = {"classes": {}, "builders": {}, "pinned": {}, "mutable_literal_defaults": []}
        self.module_funcs: dict[str, tuple] = {}  # name -> (file, FunctionDef) available for translation
        self.class_nodes: dict[str, tuple] = {}
        self.version = None

    # -- helpers
    def parse(self, rel):
        p = self.pkg / rel
        try:
            return ast.parse(p.read_text(), filename=str(p))
        except (OSError, SyntaxError) as e:
            raise Unsupported(f"{p}: cannot parse: {e}")

    def check_pins(self):
        for (rel, qual), want in PINNED.items():
            tree = self.parse(rel)
            node = None
            parts = qual.split(".")
            body = tree.body
            for i, part in enumerate(parts):
                node = next((n for n in body if isinstance(n, (ast.FunctionDef, ast.ClassDef)) and n.name == part), None)
                if node is None:
                    raise Unsupported(f"sleap_nn/{rel}: hand-modelled function {qual} not found")
                body = node.body
            got = ast_hash(node)
            self.summary["pinned"][f"{rel}:{qual}"] = got
            if got != PIN_VALUES[want]:
                raise Unsupported(f"sleap_nn/{rel}:{node.lineno}: hand-modelled function {qual} changed "
                                  f"(AST hash {got}, model written for {PIN_VALUES[want]})")

    def read_version(self):
        tree = self.parse("__init__.py")
        for n in tree.body:
            if isinstance(n, ast.Assign) and len(n.targets) == 1 and isinstance(n.targets[0], ast.Name) \
                    and n.targets[0].id == "__version__" and isinstance(n.value, ast.Constant) \
                    and isinstance(n.value.value, str):
                self.version = n.value.value
                return
        raise Unsupported("sleap_nn/__init__.py: __version__ is not a constant string assignment")

    # -- annotation -> (ty, optional)
    def ann(self, file, node):
        if isinstance(node, ast.Name):
            t = {"bool": "TBool", "int": "TInt", "float": "TFloat", "str": "TStr", "Text": "TStr",
                 "Any": "TAny", "dict": "TDict", "list": "TList"}.get(node.id)
            if t:
                return t, False
            if node.id in self.class_nodes:
                return f"(TCls {cstr(node.id)})", False
            fail(file, node, "unknown annotation")
        if isinstance(node, ast.Subscript) and isinstance(node.value, ast.Name):
            h = node.value.id
            if h == "Optional":
                t, _ = self.ann(file, node.slice)
                return t, True
            if h in ("Tuple", "List"):
                # OmegaConf types every element of List[T] / Tuple[T, ...] (converting scalars of another
                # type, rejecting None): the element type is part of the model (TListOf)
                sl = node.slice
                elems = list(sl.elts) if isinstance(sl, ast.Tuple) else [sl]
                elems = [e for e in elems if not (isinstance(e, ast.Constant) and e.value is Ellipsis)]
                tys = [self.ann(file, e) for e in elems]
                if not tys or any(o for _, o in tys) or len({t for t, _ in tys}) != 1:
                    fail(file, node, "list / tuple annotation with optional or mixed element types")
                et = tys[0][0]
                return ("TList" if et == "TAny" else f"(TListOf {et})"), False
            if h == "Dict":
                return "TDict", False
            if h == "Union":
                return "TAny", False
        fail(file, node, "unknown annotation")

    # -- methods are translated on demand (only those validators reach)
    def method(self, cname, mname, file, at):
        for c in [cname] + self.classes.get(cname, {}).get("bases", self.pending_bases.get(cname, [])):
            key = (c, mname)
            if key in self.methods:
                return self.methods[key]
            cfile, cnode = self.class_nodes[c]
            for n in cnode.body:
                if isinstance(n, ast.FunctionDef) and n.name == mname:
                    return self.translate_method(c, cfile, n)
        fail(file, at, f"method {cname}.{mname} not found")

    def translate_method(self, cname, file, fd):
        static = False
        for d in fd.decorator_list:
            if isinstance(d, ast.Name) and d.id == "staticmethod":
                static = True
            else:
                fail(file, fd, "unsupported method decorator")
        params = [a.arg for a in fd.args.args]
        if fd.args.defaults:
            fail(file, fd, "default arguments on a validator method")
        coq = f"{cname}__{fd.name}"
        info = {"coq": coq, "params": params, "static": static}
        self.methods[(cname, fd.name)] = info           # (recursion would loop in Coq anyway)
        fn = Fn(self, file, f"{cname}.{fd.name}", cls=cname)
        body = fn.function(fd, params, "pos")
        args = " ".join(f"(v_{p} : cfg)" for p in params) or "(_ : unit)"
        self.schema_defs.extend(fn.aux)
        self.schema_defs.append(f"(* {file}:{fd.lineno} {cname}.{fd.name} *)\n"
                                f"Definition {coq} {args} : res cfg :=\n  {body}.\n")
        return info

    def translate_module_function(self, name, file, fd, style, out):
        params = [a.arg for a in fd.args.args]
        nd = len(fd.args.defaults)
        required = params[:len(params) - nd]
        defaults = {}
        for p, d in zip(params[len(params) - nd:], fd.args.defaults):
            if not is_literal(d):
                fail(file, d, "parameter default is not a literal")
            defaults[p] = d
            if style == "env" and any(isinstance(n, (ast.List, ast.Dict, ast.Set)) for n in ast.walk(d)):
                # a mutable default argument is one object shared by every call that omits the argument
                self.summary["mutable_literal_defaults"].append([name, p])
        for d in fd.decorator_list:
            fail(file, fd, "decorated function")
        info = {"coq": name, "params": params, "required": required, "style": style}
        fn = Fn(self, file, name)
        body = fn.function(fd, params, style)
        self.functions[name] = info
        out.extend(fn.aux)
        if style == "env":
            lets = "".join(f"  let v_{p} := a {cstr(p)} in\n" for p in params)
            dl = "[" + ";\n   ".join(f"({cstr(p)}, {const_code(file, d)})" for p, d in defaults.items()) + "]"
            out.append(f"Definition {name}_params : list string := [" + "; ".join(cstr(p) for p in params) + "].\n"
                       f"Definition {name}_required : list string := [" + "; ".join(cstr(p) for p in required) + "].\n"
                       f"Definition {name}_defaults : list (string * cfg) :=\n  {dl}.\n")
            out.append(f"(* {file}:{fd.lineno} *)\nDefinition {name} (a : string -> cfg) : res cfg :=\n{lets}  {body}.\n")
            self.summary["builders"][name] = {
                "params": params, "required": required,
                "defaults": {p: ast.literal_eval(d) for p, d in defaults.items()},
                "loops": fn.loop_names, "line": fd.lineno}
        else:
            args = " ".join(f"(v_{p} : cfg)" for p in params)
            out.append(f"(* {file}:{fd.lineno} *)\nDefinition {name} {args} : res cfg :=\n  {body}.\n")
        return info

    # -- validators
    def validator(self, cname, fname, file, node) -> str:
        """Coq term of type cfg -> cfg -> res unit."""
        unit = lambda code: f"bind ({code}) (fun _ => Ok tt)"
        if isinstance(node, (ast.List, ast.Tuple)):
            parts = [self.validator(cname, fname, file, x) for x in node.elts]
            code = "Ok tt"
            for p in reversed(parts):
                code = f"bind (({p}) v_instance v_value) (fun _ => {code})"
            return f"(fun v_instance v_value => {code})"
        if isinstance(node, ast.Name):
            if node.id not in self.functions:
                if node.id not in self.module_funcs:
                    fail(file, node, "unknown validator function")
                ffile, fd = self.module_funcs[node.id]
                self.translate_module_function(node.id, ffile, fd, "pos", self.schema_defs)
            info = self.functions[node.id]
            if len(info["params"]) != 3:
                fail(file, node, "validator function must take (instance, attribute, value)")
            # `attribute` is only used for its .name in messages: modelled as an object with that field
            attr = f'(VObj "Attribute" [("name", VStr {cstr(fname)})])'
            callee = info["coq"]
            return "(fun v_instance v_value => " + unit(f"{callee} v_instance {attr} v_value") + ")"
        if isinstance(node, ast.Call) and isinstance(node.func, ast.Attribute) and isinstance(node.func.value, ast.Name) \
                and node.func.value.id == "validators" and len(node.args) == 1 and not node.keywords \
                and is_literal(node.args[0]):
            op = {"ge": "py_ge", "gt": "py_gt", "le": "py_le", "lt": "py_lt"}.get(node.func.attr)
            if op is None:
                fail(file, node, "unsupported attrs validator")
            b = const_code(file, node.args[0])
            return f"(fun _ v_value => bind ({op} v_value {b}) (fun ok => if ok then Ok tt else Err ValueError))"
        if isinstance(node, ast.Lambda):
            a = node.args
            if len(a.args) != 3 or a.vararg or a.kwarg or a.kwonlyargs or a.defaults:
                fail(file, node, "validator lambda must take (instance, attribute, value)")
            pi, pa, pv = [x.arg for x in a.args]
            fn = Fn(self, file, f"{cname}.<lambda {fname}>", cls=cname)
            fn.defined = {pi, pv}
            fn.params_set = set()
            fn.ret_mode = "value"
            if not isinstance(node.body, ast.Call):
                fail(file, node, "validator lambda body must be a call")
            r = fn.expr(node.body)
            code = fn.as_res(r)
            return f"(fun v_{pi} v_{pv} => {unit(code)})"
        fail(file, node, "unsupported validator")

    # -- classes
    def translate_class(self, name):
        file, cd = self.class_nodes[name]
        oneof = False
        define = False
        for d in cd.decorator_list:
            if isinstance(d, ast.Name) and d.id == "define":
                define = True
            elif isinstance(d, ast.Name) and d.id == "oneof":
                oneof = True
            else:
                fail(file, d, "unsupported class decorator")
        if not define:
            fail(file, cd, "class is not decorated with attrs.define")
        if cd.keywords:
            fail(file, cd, "class keywords")
        bases = []
        for b in cd.bases:
            if not (isinstance(b, ast.Name) and b.id in self.classes):
                fail(file, b, "base class is not a previously defined config class")
            bases.append(b.id)
            bases.extend(x for x in self.classes[b.id]["bases"] if x not in bases)
        if len(cd.bases) > 1:
            fail(file, cd, "multiple inheritance")
        self.pending_bases[name] = bases
        own = []
        for n in cd.body:
            if isinstance(n, ast.Expr) and isinstance(n.value, ast.Constant) and isinstance(n.value.value, str):
                continue
            if isinstance(n, ast.Pass):
                continue
            if isinstance(n, ast.FunctionDef):
                if n.name.startswith("__"):
                    fail(file, n, "dunder method on a config class (construction semantics may change)")
                continue        # translated on demand / ignored
            if isinstance(n, ast.AnnAssign) and isinstance(n.target, ast.Name):
                own.append(n)
                continue
            fail(file, n, "unsupported class body statement")
        fields = []
        if bases:
            own_names = {n.target.id for n in own}
            for fdef in self.classes[cd.bases[0].id]["fields"]:
                if fdef["name"] not in own_names:
                    fields.append(fdef)
        for n in own:
            fname = n.target.id
            ty, opt = self.ann(file, n.annotation)
            default, validator, dflt_py = None, "no_validator", None
            v = n.value
            if v is None:
                fail(file, n, "field without a default (required attrs fields are not used by the schema)")
            if isinstance(v, ast.Call) and isinstance(v.func, ast.Name) and v.func.id == "field":
                if v.args:
                    fail(file, v, "positional arguments to field()")
                for kw in v.keywords:
                    if kw.arg == "default":
                        default = self.default_code(file, kw.value)
                    elif kw.arg == "factory":
                        default = self.factory_code(file, kw.value)
                    elif kw.arg == "validator":
                        validator = self.validator(name, fname, file, kw.value)
                    else:
                        fail(file, kw.value, f"unsupported field() argument '{kw.arg}'")
                if default is None:
                    fail(file, v, "field() without default/factory")
            else:
                default = self.default_code(file, v)
            # a default given as a list / dict / set literal or an instance (not through a factory) is ONE
            # object handed to every instance: module-level mutable state the tree model does not have
            dnode = v
            if isinstance(v, ast.Call) and isinstance(v.func, ast.Name) and v.func.id == "field":
                dnode = next((kw.value for kw in v.keywords if kw.arg == "default"), None)
            shared = isinstance(dnode, (ast.List, ast.Dict, ast.Set, ast.Call, ast.ListComp, ast.DictComp))
            fields.append({"name": fname, "ty": ty, "opt": opt, "default": default, "validator": validator,
                           "validated": validator != "no_validator", "line": n.lineno, "shared_literal": shared})
        self.classes[name] = {"bases": bases, "oneof": oneof, "fields": fields}
        self.class_order.append(name)
        fl = ";\n    ".join(
            f"mkField {cstr(fd['name'])} {fd['ty']} {'true' if fd['opt'] else 'false'} {fd['default']}\n      {fd['validator']}"
            for fd in fields)
        self.schema_defs.append(
            f"(* {file}:{cd.lineno} *)\nDefinition cls_{name} : class_def :=\n  mkClass {cstr(name)} "
            f"[{'; '.join(cstr(b) for b in bases)}] {'true' if oneof else 'false'}\n   [{fl}].\n")
        self.summary["mutable_literal_defaults"] += [[name, fd["name"]] for fd in fields if fd.get("shared_literal")]
        self.summary["classes"][name] = {
            "bases": bases, "oneof": oneof, "line": cd.lineno,
            "fields": [{"name": fd["name"], "ty": fd["ty"], "opt": fd["opt"], "validated": fd["validated"]}
                       for fd in fields]}

    def default_code(self, file, v):
        if is_literal(v):
            return const_code(file, v)
        if isinstance(v, ast.Name) and v.id == "MISSING":
            return "VMissing"
        if isinstance(v, ast.Attribute) and isinstance(v.value, ast.Name) and v.value.id == "sleap_nn" \
                and v.attr == "__version__":
            return f"(VStr {cstr(self.version)})"
        if isinstance(v, ast.Call) and isinstance(v.func, ast.Name) and v.func.id in self.classes \
                and not v.args and not v.keywords:
            return f"(default_obj cls_{v.func.id})"
        fail(file, v, "unsupported default value")

    def factory_code(self, file, v):
        if isinstance(v, ast.Name) and v.id in self.classes:
            return f"(default_obj cls_{v.id})"
        if isinstance(v, ast.Lambda) and not v.args.args and is_literal(v.body):
            return const_code(file, v.body)
        fail(file, v, "unsupported factory")

    # -- driver
    def run(self):
        self.pending_bases = {}
        self.check_pins()
        self.read_version()
        # pass 1: collect class and function nodes of the config modules
        mod_trees = {}
        for m in CONFIG_MODULES:
            rel = f"config/{m}.py"
            tree = self.parse(rel)
            mod_trees[m] = tree
            file = f"sleap_nn/{rel}"
            for n in tree.body:
                if isinstance(n, ast.ClassDef):
                    if n.name in self.class_nodes:
                        fail(file, n, "duplicate class name across config modules")
                    self.class_nodes[n.name] = (file, n)
                elif isinstance(n, ast.FunctionDef):
                    self.module_funcs[n.name] = (file, n)
        # pass 2: translate classes in source order; everything else at module level must be inert
        for m in CONFIG_MODULES:
            file = f"sleap_nn/config/{m}.py"
            for n in mod_trees[m].body:
                if isinstance(n, ast.ClassDef):
                    self.translate_class(n.name)
                elif isinstance(n, (ast.Import, ast.ImportFrom, ast.FunctionDef)):
                    continue
                elif isinstance(n, ast.Expr) and isinstance(n.value, ast.Constant):
                    continue
                else:
                    fail(file, n, "unsupported module-level statement in a config module")
        # builders
        tree = self.parse("train.py")
        file = "sleap_nn/train.py"
        fds = {n.name: n for n in tree.body if isinstance(n, ast.FunctionDef)}
        for b in BUILDERS:
            if b not in fds:
                raise Unsupported(f"{file}: builder {b} not found")
        # classes imported into train.py must be the config classes (no shadowing)
        for n in tree.body:
            if isinstance(n, ast.ClassDef) and n.name in self.classes:
                fail(file, n, "config class shadowed in train.py")
            if isinstance(n, ast.Assign):
                for t in n.targets:
                    if isinstance(t, ast.Name) and (t.id in self.classes or t.id in BUILDERS):
                        fail(file, n, "config class / builder rebound in train.py")
        for b in BUILDERS:
            self.translate_module_function(b, file, fds[b], "env", self.builder_defs)
        return self

    def schema_text(self):
        head = ("(* GENERATED by translator/c20_cfg2coq.py — do not edit; regenerated on every check run. *)\n"
                "From Coq Require Import List String ZArith QArith Bool.\n"
                "From SV Require Import C20.CfgTree.\nImport ListNotations.\nOpen Scope string_scope.\n\n")
        tail = ("Definition classes : list class_def :=\n  [" +
                "; ".join(f"cls_{c}" for c in self.class_order) + "].\n\n"
                f"Definition sleap_nn_version : string := {cstr(self.version)}.\n")
        # the class table is needed by py_setattr_path inside validators? (not used there) — builders only
        return head + "\n".join(self.schema_defs) + "\n" + tail

    def builders_text(self):
        head = ("(* GENERATED by translator/c20_cfg2coq.py — do not edit; regenerated on every check run. *)\n"
                "From Coq Require Import List String ZArith QArith Bool.\n"
                "From SV Require Import C20.CfgTree Gen.C20_Schema.\nImport ListNotations.\nOpen Scope string_scope.\n\n")
        disp = "Definition run_builder (name : string) (kw : list (string * cfg)) : res cfg :=\n"
        for b in BUILDERS:
            disp += f"  if String.eqb name {cstr(b)} then call_kw {b}_params {b}_required {b}_defaults {b} kw else\n"
        disp += "  Err KeyError.\n"
        return head + "\n".join(self.builder_defs) + "\n" + disp


PIN_VALUES = {
    "PIN_ONEOF": "e9369271758ecf01",
    "PIN_TOCFG": "692fc055f6269e33",
    "PIN_VERIFY": "643b3e40e498dc42",
}


def generate(repo: Path, outdir: Path) -> dict:
    """Regenerate Gen/C20_Schema.v and Gen/C20_Builders.v.  On any unsupported
    shape: remove stale outputs and raise Unsupported."""
    outdir.mkdir(parents=True, exist_ok=True)
    sch, bld = outdir / "C20_Schema.v", outdir / "C20_Builders.v"
    try:
        t = Translator(repo).run()
        s_text, b_text = t.schema_text(), t.builders_text()
    except Unsupported:
        for p in (sch, bld):
            if p.exists():
                p.unlink()
        raise
    for p, text in ((sch, s_text), (bld, b_text)):
        if not p.exists() or p.read_text() != text:      # keep mtime when unchanged: no needless rebuild
            p.write_text(text)
    t.summary["sha1"] = hashlib.sha1((s_text + b_text).encode()).hexdigest()
    t.summary["version"] = t.version
    return t.summary


def main(argv):
    repo = Path(argv[1]) if len(argv) > 1 else Path("/repo")
    out = Path(argv[2]) if len(argv) > 2 else Path(__file__).resolve().parent.parent / "coq" / "theories" / "Gen"
    if "--hashes" in argv:
        t = Translator(repo)
        for (rel, qual) in PINNED:
            tree = t.parse(rel)
            body, node = tree.body, None
            for part in qual.split("."):
                node = next(n for n in body if isinstance(n, (ast.FunctionDef, ast.ClassDef)) and n.name == part)
                body = node.body
            print(rel, qual, ast_hash(node))
        return 0
    try:
        s = generate(repo, out)
    except Unsupported as e:
        print("cfg2coq: UNSUPPORTED:", e, file=sys.stderr)
        return 2
    print(json.dumps({k: (v if k != "classes" else sorted(v)) for k, v in s.items()}, indent=1, default=str)[:2000])
    return 0


if __name__ == "__main__":
    sys.exit(main(sys.argv))
