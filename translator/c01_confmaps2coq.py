"""confmaps2coq (C01) — Python `ast` -> descriptions of coq/theories/C01/TExpr.v.

Reads, from the working tree of the repository at `repo`,
    sleap_nn/data/utils.py            make_grid_vectors
    sleap_nn/data/confidence_maps.py  make_confmaps, make_multi_confmaps,
                                      generate_confmaps, generate_multiconfmaps
and emits one Coq term per function body (types `grid_ir`, `texpr`, `multi_ir`,
`genc_ir`, `genm_ir`).  The bodies are straight-line tensor code; the translator
evaluates them symbolically (local names are substituted by what they are bound
to), so the emitted term describes the *returned value*: the arange calls of the
grid, the elementwise expression tree exp(-((xv-x)**2+(yv-y)**2)/(2*sigma**2))
with the reshape layout of every leaf and the final nan_to_num, the
zeros/reshape/loop/maximum skeleton of the max-reduction, the rank test + view,
the `[:, :num_instances]` slices of the two layouts and the argument lists of
the calls between the five functions.

Fail-closed: any statement, expression, call, keyword or local name outside the
recognised fragment raises `Unsupported` with the source location; the check
then reports the function's obligation as broken.  Nothing is assumed about a
function the translator could not read completely.

Trusted: this file (the reading of torch.arange / reshape / exp / nan_to_num /
zeros / maximum / view / unsqueeze / basic slicing as the constructors of
TExpr.v) — validated on every run by the differential tie of harness/props/c01.py,
which executes the same functions.

stdlib only.
"""
from __future__ import annotations

import ast
import hashlib
from pathlib import Path

FILES = {"utils": "sleap_nn/data/utils.py", "cm": "sleap_nn/data/confidence_maps.py"}
TARGETS = {
    "make_grid_vectors": ("utils", ["image_height", "image_width", "output_stride"]),
    "make_confmaps": ("cm", ["points_batch", "xv", "yv", "sigma"]),
    "make_multi_confmaps": ("cm", ["points_batch", "xv", "yv", "sigma"]),
    "generate_confmaps": ("cm", ["instance", "img_hw", "sigma", "output_stride"]),
    "generate_multiconfmaps": ("cm", ["instances", "img_hw", "num_instances", "sigma", "output_stride",
                                      "is_centroids"]),
}


class Unsupported(Exception):
    pass


def bad(node, msg):
    raise Unsupported(f"line {getattr(node, 'lineno', '?')}: {msg}: {ast.unparse(node)[:120] if node is not None else ''}")


# ------------------------------------------------------------------ helpers
def dotted(node):
    if isinstance(node, ast.Name):
        return node.id
    if isinstance(node, ast.Attribute):
        b = dotted(node.value)
        return None if b is None else b + "." + node.attr
    return None


def int_const(node):
    """Python int literal (possibly negated) or None."""
    if isinstance(node, ast.Constant) and type(node.value) is int:
        return node.value
    if isinstance(node, ast.UnaryOp) and isinstance(node.op, ast.USub) and isinstance(node.operand, ast.Constant) \
            and type(node.operand.value) is int:
        return -node.operand.value
    return None


def body_of(fn):
    body = list(fn.body)
    if body and isinstance(body[0], ast.Expr) and isinstance(body[0].value, ast.Constant) \
            and isinstance(body[0].value.value, str):
        body = body[1:]
    return body


def clist(items):
    return "[" + "; ".join(items) + "]"


def load(repo):
    repo = Path(repo)
    mods, sha = {}, hashlib.sha1()
    for k, rel in FILES.items():
        src = (repo / rel).read_text()
        sha.update(src.encode())
        mods[k] = ast.parse(src, filename=rel)
    fns = {}
    for name, (mk, params) in TARGETS.items():
        defs = [n for n in ast.walk(mods[mk]) if isinstance(n, (ast.FunctionDef, ast.AsyncFunctionDef)) and n.name == name]
        top = [n for n in mods[mk].body if isinstance(n, ast.FunctionDef) and n.name == name]
        if len(defs) != 1 or len(top) != 1:
            raise Unsupported(f"{name}: expected exactly one top-level definition in {FILES[mk]}, found {len(defs)}")
        fn = top[0]
        if fn.decorator_list:
            bad(fn, f"{name}: decorated")
        a = fn.args
        if a.vararg or a.kwarg or a.kwonlyargs or a.posonlyargs or [x.arg for x in a.args] != params:
            bad(fn, f"{name}: parameter list is not {params}")
        fns[name] = fn
    # the names the five functions call must be the module-level functions / torch
    for mk, mod in mods.items():
        for n in mod.body:
            tg = []
            if isinstance(n, ast.Assign):
                tg = n.targets
            elif isinstance(n, (ast.AugAssign, ast.AnnAssign)):
                tg = [n.target]
            for t in tg:
                for x in ast.walk(t):
                    if isinstance(x, ast.Name) and (x.id in TARGETS or x.id == "torch"):
                        bad(n, "module-level rebinding of an analysed name")
            if isinstance(n, (ast.Import, ast.ImportFrom)):
                for al in n.names:
                    nm = al.asname or al.name
                    if nm == "torch" and not (isinstance(n, ast.Import) and al.name == "torch"):
                        bad(n, "`torch` is not the torch module")
                    if nm in TARGETS and not (mk == "cm" and nm == "make_grid_vectors" and isinstance(n, ast.ImportFrom)
                                              and n.module == "sleap_nn.data.utils" and al.name == nm):
                        bad(n, "an analysed function name is imported from elsewhere")
    imp = [n for n in mods["cm"].body if isinstance(n, ast.ImportFrom) and n.module == "sleap_nn.data.utils"
           and any(al.name == "make_grid_vectors" and al.asname is None for al in n.names)]
    if not imp:
        raise Unsupported("confidence_maps.py does not import make_grid_vectors from sleap_nn.data.utils")
    return fns, sha.hexdigest()


# ------------------------------------------------------------------ make_grid_vectors
def tr_grid(fn):
    env = {}
    gname = {"image_height": "GN GHeight", "image_width": "GN GWidth", "output_stride": "GN GStride"}

    def gx(node):
        v = int_const(node)
        if v is not None:
            if v < 0:
                bad(node, "negative arange bound")
            return f"GLit {v}"
        if isinstance(node, ast.Name) and node.id in gname and node.id not in env:
            return gname[node.id]
        bad(node, "arange bound is not a parameter or a literal")

    def arange(call):
        if dotted(call.func) != "torch.arange":
            bad(call, "not torch.arange")
        pos = list(call.args)
        kw = {k.arg: k.value for k in call.keywords}
        if None in kw or set(kw) - {"start", "end", "step", "dtype"}:
            bad(call, "unexpected keyword of torch.arange")
        start, stop, step = "GLit 0", None, "GLit 1"
        if len(pos) == 1:
            stop = gx(pos[0])
        elif len(pos) == 2:
            start, stop = gx(pos[0]), gx(pos[1])
        elif len(pos) == 3:
            start, stop, step = gx(pos[0]), gx(pos[1]), gx(pos[2])
        else:
            bad(call, "arity of torch.arange")
        if "start" in kw:
            if len(pos) >= 2:
                bad(call, "start given twice")
            start = gx(kw["start"])
        if "end" in kw:
            if stop is not None:
                bad(call, "end given twice")
            stop = gx(kw["end"])
        if "step" in kw:
            if len(pos) == 3:
                bad(call, "step given twice")
            step = gx(kw["step"])
        if stop is None:
            bad(call, "no end")
        f32 = "dtype" in kw and dotted(kw["dtype"]) == "torch.float32"
        if "dtype" in kw and not f32:
            bad(call, "dtype of the grid is not torch.float32")
        return (f"{{| ar_start := {start}; ar_stop := {stop}; ar_step := {step}; "
                f"ar_float32 := {'true' if f32 else 'false'} |}}")

    body = body_of(fn)
    if not body or not isinstance(body[-1], ast.Return):
        bad(fn, "make_grid_vectors: no final return")
    for st in body[:-1]:
        if not (isinstance(st, ast.Assign) and len(st.targets) == 1 and isinstance(st.targets[0], ast.Name)
                and isinstance(st.value, ast.Call)):
            bad(st, "make_grid_vectors: statement is not `name = torch.arange(...)`")
        env[st.targets[0].id] = arange(st.value)
    rv = body[-1].value
    if not (isinstance(rv, ast.Tuple) and len(rv.elts) == 2):
        bad(body[-1], "make_grid_vectors: does not return a pair")
    out = []
    for e in rv.elts:
        if isinstance(e, ast.Name) and e.id in env:
            out.append(env[e.id])
        elif isinstance(e, ast.Call):
            out.append(arange(e))
        else:
            bad(e, "returned element is not an arange")
    return f"{{| gr_first := {out[0]}; gr_second := {out[1]} |}}"


# ------------------------------------------------------------------ make_confmaps
def tr_confmaps(fn):
    env = {"points_batch": ("param", "points_batch"), "xv": ("param", "xv"), "yv": ("param", "yv"),
           "sigma": ("expr", "ESigma")}

    def shape_dims(node):
        if not isinstance(node, (ast.Tuple, ast.List)):
            bad(node, "reshape target is not a literal tuple")
        out = []
        for d in node.elts:
            v = int_const(d)
            if v == 1:
                out.append("A1")
            elif v == -1:
                out.append("AAll")
            elif isinstance(d, ast.Name) and env.get(d.id) == ("dim", 0):
                out.append("ASamples")
            elif isinstance(d, ast.Name) and env.get(d.id) == ("dim", 1):
                out.append("ANodes")
            else:
                bad(d, "reshape dimension outside {1, -1, samples, n_nodes}")
        return clist(out)

    def leaf(node):
        """what is being reshaped: points_batch[:, :, k] | xv | yv"""
        if isinstance(node, ast.Name) and env.get(node.id) in (("param", "xv"), ("param", "yv")):
            return env[node.id][1]
        if isinstance(node, ast.Subscript) and isinstance(node.value, ast.Name) \
                and env.get(node.value.id) == ("param", "points_batch"):
            sl = node.slice
            if isinstance(sl, ast.Tuple) and len(sl.elts) == 3:
                a, b, c = sl.elts
                full = lambda s: isinstance(s, ast.Slice) and s.lower is None and s.upper is None and s.step is None
                k = int_const(c)
                if full(a) and full(b) and k is not None and k >= 0:
                    return ("coord", k)
        bad(node, "reshaped value is not points_batch[:, :, k], xv or yv")

    def ex(node):
        if isinstance(node, ast.Name):
            v = env.get(node.id)
            if v and v[0] == "expr":
                return v[1]
            bad(node, "name is not bound to a tensor expression")
        v = int_const(node)
        if v is not None and not isinstance(node, ast.UnaryOp):
            return f"EInt {v}" if v >= 0 else f"EInt ({v})"
        if isinstance(node, ast.Constant):
            bad(node, "non-integer literal")
        if isinstance(node, ast.UnaryOp):
            if isinstance(node.op, ast.USub):
                return f"ENeg ({ex(node.operand)})"
            bad(node, "unary operator")
        if isinstance(node, ast.BinOp):
            if isinstance(node.op, ast.Pow):
                n = int_const(node.right)
                if n is None or n < 0 or isinstance(node.right, ast.UnaryOp):
                    bad(node, "exponent is not a natural-number literal")
                return f"EPow ({ex(node.left)}) {n}"
            ops = {ast.Sub: "ESub", ast.Add: "EAdd", ast.Mult: "EMul", ast.Div: "EDiv"}
            for k, c in ops.items():
                if isinstance(node.op, k):
                    return f"{c} ({ex(node.left)}) ({ex(node.right)})"
            bad(node, "binary operator")
        if isinstance(node, ast.Call):
            f = dotted(node.func)
            if f in ("torch.exp", "torch.nan_to_num"):
                if len(node.args) != 1 or node.keywords:
                    bad(node, f"{f} with other than one positional argument")
                return f"{'EExp' if f == 'torch.exp' else 'ENanToNum'} ({ex(node.args[0])})"
            if f == "torch.reshape":
                if len(node.args) != 2 or node.keywords:
                    bad(node, "torch.reshape arity")
                lf, sh = leaf(node.args[0]), shape_dims(node.args[1])
                if lf == "xv":
                    return f"EXv {sh}"
                if lf == "yv":
                    return f"EYv {sh}"
                return f"ECoord {lf[1]} {sh}"
            bad(node, "call outside {torch.exp, torch.nan_to_num, torch.reshape}")
        bad(node, "expression form")

    body = body_of(fn)
    if not body or not isinstance(body[-1], ast.Return) or body[-1].value is None:
        bad(fn, "make_confmaps: no final return")
    for st in body[:-1]:
        if not (isinstance(st, ast.Assign) and len(st.targets) == 1):
            bad(st, "make_confmaps: statement is not a simple assignment")
        t = st.targets[0]
        if isinstance(t, ast.Tuple):
            if not (isinstance(st.value, ast.Attribute) and st.value.attr == "shape"
                    and isinstance(st.value.value, ast.Name)
                    and env.get(st.value.value.id) == ("param", "points_batch")
                    and len(t.elts) == 3 and all(isinstance(e, ast.Name) for e in t.elts)):
                bad(st, "tuple assignment is not `a, b, c = points_batch.shape`")
            for k, e in enumerate(t.elts):
                env[e.id] = ("dim", k)
        elif isinstance(t, ast.Name):
            env[t.id] = ("expr", ex(st.value))
        else:
            bad(st, "assignment target")
    return ex(body[-1].value)


# ------------------------------------------------------------------ make_multi_confmaps
def tr_multi(fn):
    env = {"points_batch": ("param", "points_batch"), "xv": ("param", "xv"), "yv": ("param", "yv"),
           "sigma": ("param", "sigma")}
    DIMS = ["MSamples", "MInst", "MNodes"]

    def dim(node):
        v = int_const(node)
        if v is not None:
            if v < 0:
                bad(node, "negative dimension")
            return f"MLit {v}"
        if isinstance(node, ast.Name) and env.get(node.id, ("",))[0] == "dim":
            return env[node.id][1]
        if isinstance(node, ast.BinOp) and isinstance(node.op, ast.Mult):
            return f"MMul ({dim(node.left)}) ({dim(node.right)})"
        bad(node, "dimension expression")

    def dims_of_args(args):
        if len(args) == 1 and isinstance(args[0], (ast.Tuple, ast.List)):
            args = args[0].elts
        return clist([dim(a) for a in args])

    def length_of(node):
        """xv.shape[0] / yv.shape[0]"""
        if isinstance(node, ast.Subscript) and int_const(node.slice) == 0 and isinstance(node.value, ast.Attribute) \
                and node.value.attr == "shape" and isinstance(node.value.value, ast.Name):
            v = env.get(node.value.value.id)
            if v == ("param", "xv"):
                return ("dim", "MLenXv")
            if v == ("param", "yv"):
                return ("dim", "MLenYv")
        bad(node, "not xv.shape[0] / yv.shape[0]")

    body = body_of(fn)
    ir = {}
    acc = pts_name = None
    i = 0
    seen_for = False
    for st in body:
        if seen_for and not isinstance(st, ast.Return):
            bad(st, "statement after the loop")
        if isinstance(st, ast.Assign) and len(st.targets) == 1:
            t, v = st.targets[0], st.value
            if isinstance(t, ast.Tuple) and isinstance(v, ast.Attribute):
                if not (v.attr == "shape" and isinstance(v.value, ast.Name)
                        and env.get(v.value.id) == ("param", "points_batch") and len(t.elts) == 4
                        and all(isinstance(e, ast.Name) for e in t.elts)):
                    bad(st, "tuple assignment is not `a, b, c, d = points_batch.shape`")
                for k, e in enumerate(t.elts[:3]):
                    env[e.id] = ("dim", DIMS[k])
                env[t.elts[3].id] = ("other",)
            elif isinstance(t, ast.Tuple) and isinstance(v, ast.Tuple) and len(t.elts) == len(v.elts) \
                    and all(isinstance(e, ast.Name) for e in t.elts):
                vals = [length_of(x) for x in v.elts]
                for e, x in zip(t.elts, vals):
                    env[e.id] = x
            elif isinstance(t, ast.Name) and isinstance(v, ast.Call) and dotted(v.func) == "torch.zeros":
                kw = {k.arg: k.value for k in v.keywords}
                if len(v.args) != 1 or set(kw) - {"dtype"} or ("dtype" in kw and dotted(kw["dtype"]) != "torch.float32"):
                    bad(st, "torch.zeros call form")
                if "mu_zeros" in ir:
                    bad(st, "second accumulator")
                ir["mu_zeros"] = dims_of_args(v.args)
                acc = t.id
                env[t.id] = ("acc",)
            elif isinstance(t, ast.Name) and isinstance(v, ast.Call) and isinstance(v.func, ast.Attribute) \
                    and v.func.attr == "reshape" and isinstance(v.func.value, ast.Name) \
                    and env.get(v.func.value.id) == ("param", "points_batch") and not v.keywords:
                if "mu_points" in ir:
                    bad(st, "second reshape")
                ir["mu_points"] = f"LReshape {dims_of_args(v.args)}"
                pts_name = t.id
                env[t.id] = ("reshaped",)
            elif isinstance(t, ast.Name) and isinstance(v, ast.Call) and isinstance(v.func, ast.Attribute) \
                    and v.func.attr == "transpose" and isinstance(v.func.value, ast.Name) \
                    and env.get(v.func.value.id) == ("param", "points_batch") and not v.keywords:
                # repaired variant (finding F60): points = points_batch.transpose(a, b)
                if "mu_points" in ir:
                    bad(st, "second layout statement")
                axes = [int_const(a) for a in v.args]
                if len(axes) != 2 or any(a is None or a < 0 for a in axes):
                    bad(st, "transpose axes are not two non-negative literals")
                ir["mu_points"] = f"LTranspose {axes[0]} {axes[1]}"
                pts_name = t.id
                env[t.id] = ("reshaped",)
            else:
                bad(st, "make_multi_confmaps: assignment form")
        elif isinstance(st, ast.For):
            if seen_for or acc is None or pts_name is None:
                bad(st, "loop before the accumulator / the reshaped points exist, or a second loop")
            seen_for = True
            if st.orelse or not isinstance(st.target, ast.Name) or not isinstance(st.iter, ast.Name) \
                    or env.get(st.iter.id) != ("reshaped",):
                bad(st, "loop is not `for p in <reshaped points>:`")
            p = st.target.id
            if p in env:
                bad(st, "loop variable shadows a name")
            if len(st.body) != 2:
                bad(st, "loop body is not two statements")
            s1, s2 = st.body
            if not (isinstance(s1, ast.Assign) and len(s1.targets) == 1 and isinstance(s1.targets[0], ast.Name)
                    and isinstance(s1.value, ast.Call) and dotted(s1.value.func) == "make_confmaps"
                    and not s1.value.keywords):
                bad(s1, "first loop statement is not `name = make_confmaps(...)`")
            new = s1.targets[0].id
            if new in env or new == p:
                bad(s1, "per-animal map shadows a name")
            args = []
            for a in s1.value.args:
                if isinstance(a, ast.Name) and a.id == p:
                    args.append("MRaw")
                elif isinstance(a, ast.Name) and env.get(a.id) in (("param", "xv"), ("param", "yv"), ("param", "sigma")):
                    args.append({"xv": "MXv", "yv": "MYv", "sigma": "MSigma"}[env[a.id][1]])
                elif isinstance(a, ast.Call) and isinstance(a.func, ast.Attribute) and a.func.attr == "unsqueeze" \
                        and isinstance(a.func.value, ast.Name) and a.func.value.id == p:
                    d = None
                    if len(a.args) == 1 and not a.keywords:
                        d = int_const(a.args[0])
                    elif not a.args and len(a.keywords) == 1 and a.keywords[0].arg == "dim":
                        d = int_const(a.keywords[0].value)
                    if d != 0:
                        bad(a, "unsqueeze of the animal on an axis other than 0")
                    args.append("MUnsq0")
                else:
                    bad(a, "argument of make_confmaps in the loop")
            ir["mu_call"] = clist(args)
            if not (isinstance(s2, ast.Assign) and len(s2.targets) == 1 and isinstance(s2.targets[0], ast.Name)
                    and s2.targets[0].id == acc and isinstance(s2.value, ast.Call)
                    and dotted(s2.value.func) == "torch.maximum" and len(s2.value.args) == 2
                    and not s2.value.keywords):
                bad(s2, "second loop statement is not `<acc> = torch.maximum(a, b)`")
            refs = []
            for a in s2.value.args:
                if isinstance(a, ast.Name) and a.id == acc:
                    refs.append("RAcc")
                elif isinstance(a, ast.Name) and a.id == new:
                    refs.append("RNew")
                else:
                    bad(a, "argument of torch.maximum")
            ir["mu_comb"] = f"({refs[0]}, {refs[1]})"
        elif isinstance(st, ast.Return):
            if st is not body[-1] or not seen_for:
                bad(st, "return placement")
            if not (isinstance(st.value, ast.Name) and st.value.id == acc):
                bad(st, "does not return the accumulator")
            ir["mu_ret"] = "RAcc"
        else:
            bad(st, "make_multi_confmaps: statement form")
        i += 1
    need = ["mu_zeros", "mu_points", "mu_call", "mu_comb", "mu_ret"]
    if any(k not in ir for k in need):
        bad(fn, "make_multi_confmaps: incomplete skeleton " + str([k for k in need if k not in ir]))
    return "{| " + "; ".join(f"{k} := {ir[k]}" for k in need) + " |}"


# ------------------------------------------------------------------ generate_*
NM = {"height": "NHeight", "width": "NWidth", "output_stride": "NStride", "sigma": "NSigma",
      "xv": "NXv", "yv": "NYv", "num_instances": "NNum"}


def sx(node, points_names):
    if isinstance(node, ast.Name):
        if node.id in points_names:
            return "SN NPoints"
        if node.id in NM:
            return f"SN {NM[node.id]}"
        bad(node, "name outside the recognised locals")
    if isinstance(node, ast.BinOp) and isinstance(node.op, ast.Mult):
        return f"SMul ({sx(node.left, points_names)}) ({sx(node.right, points_names)})"
    bad(node, "argument expression")


def tail(stmts, points_names, callee, fn):
    """`a, b = img_hw` / `c, d = make_grid_vectors(...)` / `m = callee(...)` / `return m`"""
    if len(stmts) != 4:
        bad(fn, f"{fn.name}: expected 4 statements after the input preparation, found {len(stmts)}")
    s_hw, s_grid, s_call, s_ret = stmts

    def pair_names(st, what):
        if not (isinstance(st, ast.Assign) and len(st.targets) == 1 and isinstance(st.targets[0], ast.Tuple)
                and len(st.targets[0].elts) == 2 and all(isinstance(e, ast.Name) and e.id in NM
                                                          for e in st.targets[0].elts)):
            bad(st, what)
        a, b = (NM[e.id] for e in st.targets[0].elts)
        if a == b:
            bad(st, "same name twice")
        return f"({a}, {b})"

    hw = pair_names(s_hw, "not `height, width = img_hw`")
    if not (isinstance(s_hw.value, ast.Name) and s_hw.value.id == "img_hw"):
        bad(s_hw, "not unpacked from img_hw")
    if set(e.id for e in s_hw.targets[0].elts) != {"height", "width"}:
        bad(s_hw, "img_hw unpacked into other names than height / width")
    unpack = pair_names(s_grid, "not `xv, yv = make_grid_vectors(...)`")
    if set(e.id for e in s_grid.targets[0].elts) != {"xv", "yv"}:
        bad(s_grid, "grid vectors unpacked into other names than xv / yv")
    g = s_grid.value
    if not (isinstance(g, ast.Call) and dotted(g.func) == "make_grid_vectors" and not g.keywords):
        bad(s_grid, "not a positional call of make_grid_vectors")
    gargs = clist([sx(a, ()) for a in g.args])
    if not (isinstance(s_call, ast.Assign) and len(s_call.targets) == 1 and isinstance(s_call.targets[0], ast.Name)
            and isinstance(s_call.value, ast.Call) and dotted(s_call.value.func) == callee
            and not s_call.value.keywords):
        bad(s_call, f"not `name = {callee}(positional arguments)`")
    res = s_call.targets[0].id
    if res in NM or res in points_names or res == "img_hw":
        bad(s_call, "result shadows a name")
    call = clist([sx(a, points_names) for a in s_call.value.args])
    if not (isinstance(s_ret, ast.Return) and isinstance(s_ret.value, ast.Name) and s_ret.value.id == res):
        bad(s_ret, "does not return the maps")
    return hw, gargs, unpack, call


def tr_genc(fn):
    body = body_of(fn)
    if not body or not isinstance(body[0], ast.If):
        bad(fn, "generate_confmaps: does not start with the rank test")
    st = body[0]
    t = st.test
    if not (isinstance(t, ast.Compare) and len(t.ops) == 1 and isinstance(t.ops[0], ast.NotEq)
            and dotted(t.left) == "instance.ndim" and int_const(t.comparators[0]) is not None
            and int_const(t.comparators[0]) >= 0 and not st.orelse and len(st.body) == 1):
        bad(st, "not `if instance.ndim != <n>: <one statement>`")
    keep = int_const(t.comparators[0])
    a = st.body[0]
    if not (isinstance(a, ast.Assign) and len(a.targets) == 1 and isinstance(a.targets[0], ast.Name)
            and a.targets[0].id == "instance" and isinstance(a.value, ast.Call)
            and dotted(a.value.func) == "instance.view" and not a.value.keywords):
        bad(a, "not `instance = instance.view(...)`")
    dims = []
    for d in a.value.args:
        v = int_const(d)
        if v == -1:
            dims.append("VNeg1")
        elif v is not None and v >= 0:
            dims.append(f"VLit {v}")
        elif isinstance(d, ast.Subscript) and dotted(d.value) == "instance.shape" and int_const(d.slice) == 0:
            dims.append("VShape0")
        else:
            bad(d, "view dimension")
    hw, gargs, unpack, call = tail(body[1:], ("instance",), "make_confmaps", fn)
    return (f"{{| gc_keep_rank := {keep}; gc_view := {clist(dims)}; gc_hw := {hw}; gc_grid_args := {gargs}; "
            f"gc_grid_unpack := {unpack}; gc_call := {call} |}}")


def tr_genm(fn):
    body = body_of(fn)
    if not body or not isinstance(body[0], ast.If):
        bad(fn, "generate_multiconfmaps: does not start with the layout switch")
    st = body[0]
    if not (isinstance(st.test, ast.Name) and st.test.id == "is_centroids" and len(st.body) == 1
            and len(st.orelse) == 1):
        bad(st, "not `if is_centroids: <one statement> else: <one statement>`")

    def sl(a):
        if not (isinstance(a, ast.Assign) and len(a.targets) == 1 and isinstance(a.targets[0], ast.Name)
                and a.targets[0].id == "points"):
            bad(a, "branch is not `points = ...`")
        v, unsq = a.value, "None"
        if isinstance(v, ast.Call):
            if not (isinstance(v.func, ast.Attribute) and v.func.attr == "unsqueeze"):
                bad(v, "call other than .unsqueeze")
            d = None
            if len(v.args) == 1 and not v.keywords:
                d = int_const(v.args[0])
            elif not v.args and len(v.keywords) == 1 and v.keywords[0].arg == "dim":
                d = int_const(v.keywords[0].value)
            if d is None:
                bad(v, "unsqueeze axis")
            unsq = f"Some ({d})%Z"
            v = v.func.value
        if not (isinstance(v, ast.Subscript) and isinstance(v.value, ast.Name) and v.value.id == "instances"):
            bad(v, "not a subscript of `instances`")
        elts = v.slice.elts if isinstance(v.slice, ast.Tuple) else [v.slice]
        ix = []
        for e in elts:
            if not isinstance(e, ast.Slice) or e.lower is not None or e.step is not None:
                bad(e, "subscript other than `:` / `:num_instances`")
            if e.upper is None:
                ix.append("IAll")
            elif isinstance(e.upper, ast.Name) and e.upper.id == "num_instances":
                ix.append("IUpTo NNum")
            else:
                bad(e, "slice bound")
        return f"{{| sl_index := {clist(ix)}; sl_unsq := {unsq} |}}"

    cent, inst = sl(st.body[0]), sl(st.orelse[0])
    hw, gargs, unpack, call = tail(body[1:], ("points",), "make_multi_confmaps", fn)
    return (f"{{| gm_cent := {cent}; gm_inst := {inst}; gm_hw := {hw}; gm_grid_args := {gargs}; "
            f"gm_grid_unpack := {unpack}; gm_call := {call} |}}")


# ------------------------------------------------------------------ driver
ITEMS = [
    # (python function, Coq name, Coq type, translator, obligation statement, closing theorem)
    ("make_grid_vectors", "gen_grid", "grid_ir", tr_grid,
     "forall H W s, denote_grid gen_grid H W s = make_grid_vectors H W s", "denote_grid_canon"),
    ("make_confmaps", "gen_confmaps", "texpr", tr_confmaps,
     "forall pts xv yv sig, denote_confmaps gen_confmaps pts xv yv sig = as_tval (make_confmaps pts xv yv sig)",
     "denote_confmaps_canon"),
    # two admissible bodies (finding F60): the pinned tree's reshape + broadcast loop denotes
    # ConfMaps.make_multi_confmaps; the repaired transpose loop denotes Entry.make_multi_confmaps_ps on
    # every rectangular array.  The statement is chosen by the layout statement found in the source
    # (see `variant_of`); a body that is neither closes neither theorem.
    ("make_multi_confmaps", "gen_multi", "multi_ir", tr_multi,
     {"pinned": ("forall pts n_nodes xv yv sig, denote_multi gen_multi pts n_nodes xv yv sig = "
                 "Some (make_multi_confmaps pts n_nodes xv yv sig)", "denote_multi_canon"),
      "repaired": ("forall pts n_nodes xv yv sig, rect pts -> denote_multi gen_multi pts n_nodes xv yv sig = "
                   "Some (make_multi_confmaps_ps pts n_nodes xv yv sig)", "denote_multi_canon_fixed")}, None),
    ("generate_confmaps", "gen_genc", "genc_ir", tr_genc,
     "(forall pts H W sigma s, denote_genc gen_genc (SVP3 pts) H W sigma s = Some (generate_confmaps3 pts H W sigma s)) /\\ "
     "(forall pts H W sigma s, denote_genc gen_genc (SVP4 pts) H W sigma s = Some (generate_confmaps4 pts H W sigma s))",
     "(conj denote_genc_canon3 denote_genc_canon4)"),
    ("generate_multiconfmaps", "gen_genm", "genm_ir", tr_genm,
     # the callee make_multi_confmaps is read in either variant fx (Entry.mmc)
     "(forall fx pts n_nodes H W num sigma s, denote_genm fx gen_genm false (SVP4 pts) n_nodes H W num sigma s = "
     "Some (generate_multiconfmaps_v fx pts n_nodes H W num sigma s)) /\\ "
     "(forall fx cents n_nodes H W num sigma s, denote_genm fx gen_genm true (SVP3 cents) n_nodes H W num sigma s = "
     "Some (generate_multiconfmaps_centroids_v fx cents H W num sigma s))",
     "(conj denote_genm_canon_instances_v denote_genm_canon_centroids_v)"),
]

IR_HEADER = """(* GENERATED by translator/c01_confmaps2coq.py from {files} (sha1 {sha}) — do not edit.
   One description per function body, in the language of C01/TExpr.v. *)
From Coq Require Import List ZArith QArith.
Import ListNotations.
From SV Require Import C01.ConfMaps C01.Entry C01.TExpr.
"""

OBLIG_HEADER = """(* GENERATED by translator/c01_confmaps2coq.py — per-run obligation for `{py}`:
   the description regenerated from the source denotes the model function.
   Closed with the once-and-for-all theorem about the canonical description,
   which type-checks only if the regenerated term is convertible to it. *)
From Coq Require Import List ZArith QArith.
From SV Require Import C01.ConfMaps C01.Lemmas C01.Entry C01.TExpr C01.Lemmas2 C01.Lemmas3.
From C01Gen Require Import C01_ConfmapsIR.
"""


def variant_of(term):
    """Which variant of make_multi_confmaps the regenerated description is (by its layout statement)."""
    return "repaired" if "LTranspose" in term else "pinned"


def translate(repo):
    """Returns {"sha1", "terms": {py: coq term}, "errors": {py: message}, "ir": text of the IR file,
    "obligs": {py: (file name, text)}, "multi_variant": "pinned" | "repaired" | None}.
    `load` errors (file / signature level) propagate as Unsupported."""
    fns, sha = load(repo)
    terms, errors = {}, {}
    for py, coq, ty, tr, _, _ in ITEMS:
        try:
            terms[py] = tr(fns[py])
        except Unsupported as e:
            errors[py] = str(e)
    ir = IR_HEADER.format(files=", ".join(FILES.values()), sha=sha)
    obligs = {}
    variant = None
    for py, coq, ty, tr, stmt, thm in ITEMS:
        if py in terms:
            if isinstance(stmt, dict):
                variant = variant_of(terms[py])
                stmt, thm = stmt[variant]
            ir += f"\n(* {py} *)\nDefinition {coq} : {ty} :=\n  {terms[py]}.\n"
            txt = OBLIG_HEADER.format(py=py)
            txt += f"\nTheorem {coq}_denotes :\n  {stmt}.\nProof. exact {thm}. Qed.\nPrint Assumptions {coq}_denotes.\n"
            obligs[py] = (f"C01_Oblig_{py}.v", txt)
    return {"sha1": sha, "terms": terms, "errors": errors, "ir": ir, "obligs": obligs, "multi_variant": variant}


if __name__ == "__main__":
    import sys
    r = translate(sys.argv[1] if len(sys.argv) > 1 else "/repo")
    print(r["ir"])
    for k, v in r["errors"].items():
        print("UNSUPPORTED", k, v)
