"""alias2coq (C11) — Python `ast` -> AliasIR (coq/theories/C11/AliasIR.v).

Reads the data helpers and the Dataset `__getitem__` / `_fill_cache` bodies of
the repository at `repo` (its *current working tree*) and emits, for every
target function, a term of `AliasIR.stmt` plus an UNTRUSTED points-to
certificate (the least solution of the inclusion constraints, computed here
by a fixpoint; Coq only *checks* it).  Calls to functions of the analysed
modules are inlined (they are not recursive).  Everything outside the
recognised fragment aborts translation of that target with the source
location (`Unsupported`): fail-closed, the check then treats the target's
obligation as broken.

Trusted part: the OPERATION TABLE below (which torch / numpy / builtin
operations return views, possibly-same objects, fresh objects, or mutate in
place) and the shape of the translation.  The table is validated on every
run by the dynamic tie of harness/props/c11.py (observed writes/aliases must
be included in what the analysis predicts).

stdlib only.
"""
from __future__ import annotations

import ast
from pathlib import Path


class Unsupported(Exception):
    pass


# ----------------------------------------------------------------------------
# operation table

# canonical dotted name -> class
#   fresh      : allocates, aliases nothing
#   view       : same object as the first argument
#   maybe      : first argument's object or a fresh one
#   anyview    : may be (a view of) any argument
#   inplace    : mutates the first argument, returns it
FUNC_TABLE = {}


def _reg(kind, names):
    for n in names.split():
        FUNC_TABLE[n] = kind


_reg("fresh", """
torch.min torch.max torch.where torch.isnan torch.full_like torch.full torch.stack torch.cat
torch.tensor torch.Tensor torch.zeros torch.ones torch.zeros_like torch.ones_like torch.arange
torch.exp torch.maximum torch.minimum torch.sum torch.square torch.clamp torch.norm torch.abs
torch.nan_to_num torch.is_floating_point torch.sqrt torch.round torch.floor torch.ceil torch.any torch.all
torch.mean torch.empty torch.linspace torch.eye torch.rand torch.randn torch.isfinite torch.isinf
kornia.geometry.transform.crop_and_resize
torchvision.transforms.v2.functional.rgb_to_grayscale
numpy.stack numpy.array numpy.abs numpy.sqrt numpy.load numpy.savez_compressed numpy.nanmax numpy.nanmin
numpy.isnan numpy.maximum numpy.minimum numpy.zeros numpy.ones numpy.full numpy.concatenate numpy.any numpy.all
math.ceil math.floor math.sqrt
""")
_reg("view", """
torch.unsqueeze torch.squeeze torch.from_numpy torch.transpose torch.permute torch.t torch.narrow
torch.select torch.unbind torch.split torch.chunk torch.view_as_real torch.detach torch.diagonal
torch.movedim torch.swapaxes torch.expand_copy_never
numpy.transpose numpy.expand_dims numpy.squeeze numpy.swapaxes numpy.moveaxis numpy.atleast_2d
PIL.Image.fromarray
""")
_reg("maybe", """
torch.reshape torch.flatten torch.ravel torch.as_tensor torch.asarray torch.atleast_2d torch.broadcast_to
torch.nn.functional.pad torchvision.transforms.v2.functional.resize
numpy.reshape numpy.asarray numpy.ascontiguousarray numpy.ravel numpy.broadcast_to
""")
_reg("anyview", "torch.meshgrid torch.broadcast_tensors numpy.meshgrid numpy.broadcast_arrays")
_reg("inplace", "numpy.copyto numpy.put numpy.place numpy.putmask numpy.fill_diagonal torch.nn.init.zeros_")

# prefixes of canonical names whose calls are external oracles returning fresh objects
FRESH_PREFIXES = ("kornia.augmentation.", "loguru.", "pathlib.", "sleap_nn.data.augmentation.RandomUniformNoise")
# calling an object built by one of these is the kornia oracle: results are fresh or the inputs
ORACLE_CTORS = ("kornia.augmentation.container.AugmentationSequential",)

# methods, by name (the receiver's type is not known statically)
VIEW_METHODS = set("""view unsqueeze squeeze permute transpose expand expand_as t numpy detach values items keys
narrow select unbind split chunk view_as unfold diagonal swapaxes movedim""".split())
MAYBE_METHODS = set("""reshape contiguous to float double half int long bool type cpu cuda astype flatten ravel
type_as reshape_as""".split())
FRESH_METHODS = set("""clone any all sum mean square dim size item tolist repeat min max abs sqrt index count
isnan nan_to_num format startswith endswith is_dir mkdir iterdir close error warning info debug exp pow
round floor ceil norm argmax argmin nonzero numel element_size prod std var clamp where eq ne lt gt le ge
join strip lower upper isnumeric is_file""".split())
STORE_METHODS = set("""append extend update insert add setdefault clear remove sort reverse fill put resize
itemset setflags""".split())          # mutate the receiver (may capture the arguments)
PROJ_METHODS = set("get".split())       # return the receiver or something it refers to
POP_METHODS = set("pop popitem".split())  # mutate the receiver and return something it refers to

FRESH_ATTRS = set("shape ndim dtype device is_empty frame_idx suffix".split())

SCALAR_BUILTINS = set("""len int float abs round range isinstance str bool print type hasattr
Exception ValueError NotImplementedError StopIteration TypeError RuntimeError KeyError IndexError""".split())
STRUCT_BUILTINS = set("zip enumerate list tuple dict reversed sorted iter next set".split())
ANYARG_BUILTINS = set("max min sum".split())

# attribute stores `obj.attr = v` on an object other than `self` are STORES into that object (round 4,
# review finding 1): `lf.instances = lf.user_instances` changes the caller's LabeledFrame, i.e. the
# labels.  They are translated as `SStore obj [v]` (and listed in the evidence); before round 4 the
# store of this attribute was only logged, which removed the write from the program that was proved pure.
LOGGED_ATTR_STORES = {"instances"}

# super().<method>() calls that are external oracles returning new objects (litdata)
SUPER_FRESH_METHODS = {"__getitem__"}
# constructors of callables whose call allocates its result (torchvision PILToTensor:
# torch.as_tensor(np.array(pic, copy=True)))
FRESH_CALLABLE_CTORS = ("torchvision.transforms.PILToTensor",)
# constructors of callables whose result may share the buffer of their argument (torchvision ToPILImage:
# a float tensor is converted through .mul(255).byte() = new storage, a contiguous uint8 one may be handed
# to PIL.Image.frombuffer as it is)
MAYBE_CALLABLE_CTORS = ("torchvision.transforms.ToPILImage",)

# methods of the Dataset classes themselves that are external oracles (fresh result)
SELF_FRESH_METHODS = {"_get_video_idx", "transform_pil_to_tensor"}
# self.transform_to_pil = T.ToPILImage(): the same callable as in get_data_chunks.py (MAYBE_CALLABLE_CTORS):
# its result may share the buffer of its argument (round 4, review finding 6: the two now agree)
SELF_MAYBE_METHODS = {"transform_to_pil"}

DATA = "sleap_nn/data"
MODULES = {
    "sleap_nn.data.instance_centroids": f"{DATA}/instance_centroids.py",
    "sleap_nn.data.instance_cropping": f"{DATA}/instance_cropping.py",
    "sleap_nn.data.resizing": f"{DATA}/resizing.py",
    "sleap_nn.data.normalization": f"{DATA}/normalization.py",
    "sleap_nn.data.confidence_maps": f"{DATA}/confidence_maps.py",
    "sleap_nn.data.edge_maps": f"{DATA}/edge_maps.py",
    "sleap_nn.data.providers": f"{DATA}/providers.py",
    "sleap_nn.data.augmentation": f"{DATA}/augmentation.py",
    "sleap_nn.data.utils": f"{DATA}/utils.py",
    "sleap_nn.data.custom_datasets": f"{DATA}/custom_datasets.py",
    "sleap_nn.data.streaming_datasets": f"{DATA}/streaming_datasets.py",
    "sleap_nn.data.get_data_chunks": f"{DATA}/get_data_chunks.py",
}

CD = "sleap_nn.data.custom_datasets"
SD = "sleap_nn.data.streaming_datasets"
GC = "sleap_nn.data.get_data_chunks"
FILL_SELF = {"labels": ("param", 0), "cache": ("local",), "cache_lf": ("local",), None: ("param", 1)}
# (display name, module, qualified name, self model or None)
TARGETS = [
    ("find_points_bbox_midpoint", "sleap_nn.data.instance_centroids", "find_points_bbox_midpoint", None),
    ("generate_centroids", "sleap_nn.data.instance_centroids", "generate_centroids", None),
    ("make_centered_bboxes", "sleap_nn.data.instance_cropping", "make_centered_bboxes", None),
    ("generate_crops", "sleap_nn.data.instance_cropping", "generate_crops", None),
    ("resize_image", "sleap_nn.data.resizing", "resize_image", None),
    ("apply_resizer", "sleap_nn.data.resizing", "apply_resizer", None),
    ("apply_pad_to_stride", "sleap_nn.data.resizing", "apply_pad_to_stride", None),
    ("apply_sizematcher", "sleap_nn.data.resizing", "apply_sizematcher", None),
    ("apply_normalization", "sleap_nn.data.normalization", "apply_normalization", None),
    ("convert_to_grayscale", "sleap_nn.data.normalization", "convert_to_grayscale", None),
    ("convert_to_rgb", "sleap_nn.data.normalization", "convert_to_rgb", None),
    ("make_confmaps", "sleap_nn.data.confidence_maps", "make_confmaps", None),
    ("make_multi_confmaps", "sleap_nn.data.confidence_maps", "make_multi_confmaps", None),
    ("generate_confmaps", "sleap_nn.data.confidence_maps", "generate_confmaps", None),
    ("generate_multiconfmaps", "sleap_nn.data.confidence_maps", "generate_multiconfmaps", None),
    ("distance_to_edge", "sleap_nn.data.edge_maps", "distance_to_edge", None),
    ("make_edge_maps", "sleap_nn.data.edge_maps", "make_edge_maps", None),
    ("make_pafs", "sleap_nn.data.edge_maps", "make_pafs", None),
    ("make_multi_pafs", "sleap_nn.data.edge_maps", "make_multi_pafs", None),
    ("get_edge_points", "sleap_nn.data.edge_maps", "get_edge_points", None),
    ("generate_pafs", "sleap_nn.data.edge_maps", "generate_pafs", None),
    ("expand_to_rank", "sleap_nn.data.utils", "expand_to_rank", None),
    ("process_lf", "sleap_nn.data.providers", "process_lf", None),
    ("apply_intensity_augmentation", "sleap_nn.data.augmentation", "apply_intensity_augmentation", None),
    ("apply_geometric_augmentation", "sleap_nn.data.augmentation", "apply_geometric_augmentation", None),
    ("BottomUpDataset.__getitem__", CD, "BottomUpDataset.__getitem__", None),
    ("CenteredInstanceDataset.__getitem__", CD, "CenteredInstanceDataset.__getitem__", None),
    ("CentroidDataset.__getitem__", CD, "CentroidDataset.__getitem__", None),
    ("SingleInstanceDataset.__getitem__", CD, "SingleInstanceDataset.__getitem__", None),
    ("BaseDataset._fill_cache", CD, "BaseDataset._fill_cache", FILL_SELF),
    ("CenteredInstanceDataset._fill_cache", CD, "CenteredInstanceDataset._fill_cache", FILL_SELF),
    ("CentroidDataset._fill_cache", CD, "CentroidDataset._fill_cache", FILL_SELF),
    # round 2: index lists, label scans, grid helpers, the streaming datasets' reads
    ("BaseDataset._get_lf_idx_list", CD, "BaseDataset._get_lf_idx_list", FILL_SELF),
    ("CenteredInstanceDataset._get_instance_idx_list", CD, "CenteredInstanceDataset._get_instance_idx_list", FILL_SELF),
    ("get_max_instances", "sleap_nn.data.providers", "get_max_instances", None),
    ("get_max_height_width", "sleap_nn.data.providers", "get_max_height_width", None),
    ("make_grid_vectors", "sleap_nn.data.utils", "make_grid_vectors", None),
    ("gaussian_pdf", "sleap_nn.data.utils", "gaussian_pdf", None),
    ("find_padding_for_stride", "sleap_nn.data.resizing", "find_padding_for_stride", None),
    ("BottomUpStreamingDataset.__getitem__", SD, "BottomUpStreamingDataset.__getitem__", None),
    ("CenteredInstanceStreamingDataset.__getitem__", SD, "CenteredInstanceStreamingDataset.__getitem__", None),
    ("CentroidStreamingDataset.__getitem__", SD, "CentroidStreamingDataset.__getitem__", None),
    ("SingleInstanceStreamingDataset.__getitem__", SD, "SingleInstanceStreamingDataset.__getitem__", None),
    # round 3: the litdata chunk functions (labelled frame -> sample dict(s); a generator for the crops)
    ("bottomup_data_chunks", GC, "bottomup_data_chunks", None),
    ("centered_instance_data_chunks", GC, "centered_instance_data_chunks", None),
    ("centroid_data_chunks", GC, "centroid_data_chunks", None),
    ("single_instance_data_chunks", GC, "single_instance_data_chunks", None),
]


# ----------------------------------------------------------------------------
# source model

class Module:
    def __init__(self, name: str, path: Path):
        self.name, self.path = name, path
        self.tree = ast.parse(path.read_text(), filename=str(path))
        self.imports: dict[str, str] = {}       # local name -> canonical dotted name
        self.funcs: dict[str, ast.FunctionDef] = {}
        self.classes: dict[str, ast.ClassDef] = {}
        for n in self.tree.body:
            if isinstance(n, ast.Import):
                for a in n.names:
                    if a.asname:
                        self.imports[a.asname] = a.name
                    else:
                        self.imports[a.name.split(".")[0]] = a.name.split(".")[0]
            elif isinstance(n, ast.ImportFrom):
                for a in n.names:
                    self.imports[a.asname or a.name] = f"{n.module}.{a.name}"
            elif isinstance(n, ast.FunctionDef):
                self.funcs[n.name] = n
            elif isinstance(n, ast.ClassDef):
                self.classes[n.name] = n

    def lookup(self, qual: str) -> ast.FunctionDef:
        parts = qual.split(".")
        if len(parts) == 1:
            if parts[0] in self.funcs:
                return self.funcs[parts[0]]
        elif len(parts) == 2 and parts[0] in self.classes:
            for n in self.classes[parts[0]].body:
                if isinstance(n, ast.FunctionDef) and n.name == parts[1]:
                    return n
        raise Unsupported(f"{self.path}: function {qual} not found")


CANON_ALIASES = {"np": "numpy"}


class Source:
    def __init__(self, repo: Path):
        self.repo = Path(repo)
        self.mods = {name: Module(name, self.repo / rel) for name, rel in MODULES.items()}

    def resolve_func(self, canon: str):
        """canonical dotted name -> (Module, FunctionDef) for functions of the analysed modules."""
        mod, _, fn = canon.rpartition(".")
        m = self.mods.get(mod)
        if m is not None and fn in m.funcs:
            return m, m.funcs[fn]
        return None


# ----------------------------------------------------------------------------
# translation of one target

class Scope:
    def __init__(self, mod: Module, tag: str, self_model=None):
        self.mod, self.tag, self.self_model = mod, tag, self_model
        self.names: dict[str, int] = {}      # Python name -> its CURRENT version (IR variable)
        self.frozen: set[str] = set()        # names whose versioning is switched off (loops with break/continue, try)
        self.oracles: set[str] = set()
        self.fresh_callables: set[str] = set()
        self.maybe_callables: set[str] = set()
        self.ret: int | None = None
        self.ret_elts: list[int] | None = None
        self.fname = "?"


class Translator:
    def __init__(self, src: Source, display: str):
        self.src, self.display = src, display
        self.var_names: list[str] = []
        self.sites: list[str] = []
        self.inline_count = 0
        self.depth = 0
        self.logged: list[str] = []
        self.self_locals: dict[str, int] = {}
        self.last_inline = (None, None)
        self.cur_loc = "?"

    # -- helpers -----------------------------------------------------------
    def new_var(self, hint: str) -> int:
        self.var_names.append(hint)
        return len(self.var_names) - 1

    def mkstore(self, x: int, ys: list):
        return ("store", x, ys, self.cur_loc)

    def new_site(self, node, what: str, sc: Scope) -> int:
        self.sites.append(f"{sc.mod.path.name}:{getattr(node, 'lineno', 0)} {what}")
        return len(self.sites) - 1

    def bad(self, node, sc: Scope, msg: str):
        raise Unsupported(f"{sc.mod.path}:{getattr(node, 'lineno', '?')}: {msg}")

    def tmp(self, out, rhs, hint="t") -> int:
        v = self.new_var("%" + hint)
        out.append(("assign", v, rhs))
        return v

    def fresh(self, out, node, sc, what) -> int:
        return self.tmp(out, ("fresh", self.new_site(node, what, sc)), "f")

    def define(self, sc: Scope, name: str) -> int:
        """IR variable for an assignment to the Python name: a new version (so
        that `x = fresh(x)` does not pollute the earlier x), unless versioning is
        frozen for the name (then all assignments share one variable)."""
        if name in sc.frozen and name in sc.names:
            return sc.names[name]
        k = sum(1 for n in self.var_names if n == f"{sc.tag}{name}" or n.startswith(f"{sc.tag}{name}'"))
        sc.names[name] = self.new_var(f"{sc.tag}{name}" + (f"'{k}" if k else ""))
        return sc.names[name]

    @staticmethod
    def stored_names(nodes) -> set:
        out = set()
        for b in nodes:
            for n in ast.walk(b):
                if isinstance(n, ast.Name) and isinstance(n.ctx, (ast.Store, ast.Del)):
                    out.add(n.id)
                elif isinstance(n, ast.ExceptHandler) and n.name:
                    out.add(n.name)
        return out

    def merge(self, sc: Scope, m1: dict, a: list, m2: dict, b: list):
        """Join of two branches: names whose versions differ get a merge variable."""
        merged = {}
        for name in sorted(set(m1) | set(m2)):
            v1, v2 = m1.get(name), m2.get(name)
            if v1 == v2 or v2 is None:
                merged[name] = v1
            elif v1 is None:
                merged[name] = v2
            else:
                m = self.new_var(f"{sc.tag}{name}@join")
                a.append(("assign", m, ("alias", v1)))
                b.append(("assign", m, ("alias", v2)))
                merged[name] = m
        sc.names = merged

    def loop_like(self, sc: Scope, out: list, region, freeze: bool, emit_body):
        """Common treatment of regions that may be re-entered or left in the
        middle (loops, try bodies): names assigned inside get a carried variable
        that joins the value before the region and the value at its end."""
        assigned = self.stored_names(region)
        phis = {}
        for name in sorted(assigned):
            if name in sc.names:
                phi = self.new_var(f"{sc.tag}{name}@loop")
                out.append(("assign", phi, ("alias", sc.names[name])))
                sc.names[name] = phi
                phis[name] = phi
        old_frozen = set(sc.frozen)
        if freeze:
            sc.frozen |= assigned
        body = []
        emit_body(body)
        for name, phi in phis.items():
            if sc.names.get(name) != phi:
                body.append(("assign", phi, ("alias", sc.names[name])))
                sc.names[name] = phi
        sc.frozen = old_frozen
        return body

    def canon(self, node, sc: Scope):
        """Canonical dotted name of a Name/Attribute chain rooted at an imported
        name (None if rooted at a local variable / anything else)."""
        parts = []
        n = node
        while isinstance(n, ast.Attribute):
            parts.append(n.attr)
            n = n.value
        if not isinstance(n, ast.Name):
            return None
        if n.id in sc.names or n.id == "self":
            return None
        if n.id in sc.mod.imports:
            base = sc.mod.imports[n.id]
        elif n.id in sc.mod.funcs or n.id in sc.mod.classes:
            base = f"{sc.mod.name}.{n.id}"
        else:
            return None
        base = CANON_ALIASES.get(base, base)
        return ".".join([base] + parts[::-1])

    # -- expressions -------------------------------------------------------
    def expr(self, e, sc: Scope, out) -> int:
        """Emit statements evaluating e; return the variable holding its value."""
        if isinstance(e, ast.Name):
            if e.id in sc.names:
                return sc.names[e.id]
            if e.id == "self" and sc.self_model is not None:
                self.bad(e, sc, "bare `self` under a self model")
            if e.id in ("True", "False", "None"):
                return self.fresh(out, e, sc, e.id)
            c = self.canon(e, sc)
            if c is not None:
                return self.fresh(out, e, sc, f"global {c}")
            self.bad(e, sc, f"unbound name {e.id}")
        if isinstance(e, ast.Constant):
            return self.fresh(out, e, sc, "const")
        if isinstance(e, ast.JoinedStr):
            for v in e.values:
                if isinstance(v, ast.FormattedValue):
                    self.expr(v.value, sc, out)
            return self.fresh(out, e, sc, "fstring")
        if isinstance(e, (ast.BinOp,)):
            self.expr(e.left, sc, out)
            self.expr(e.right, sc, out)
            return self.fresh(out, e, sc, "binop " + type(e.op).__name__)
        if isinstance(e, ast.UnaryOp):
            self.expr(e.operand, sc, out)
            return self.fresh(out, e, sc, "unop")
        if isinstance(e, ast.Compare):
            self.expr(e.left, sc, out)
            for c in e.comparators:
                self.expr(c, sc, out)
            return self.fresh(out, e, sc, "compare")
        if isinstance(e, ast.BoolOp):          # returns one of its operands
            t = self.new_var("%boolop")
            for v in e.values:
                out.append(("assign", t, ("alias", self.expr(v, sc, out))))
            return t
        if isinstance(e, ast.IfExp):
            self.expr(e.test, sc, out)
            t = self.new_var("%ifexp")
            a, b = [], []
            a.append(("assign", t, ("alias", self.expr(e.body, sc, a))))
            b.append(("assign", t, ("alias", self.expr(e.orelse, sc, b))))
            out.append(("if", a, b))
            return t
        if isinstance(e, (ast.Tuple, ast.List, ast.Set)):
            vs = [self.expr(x.value if isinstance(x, ast.Starred) else x, sc, out) for x in e.elts]
            return self.tmp(out, ("box", self.new_site(e, "literal", sc), vs), "box")
        if isinstance(e, ast.Dict):
            vs = []
            for k, v in zip(e.keys, e.values):
                if k is not None:
                    self.expr(k, sc, out)
                vs.append(self.expr(v, sc, out))
            return self.tmp(out, ("box", self.new_site(e, "dict", sc), vs), "dict")
        if isinstance(e, ast.Subscript):
            base = self.expr(e.value, sc, out)
            self.index(e.slice, sc, out)
            return self.tmp(out, ("proj", base), "sub")
        if isinstance(e, ast.Starred):
            return self.expr(e.value, sc, out)
        if isinstance(e, ast.Attribute):
            return self.attribute(e, sc, out)
        if isinstance(e, ast.Call):
            return self.call(e, sc, out)
        if isinstance(e, (ast.ListComp, ast.GeneratorExp, ast.SetComp)):
            return self.comprehension(e, sc, out)
        self.bad(e, sc, f"unsupported expression {type(e).__name__}")

    def index(self, s, sc, out):
        if isinstance(s, ast.Slice):
            for p in (s.lower, s.upper, s.step):
                if p is not None:
                    self.expr(p, sc, out)
        elif isinstance(s, ast.Tuple):
            for x in s.elts:
                self.index(x, sc, out)
        else:
            self.expr(s, sc, out)

    def attribute(self, e: ast.Attribute, sc: Scope, out) -> int:
        if isinstance(e.value, ast.Name) and e.value.id == "self" and sc.self_model is not None \
                and "self" not in sc.names:
            role = sc.self_model.get(e.attr, sc.self_model[None])
            if role[0] == "local":
                return self.self_locals[e.attr]
            p = self.tmp(out, ("param", role[1]), f"self.{e.attr}")
            return self.tmp(out, ("proj", p), f"self.{e.attr}")
        c = self.canon(e, sc)
        if c is not None:                      # torch.nan, torch.float32, np.int32, ...
            return self.fresh(out, e, sc, f"global {c}")
        base = self.expr(e.value, sc, out)
        if e.attr in FRESH_ATTRS:
            return self.fresh(out, e, sc, f".{e.attr}")
        return self.tmp(out, ("proj", base), f".{e.attr}")

    def comprehension(self, e, sc: Scope, out) -> int:
        box = self.tmp(out, ("box", self.new_site(e, "comprehension", sc), []), "comp")

        def gen(i, acc):
            if i == len(e.generators):
                v = self.expr(e.elt, sc, acc)
                acc.append(self.mkstore(box, [v]))
                return
            g = e.generators[i]
            it = self.expr(g.iter, sc, acc)
            body = []
            el = self.tmp(body, ("proj", it), "it")
            self.assign_target(g.target, el, None, sc, body)
            for c in g.ifs:
                self.expr(c, sc, body)
            gen(i + 1, body)
            acc.append(("loop", body))
        saved = dict(sc.names)
        gen(0, out)
        sc.names = saved
        return box

    # -- calls -------------------------------------------------------------
    def args_of(self, e: ast.Call, sc, out):
        pos = [self.expr(a, sc, out) for a in e.args]
        kw = {}
        extra = []
        for k in e.keywords:
            v = self.expr(k.value, sc, out)
            if k.arg is None:
                extra.append(v)
            else:
                kw[k.arg] = v
        return pos, kw, extra

    def apply_kind(self, kind, e, sc, out, recv, allargs, what) -> int:
        site = lambda: self.new_site(e, what, sc)
        if kind == "fresh":
            return self.tmp(out, ("fresh", site()), "r")
        if recv is None and kind in ("view", "maybe", "inplace"):
            self.bad(e, sc, f"{what}: no first argument")
        if kind == "view":
            return self.tmp(out, ("alias", recv), "v")
        if kind == "maybe":
            return self.tmp(out, ("maybe", site(), recv), "m")
        if kind == "anyview":
            t = self.tmp(out, ("fresh", site()), "av")
            for a in allargs:
                out.append(("assign", t, ("proj", a)))
            return t
        if kind == "inplace":
            out.append(self.mkstore(recv, [a for a in allargs if a != recv]))
            return self.tmp(out, ("alias", recv), "ip")
        raise AssertionError(kind)

    def call(self, e: ast.Call, sc: Scope, out) -> int:
        f = e.func
        # ---- self.method(...)
        if isinstance(f, ast.Attribute) and isinstance(f.value, ast.Name) and f.value.id == "self" \
                and (sc.self_model is not None or "self" in sc.names) and f.attr in SELF_FRESH_METHODS:
            self.args_of(e, sc, out)
            return self.fresh(out, e, sc, f"self.{f.attr}() oracle")
        if isinstance(f, ast.Attribute) and isinstance(f.value, ast.Name) and f.value.id == "self" \
                and (sc.self_model is not None or "self" in sc.names) and f.attr in SELF_MAYBE_METHODS:
            pos, kw, extra = self.args_of(e, sc, out)
            allargs = pos + list(kw.values()) + extra
            return self.apply_kind("maybe", e, sc, out, allargs[0] if allargs else None, allargs,
                                   f"self.{f.attr}() callable: new object or its argument's buffer")
        # ---- super().__getitem__(index) of a litdata StreamingDataset: the sample is deserialised from
        #      the chunk file on every call: a new dict holding new objects (external oracle)
        if isinstance(f, ast.Attribute) and f.attr in SUPER_FRESH_METHODS and isinstance(f.value, ast.Call) \
                and isinstance(f.value.func, ast.Name) and f.value.func.id == "super" and not f.value.args:
            self.args_of(e, sc, out)
            inner = self.fresh(out, e, sc, f"super().{f.attr}() oracle: deserialised field")
            return self.tmp(out, ("box", self.new_site(e, f"super().{f.attr}() oracle: sample dict", sc), [inner]), "super")
        canon = self.canon(f, sc)
        if canon is not None:
            # ---- a function of the analysed modules: inline
            hit = self.src.resolve_func(canon)
            if hit is not None:
                return self.inline(hit[0], hit[1], e, sc, out)
            pos, kw, extra = self.args_of(e, sc, out)
            allargs = pos + list(kw.values()) + extra
            if "out" in kw:                    # op(..., out=x): writes x, returns x
                o = kw["out"]
                out.append(self.mkstore(o, [a for a in allargs if a != o]))
                return self.tmp(out, ("alias", o), "out")
            if canon in ORACLE_CTORS or canon in FRESH_CALLABLE_CTORS or canon in MAYBE_CALLABLE_CTORS \
                    or canon.startswith(FRESH_PREFIXES):
                return self.fresh(out, e, sc, f"{canon}() oracle")
            if canon in FUNC_TABLE:
                return self.apply_kind(FUNC_TABLE[canon], e, sc, out, pos[0] if pos else None, allargs, canon)
            self.bad(e, sc, f"call of {canon}: not in the operation table")
        # ---- builtins / local callables
        if isinstance(f, ast.Name):
            pos, kw, extra = self.args_of(e, sc, out)
            allargs = pos + list(kw.values()) + extra
            if f.id in sc.names:
                if f.id in sc.fresh_callables:
                    return self.fresh(out, e, sc, f"{f.id}() fresh-result callable")
                if f.id in sc.maybe_callables:
                    return self.apply_kind("maybe", e, sc, out, allargs[0] if allargs else None, allargs,
                                           f"{f.id}() callable: new object or its argument's buffer")
                if f.id in sc.oracles:
                    # kornia AugmentationSequential.__call__: an external oracle whose outputs are new
                    # tensors or (when no operation fires, observed) the inputs themselves
                    return self.apply_kind("anyview", e, sc, out, None, allargs, f"{f.id}() kornia oracle")
                self.bad(e, sc, f"call of local variable {f.id}")
            if f.id in SCALAR_BUILTINS:
                return self.fresh(out, e, sc, f"{f.id}()")
            if f.id in STRUCT_BUILTINS:
                els = [self.tmp(out, ("proj", a), "el") for a in allargs]
                return self.tmp(out, ("box", self.new_site(e, f"{f.id}()", sc), els), "struct")
            if f.id in ANYARG_BUILTINS:
                return self.apply_kind("anyview", e, sc, out, None, allargs, f"{f.id}()")
            self.bad(e, sc, f"call of unknown name {f.id}")
        # ---- method call on a value
        if isinstance(f, ast.Attribute):
            recv = self.expr(f.value, sc, out)
            pos, kw, extra = self.args_of(e, sc, out)
            allargs = pos + list(kw.values()) + extra
            m = f.attr
            what = f".{m}()"
            if "out" in kw:
                o = kw["out"]
                out.append(self.mkstore(o, [recv] + [a for a in allargs if a != o]))
                return self.tmp(out, ("alias", o), "out")
            if m == "copy":
                return self.tmp(out, ("copy", self.new_site(e, what, sc), recv), "copy")
            if m.endswith("_") and not m.startswith("_"):
                return self.apply_kind("inplace", e, sc, out, recv, [recv] + allargs, what)
            if m in STORE_METHODS:
                out.append(self.mkstore(recv, allargs))
                return self.fresh(out, e, sc, what)
            if m in POP_METHODS:
                out.append(self.mkstore(recv, allargs))
                return self.tmp(out, ("proj", recv), "pop")
            if m in PROJ_METHODS:
                t = self.tmp(out, ("proj", recv), "get")
                for a in allargs:              # dict.get(k, default)
                    out.append(("assign", t, ("alias", a)))
                return t
            if m in VIEW_METHODS:
                return self.apply_kind("view", e, sc, out, recv, allargs, what)
            if m in MAYBE_METHODS:
                return self.apply_kind("maybe", e, sc, out, recv, allargs, what)
            if m in FRESH_METHODS:
                return self.apply_kind("fresh", e, sc, out, recv, allargs, what)
            self.bad(e, sc, f"method .{m}(): not in the operation table")
        self.bad(e, sc, "unsupported call form")

    def inline(self, mod: Module, fd: ast.FunctionDef, e: ast.Call, sc: Scope, out) -> int:
        if self.depth > 8:
            self.bad(e, sc, "inlining too deep (recursion?)")
        self.inline_count += 1
        inner = Scope(mod, f"{fd.name}#{self.inline_count}.")
        inner.fname = fd.name
        a = fd.args
        if a.vararg or a.kwarg or a.posonlyargs:
            self.bad(e, sc, f"{fd.name}: *args/**kwargs/positional-only parameters")
        params = [p.arg for p in a.args] + [p.arg for p in a.kwonlyargs]
        bound = {}
        has_star = False
        pos_i = 0
        for arg in e.args:
            if isinstance(arg, ast.Starred):
                has_star = True
                self.expr(arg.value, sc, out)
                continue
            if pos_i >= len(a.args):
                self.bad(e, sc, f"{fd.name}: too many positional arguments")
            bound[a.args[pos_i].arg] = self.expr(arg, sc, out)
            pos_i += 1
        for k in e.keywords:
            v = self.expr(k.value, sc, out)
            if k.arg is None:
                has_star = True
            elif k.arg in params:
                bound[k.arg] = v
            else:
                self.bad(e, sc, f"{fd.name}: unknown keyword {k.arg}")
        defaults = dict(zip([p.arg for p in a.args][len(a.args) - len(a.defaults):], a.defaults))
        defaults.update({p.arg: d for p, d in zip(a.kwonlyargs, a.kw_defaults) if d is not None})
        for p in params:
            pv = self.define(inner, p)
            if p in bound:
                out.append(("assign", pv, ("alias", bound[p])))
            if p not in bound or has_star:
                # default value / scalar supplied through ** : a fresh object
                if p not in bound and p not in defaults and not has_star:
                    self.bad(e, sc, f"{fd.name}: parameter {p} not supplied")
                out.append(("assign", pv, ("fresh", self.new_site(e, f"default/** for {p}", sc))))
        self.depth += 1
        saved_loc = self.cur_loc
        self.function_body(fd, inner, out)
        self.cur_loc = saved_loc
        self.depth -= 1
        self.last_inline = (id(e), inner.ret_elts)
        return inner.ret

    def function_body(self, fd: ast.FunctionDef, sc: Scope, out):
        sc.ret = self.new_var(f"{sc.tag}return")
        # elementwise return variables when every `return` is a tuple literal of one arity
        rets = [n for n in ast.walk(fd) if isinstance(n, ast.Return)]
        ar = {len(r.value.elts) if (r.value is not None and isinstance(r.value, ast.Tuple)) else -1 for r in rets}
        if len(ar) == 1 and -1 not in ar:
            sc.ret_elts = [self.new_var(f"{sc.tag}return[{k}]") for k in range(ar.pop())]
        out.append(("assign", sc.ret, ("fresh", self.new_site(fd, "implicit None", sc))))
        self.block(fd.body, sc, out)

    # -- statements --------------------------------------------------------
    @staticmethod
    def has_jump(body) -> bool:
        return any(isinstance(n, (ast.Break, ast.Continue, ast.Try)) for b in body for n in ast.walk(b))

    def block(self, body, sc, out):
        for s in body:
            self.stmt(s, sc, out)

    def assign_target(self, t, val: int, elts, sc: Scope, out):
        """Bind target t to the value in variable `val`; `elts` are per-element
        variables when the right-hand side is known to be a tuple of that arity."""
        if isinstance(t, ast.Name):
            if t.id == "self":
                self.bad(t, sc, "assignment to self")
            out.append(("assign", self.define(sc, t.id), ("alias", val)))
        elif isinstance(t, (ast.Tuple, ast.List)):
            if any(isinstance(x, ast.Starred) for x in t.elts):
                elts = None
            for k, x in enumerate(t.elts):
                x = x.value if isinstance(x, ast.Starred) else x
                if elts is not None and len(elts) == len(t.elts):
                    self.assign_target(x, elts[k], None, sc, out)
                else:
                    self.assign_target(x, self.tmp(out, ("proj", val), "unpack"), None, sc, out)
        elif isinstance(t, ast.Subscript):
            base = self.expr(t.value, sc, out)
            self.index(t.slice, sc, out)
            out.append(self.mkstore(base, [val]))
        elif isinstance(t, ast.Attribute):
            if isinstance(t.value, ast.Name) and t.value.id == "self" and sc.self_model is not None:
                role = sc.self_model.get(t.attr, sc.self_model[None])
                if role[0] == "local":
                    out.append(("assign", self.self_locals[t.attr], ("alias", val)))
                    return
                self.bad(t, sc, f"store to self.{t.attr}")
            if t.attr in LOGGED_ATTR_STORES and not (isinstance(t.value, ast.Name) and t.value.id == "self"):
                base = self.expr(t.value, sc, out)
                self.logged.append(f"{sc.mod.path.name}:{t.lineno}: attribute store "
                                   f"{ast.unparse(t)} = ... (a write to the object `{ast.unparse(t.value)}`: SStore)")
                st = self.mkstore(base, [val])
                out.append(st[:3] + (st[3] + f":attr={t.attr}",))
                return
            self.bad(t, sc, f"attribute store {ast.unparse(t)}")
        else:
            self.bad(t, sc, f"unsupported assignment target {type(t).__name__}")

    def stmt(self, s, sc: Scope, out):
        self.cur_loc = f"{sc.mod.path.name}:{s.lineno}:{sc.fname}"
        if isinstance(s, ast.Expr):
            if isinstance(s.value, ast.Constant):
                return
            if isinstance(s.value, ast.Yield):
                # generator: every yielded value is a result of the call (the caller may hold all of them)
                if s.value.value is not None:
                    out.append(("assign", sc.ret, ("alias", self.expr(s.value.value, sc, out))))
                return
            self.expr(s.value, sc, out)
        elif isinstance(s, ast.Assign):
            elts = None
            if isinstance(s.value, ast.Tuple) and not any(isinstance(x, ast.Starred) for x in s.value.elts):
                elts = [self.expr(x, sc, out) for x in s.value.elts]
                val = self.tmp(out, ("box", self.new_site(s.value, "tuple", sc), elts), "tuple")
            else:
                self.last_inline = (None, None)
                val = self.expr(s.value, sc, out)
                if isinstance(s.value, ast.Call) and self.last_inline[0] == id(s.value):
                    elts = self.last_inline[1]
                # remember objects whose call is the kornia oracle
                if isinstance(s.value, ast.Call) and self.canon(s.value.func, sc) in ORACLE_CTORS:
                    for t in s.targets:
                        if isinstance(t, ast.Name):
                            sc.oracles.add(t.id)
                if isinstance(s.value, ast.Call) and self.canon(s.value.func, sc) in FRESH_CALLABLE_CTORS:
                    for t in s.targets:
                        if isinstance(t, ast.Name):
                            sc.fresh_callables.add(t.id)
                if isinstance(s.value, ast.Call) and self.canon(s.value.func, sc) in MAYBE_CALLABLE_CTORS:
                    for t in s.targets:
                        if isinstance(t, ast.Name):
                            sc.maybe_callables.add(t.id)
            for t in s.targets:
                self.assign_target(t, val, elts, sc, out)
        elif isinstance(s, ast.AnnAssign):
            if s.value is not None:
                self.assign_target(s.target, self.expr(s.value, sc, out), None, sc, out)
        elif isinstance(s, ast.AugAssign):
            v = self.expr(s.value, sc, out)
            t = s.target
            if isinstance(t, ast.Name):
                # in place for tensors / arrays / lists (a rebind for Python numbers: over-approximated)
                out.append(self.mkstore(self.expr(t, sc, out), [v]))
            elif isinstance(t, ast.Subscript):
                # x[k] op= v  is  e = x[k]; e = e.__iop__(v); x[k] = e : the element object is mutated
                # in place (tensor / array / list elements) AND stored back into x
                base = self.expr(t.value, sc, out)
                self.index(t.slice, sc, out)
                el = self.tmp(out, ("proj", base), "augsub")
                out.append(self.mkstore(el, [v]))
                out.append(self.mkstore(base, [el, v]))
            elif isinstance(t, ast.Attribute):
                base = self.expr(t, sc, out)
                out.append(self.mkstore(base, [v]))
                out.append(self.mkstore(self.expr(t.value, sc, out), [base]))
            else:
                self.bad(s, sc, "unsupported augmented assignment")
        elif isinstance(s, ast.Return):
            if s.value is not None:
                if sc.ret_elts is not None and isinstance(s.value, ast.Tuple):
                    vs = [self.expr(x, sc, out) for x in s.value.elts]
                    for rv, v in zip(sc.ret_elts, vs):
                        out.append(("assign", rv, ("alias", v)))
                    out.append(("assign", sc.ret, ("box", self.new_site(s, "return tuple", sc), vs)))
                else:
                    out.append(("assign", sc.ret, ("alias", self.expr(s.value, sc, out))))
        elif isinstance(s, ast.If):
            self.expr(s.test, sc, out)
            a, b = [], []
            before = dict(sc.names)
            self.block(s.body, sc, a)
            m1 = sc.names
            sc.names = dict(before)
            self.block(s.orelse, sc, b)
            self.merge(sc, m1, a, sc.names, b)
            out.append(("if", a, b))
        elif isinstance(s, ast.For):
            it = self.expr(s.iter, sc, out)

            def emit(body):
                el = self.tmp(body, ("proj", it), "it")
                self.assign_target(s.target, el, None, sc, body)
                self.block(s.body, sc, body)
            out.append(("loop", self.loop_like(sc, out, [s.target] + s.body, self.has_jump(s.body), emit)))
            self.block(s.orelse, sc, out)
        elif isinstance(s, ast.While):
            def emit(body):
                self.expr(s.test, sc, body)
                self.block(s.body, sc, body)
            out.append(("loop", self.loop_like(sc, out, s.body, self.has_jump(s.body), emit)))
            self.block(s.orelse, sc, out)
        elif isinstance(s, ast.Assert):
            self.expr(s.test, sc, out)
        elif isinstance(s, ast.Delete):
            for t in s.targets:
                if isinstance(t, ast.Subscript):
                    out.append(self.mkstore(self.expr(t.value, sc, out), []))
                elif not isinstance(t, ast.Name):
                    self.bad(s, sc, "unsupported del")
        elif isinstance(s, ast.Raise):
            if s.exc is not None:
                self.expr(s.exc, sc, out)
        elif isinstance(s, (ast.Pass, ast.Break, ast.Continue)):
            pass          # execution may stop after any statement (AliasIR.ex_stop)
        elif isinstance(s, ast.With):
            for it in s.items:
                v = self.expr(it.context_expr, sc, out)
                if it.optional_vars is not None:
                    self.assign_target(it.optional_vars, self.tmp(out, ("proj", v), "with"), None, sc, out)
            self.block(s.body, sc, out)
        elif isinstance(s, ast.Try):
            def emit(body):
                self.block(s.body, sc, body)
                for h in s.handlers:
                    if h.name:
                        body.append(("assign", self.define(sc, h.name),
                                     ("fresh", self.new_site(h, "exception", sc))))
                    self.block(h.body, sc, body)
                self.block(s.orelse, sc, body)
                self.block(s.finalbody, sc, body)
            # the handlers / finally may observe any intermediate state of the body
            out.append(("loop", self.loop_like(sc, out, [s], True, emit)))
        else:
            self.bad(s, sc, f"unsupported statement {type(s).__name__}")

    # -- one target --------------------------------------------------------
    def translate(self, mod: Module, fd: ast.FunctionDef, self_model):
        sc = Scope(mod, "", self_model)
        sc.fname = fd.name
        out = []
        a = fd.args
        if a.vararg or a.kwarg:
            raise Unsupported(f"{mod.path}:{fd.lineno}: *args/**kwargs")
        pnames = [p.arg for p in a.args] + [p.arg for p in a.kwonlyargs]
        if self_model is not None:
            assert pnames and pnames[0] == "self"
            param_names = ["self.labels", "self.<other>"]
            for attr, role in self_model.items():
                if attr is not None and role[0] == "local":
                    v = self.new_var(f"self.{attr}")
                    self.self_locals[attr] = v
                    out.append(("assign", v, ("box", self.new_site(fd, f"self.{attr} (local state)", sc), [])))
            for k, p in enumerate(pnames[1:]):
                out.append(("assign", self.define(sc, p), ("param", 2 + k)))
                param_names.append(p)
        else:
            param_names = pnames
            for k, p in enumerate(pnames):
                out.append(("assign", self.define(sc, p), ("param", k)))
        self.function_body(fd, sc, out)
        return {"name": self.display, "params": param_names, "ret": sc.ret, "body": out,
                "var_names": self.var_names, "sites": self.sites, "logged": self.logged}


# ----------------------------------------------------------------------------
# the certificate: least solution of the inclusion constraints (untrusted)

def flatten(body, acc):
    for s in body:
        if s[0] in ("assign", "store"):
            acc.append(s)
        elif s[0] == "if":
            flatten(s[1], acc)
            flatten(s[2], acc)
        elif s[0] == "loop":
            flatten(s[1], acc)
    return acc


def solve(body):
    from collections import defaultdict
    pts = defaultdict(set)
    hpts = defaultdict(set)
    flat = flatten(body, [])

    def hp(r):
        return ({r} | hpts[r]) if r[0] == "P" else hpts[r]

    changed = True
    while changed:
        changed = False

        def add(target: set, items):
            nonlocal changed
            n = len(target)
            target |= set(items)
            if len(target) != n:
                changed = True
        for s in flat:
            if s[0] == "assign":
                x, r = s[1], s[2]
                k = r[0]
                if k == "param":
                    add(pts[x], [("P", r[1])])
                elif k == "fresh":
                    add(pts[x], [("S", r[1])])
                elif k == "alias":
                    add(pts[x], pts[r[1]])
                elif k == "maybe":
                    add(pts[x], [("S", r[1])])
                    add(pts[x], pts[r[2]])
                elif k == "box":
                    add(pts[x], [("S", r[1])])
                    for y in r[2]:
                        add(hpts[("S", r[1])], pts[y])
                elif k == "copy":
                    add(pts[x], [("S", r[1])])
                    for q in list(pts[r[2]]):
                        add(hpts[("S", r[1])], hp(q))
                elif k == "proj":
                    add(pts[x], pts[r[1]])
                    for q in list(pts[r[1]]):
                        add(pts[x], hp(q))
            else:
                x, ys = s[1], s[2]
                for q in list(pts[x]):
                    for y in ys:
                        add(hpts[q], pts[y] - ({q} if q[0] == "P" else set()))
    return pts, hpts


def offending_stores(fn):
    """Source locations (file:line:function) of the in-place writes the certificate
    says may hit a parameter.  Diagnostic: used by the check to decide whether a
    rejection can be attributed to a known finding's source statement."""
    pts, _ = solve(fn["body"])
    return sorted({s[3] for s in flatten(fn["body"], []) if s[0] == "store" and any(q[0] == "P" for q in pts[s[1]])})


def analysis_facts(fn):
    """What the (Python-side, untrusted) solution says; the harness uses the
    Coq-side report instead, this is for the translator self-test and notes."""
    pts, hpts = solve(fn["body"])
    written = set()
    for s in flatten(fn["body"], []):
        if s[0] == "store":
            written |= {q[1] for q in pts[s[1]] if q[0] == "P"}
    return {"written_params": sorted(written), "offending": offending_stores(fn)}


# ----------------------------------------------------------------------------
# Coq text

def _root(r):
    return f"AParam {r[1]}%nat" if r[0] == "P" else f"ASite {r[1]}"


def _rhs(r):
    k = r[0]
    if k == "param":
        return f"RParam {r[1]}%nat"
    if k == "fresh":
        return f"RFresh {r[1]}"
    if k == "alias":
        return f"RAlias {r[1]}"
    if k == "maybe":
        return f"RMaybe {r[1]} {r[2]}"
    if k == "box":
        return f"RBox {r[1]} [{'; '.join(map(str, r[2]))}]"
    if k == "copy":
        return f"RCopy {r[1]} {r[2]}"
    if k == "proj":
        return f"RProj {r[1]}"
    raise AssertionError(k)


def _block(body, ind):
    pad = " " * ind
    if not body:
        return "SSkip"
    items = []
    for s in body:
        if s[0] == "assign":
            items.append(f"SAssign {s[1]} ({_rhs(s[2])})")
        elif s[0] == "store":
            items.append(f"SStore {s[1]} [{'; '.join(map(str, s[2]))}]")
        elif s[0] == "if":
            items.append(f"SIf ({_block(s[1], ind + 2)})\n{pad}    ({_block(s[2], ind + 2)})")
        elif s[0] == "loop":
            items.append(f"SLoop ({_block(s[1], ind + 2)})")
    return "seq_of [\n" + ";\n".join(pad + "  " + i for i in items) + "]"


def coq_ident(name: str) -> str:
    return "".join(c if c.isalnum() else "_" for c in name).strip("_")


def emit_fn(fn) -> str:
    pts, hpts = solve(fn["body"])
    ident = coq_ident(fn["name"])
    lines = [f"(* ---- {fn['name']}({', '.join(fn['params'])})"]
    lines.append("   variables: " + ", ".join(f"{i}={n}" for i, n in enumerate(fn["var_names"])
                                              if not n.startswith("%")))
    lines.append("   sites: " + "; ".join(f"{i}={n}" for i, n in enumerate(fn["sites"])))
    for l in fn["logged"]:
        lines.append("   logged: " + l)
    lines = [l.replace("(*", "( *").replace("*)", "* )") for l in lines]
    lines[0] = "( * ---- ".replace("( *", "(*") + lines[0][len("( * ---- "):]
    lines.append("*)")
    lines.append(f"Definition body_{ident} : stmt :=\n  {_block(fn['body'], 2)}.")
    p = "; ".join(f"({x}, [{'; '.join(_root(r) for r in sorted(rs))}])" for x, rs in sorted(pts.items()) if rs)
    h = "; ".join(f"({_root(q)}, [{'; '.join(_root(r) for r in sorted(rs))}])" for q, rs in sorted(hpts.items()) if rs)
    lines.append(f"Definition pts_{ident} : list (var * list root) :=\n  [{p}].")
    lines.append(f"Definition hpts_{ident} : list (root * list root) :=\n  [{h}].")
    lines.append(f'Definition fn_{ident} : fn :=\n  mkfn "{fn["name"]}" {len(fn["params"])}%nat {fn["ret"]} '
                 f"body_{ident} pts_{ident} hpts_{ident}.")
    return "\n".join(lines) + "\n"


HEADER = """(* GENERATED by translator/c11_alias2coq.py from the working tree of {repo}
   on every run of ./check C11 — do not edit, never committed as truth. *)
From Coq Require Import String.
From Coq Require Import List NArith.
Import ListNotations.
From SV Require Import C11.AliasIR.
Open Scope string_scope.
Open Scope N_scope.

"""


def translate_all(repo: Path, targets=None):
    """Returns (coq_text, functions, failures).  `functions` = translated targets
    (dicts), `failures` = [(display name, message)] for targets outside the fragment."""
    src = Source(repo)
    fns, failures = [], []
    for display, modname, qual, self_model in (targets or TARGETS):
        try:
            mod = src.mods[modname]
            fd = mod.lookup(qual)
            tr = Translator(src, display)
            fns.append(tr.translate(mod, fd, self_model))
        except Unsupported as ex:
            failures.append((display, str(ex)))
        except RecursionError:
            failures.append((display, "recursion while inlining"))
    text = HEADER.format(repo=repo)
    for fn in fns:
        text += emit_fn(fn) + "\n"
    text += "Definition all_fns : list fn :=\n  [" + ";\n   ".join("fn_" + coq_ident(f["name"]) for f in fns) + "].\n"
    text += "Definition report := List.map fn_report all_fns.\n"
    return text, fns, failures


def obligations_text(accepted: list[str], module="C11_AliasProg") -> str:
    """Per-run obligations for the targets the Coq checker accepted: acceptance
    re-established by vm_compute inside a Qed, and the soundness theorem
    instantiated on the generated program."""
    t = ("(* GENERATED per run: one acceptance obligation per accepted target. *)\n"
         "From Coq Require Import String.\nFrom Coq Require Import List.\nImport ListNotations.\n"
         f"From SV Require Import C11.AliasIR C11.Lemmas C11.History C11.LemmasH.\nRequire Import {module}.\n\n")
    for name in accepted:
        i = coq_ident(name)
        t += (f"Theorem accepted_{i} : fn_accepted fn_{i} = true.\nProof. vm_compute. reflexivity. Qed.\n"
              f"Theorem pure_{i} : forall args h e' h', wf_heap h -> args_in args h ->\n"
              f"  exec args (f_body fn_{i}) ([], h) (e', h') ->\n"
              f"  forall o, o < length h -> nth_error h' o = nth_error h o.\n"
              f"Proof. exact (fn_accepted_sound_l fn_{i} accepted_{i}). Qed.\n"
              f"Print Assumptions pure_{i}.\n\n")
    # histories: any interleaving of calls of the accepted functions (reads of any dataset at any index,
    # helper calls) leaves every object existing before it (labels, cache, cached samples) as it was,
    # and never alters a sample handed out earlier
    ids = [coq_ident(n) for n in accepted]
    t += "Definition accepted_fns : list fn :=\n  [" + ";\n   ".join("fn_" + i for i in ids) + "].\n"
    proof = "(@Forall_nil _ _)"
    for i in reversed(ids):
        proof = f"(@Forall_cons _ _ fn_{i} _ accepted_{i}\n   {proof})"
    t += ("Lemma all_accepted : Forall (fun f => fn_accepted f = true) accepted_fns.\n"
          f"Proof. exact {proof}. Qed.\n"
          "Theorem history_pure : forall h h', wf_heap h -> calls accepted_fns h h' ->\n"
          "  (forall n o, o < length h -> value n h' o = value n h o) /\\\n"
          "  (forall h2, calls accepted_fns h' h2 -> forall n o, o < length h' -> value n h2 o = value n h' o).\n"
          "Proof. intros h h' Hwf Hc. split.\n"
          "  - exact (history_value_l accepted_fns all_accepted h h' Hwf Hc).\n"
          "  - intros h2 Hc2. exact (earlier_results_stable_l accepted_fns all_accepted h h' h2 Hwf Hc Hc2).\n"
          "Qed.\nPrint Assumptions history_pure.\n\n")
    return t


if __name__ == "__main__":
    import sys
    repo = Path(sys.argv[1] if len(sys.argv) > 1 else "/repo")
    text, fns, failures = translate_all(repo)
    for f in fns:
        nst = len(flatten(f["body"], []))
        print(f"{f['name']}: {nst} statements, {len(f['var_names'])} vars, {len(f['sites'])} sites, "
              f"facts {analysis_facts(f)}")
        for l in f["logged"]:
            print("   logged:", l)
    for n, m in failures:
        print("UNSUPPORTED", n, m)
    if len(sys.argv) > 2:
        Path(sys.argv[2]).write_text(text)
